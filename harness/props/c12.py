"""C12 — mixed evaluation agrees with pure evaluation and the Born rule."""
import random

import numpy as np

import cmath

from common import Driver, Report, lean_obligations, err_class
import cqsem
import cyc8
import qgen
from cqsem import Sem, TOL

PROP = "C12"

F3_SIG = "eval_crash:override_bits:Dim_has_no_classical"
F21_SIG = "measure_pure_path_on_classical_circuit"
F22_SIG = "encode_variant_declared_with_wrong_type"
F5K_SIG = "get_counts_plain_path_on_non_mixed_circuit_with_amplitudes"


# ------------------------------------------------------------------ box pools

def lib():
    from discopy.quantum import circuit as qc, gates as g
    return qc, g


class Channel:
    """A mixed box with an `array` attribute (cqmap.py:296-297): built lazily as a circuit.Box."""
    @staticmethod
    def make(name, dom, cod, array):
        qc, _ = lib()
        box = qc.Box(name, dom, cod, is_mixed=True)
        box.array = np.asarray(array)
        return box


def dyadic_row(rng, n):
    j = rng.choice([0, 1, 1, 2])
    row = [0] * n
    for _ in range(2 ** j):
        row[rng.randrange(n)] += 1
    return [x / 2 ** j for x in row]


def stochastic_gate(rng, tag):
    _, g = lib()
    nin, nout = rng.choice([(1, 1), (1, 1), (2, 1), (1, 2), (2, 2), (0, 1)])
    data = []
    for _ in range(2 ** nin):
        data += dyadic_row(rng, 2 ** nout)
    return g.ClassicalGate("st%d" % tag, nin, nout, data)


def deterministic_gate(rng, tag):
    _, g = lib()
    nin, nout = rng.choice([(1, 1), (2, 1), (2, 2), (1, 2)])
    data = []
    for _ in range(2 ** nin):
        row = [0] * 2 ** nout
        row[rng.randrange(2 ** nout)] = 1
        data += row
    return g.ClassicalGate("fn%d" % tag, nin, nout, data)


def general_gate(rng, tag):
    _, g = lib()
    nin, nout = rng.choice([(1, 1), (2, 1), (1, 2), (0, 1), (1, 0)])
    vals = [0, 0, 1, 1, -1, 2, 0.5, 1j, 0.5 - 0.5j]
    data = [rng.choice(vals) for _ in range(2 ** (nin + nout))]
    gate = g.ClassicalGate("gn%d" % tag, nin, nout, data)
    return gate.dagger() if rng.random() < 0.3 else gate


def weight_gate(rng, tag=0, exact=True):
    """A classical gate without any wire: a weight (any value, also negative)."""
    _, g = lib()
    vals = [0.5, 0.25, -0.5, 2, 0.75, -1, 1.5, -0.25]
    v = rng.choice(vals) if exact else rng.choice([1 / 3, -0.3, 0.7])
    return g.ClassicalGate("w%d" % tag, 0, 0, [v])


def unitary(rng, exact=True):
    _, g = lib()
    k = rng.randrange(8)
    pool = [g.H, g.X, g.Y, g.Z, g.S, g.T, g.S.dagger(), g.T.dagger(), g.CX, g.CZ, g.SWAP,
            g.H, g.CX, g.Rx(k / 4), g.Ry(k / 4), g.Rz(k / 4), g.CRz(k / 4), g.CRx(k / 4),
            g.CU1(k / 8)]
    if not exact:
        ph = rng.random()
        pool = [g.Rx(ph), g.Ry(ph), g.Rz(ph), g.CRz(ph), g.CRx(ph), g.CU1(ph)]
    return rng.choice(pool)


# Scalar boxes with data in EVERY region of the complex plane, in every form the library offers:
#   scalar(z)                 amplitude z, doubled |z|^2
#   sqrt(z) / gates.Sqrt(z)   amplitude = principal root r of z, doubled |r|^2 = |z| (NOT z: only for z >= 0)
#   class MySqrt(Sqrt) / MyScalar(Scalar)   trivial user subclasses of the two
#   scalar(z, is_mixed=True)  the weight z itself in the mixed evaluation (any value, also negative / complex)
# exact data (roots in Z[zeta_8][1/2], so that the model is compared) and float data (oracle only).
SCALAR_FORMS = ("sqrt", "scalar", "MySqrt", "MyScalar", "mixed")
SCALAR_REGIONS = ("positive", "negative", "imaginary", "complex", "zero")
UNIT_ROOTS = [(1, 0, 0, 0, 0), (0, 0, 1, 0, 0), (0, 1, 0, 0, 0), (0, 0, 0, -1, 0)]      # sqrt(1), (-1), (i), (-i)
UNIT_SCALARS = [(-1, 0, 0, 0, 0), (0, 0, 1, 0, 0), (0, 0, -1, 0, 0), (0, 1, 0, 0, 0), (0, 0, 0, 1, 0),
                (0, -1, 0, 0, 0), (1, 0, 0, 0, 0)]
ALL_EXACT_SCALARS = qgen.EXACT_SCALARS + qgen.EXACT_SCALARS_EXTRA


def data_region(z):
    z = complex(z)
    if abs(z) < 1e-12:
        return "zero"
    if abs(z.imag) <= 1e-12 * abs(z):
        return "positive" if z.real > 0 else "negative"
    if abs(z.real) <= 1e-12 * abs(z):
        return "imaginary"
    return "complex"


def _by_region(pool, value):
    out = {}
    for t in pool:
        out.setdefault(data_region(value(t)), []).append(t)
    return out


ROOTS_BY_REGION = _by_region(qgen.EXACT_ROOTS, lambda w: cyc8.to_complex(cyc8.mul(w, w)))
SCALARS_BY_REGION = _by_region(ALL_EXACT_SCALARS, cyc8.to_complex)


def scalar_amplitude(box):
    """The amplitude a pure scalar box stands for, from its DATA (not from `box.array`): the
    principal square root for a Sqrt, the datum otherwise."""
    _, g = lib()
    z = complex(box.data)
    return cmath.sqrt(z) if isinstance(box, g.Sqrt) else z


def is_unit_scalar(box):
    _, g = lib()
    return isinstance(box, g.Scalar) and not box.is_mixed and not getattr(box, "free_symbols", None) \
        and abs(abs(scalar_amplitude(box)) - 1.0) <= 1e-12


def region_scalar(rng, form=None, region=None, exact=True, unit=False):
    """One scalar box of the given form (SCALAR_FORMS) with data in the given region
    (SCALAR_REGIONS; any if None).  `unit`: a global phase (modulus one: a unitary on no qubit).
    Data of every Python number type a user may type (int / float / complex / numpy)."""
    _, g = lib()
    form = form or rng.choice(SCALAR_FORMS[:4] if unit else SCALAR_FORMS)
    is_root = form in ("sqrt", "MySqrt")
    if not exact:
        if unit:
            z = cmath.exp(1j * round(rng.uniform(-3.1, 3.1), 3))
        else:
            mag = round(rng.uniform(0.05, 3), 3)
            region = region or rng.choice(SCALAR_REGIONS[:4])
            z = {"positive": mag, "negative": -mag, "imaginary": complex(0, mag * rng.choice((1, -1))),
                 "zero": 0.0}.get(region)
            if z is None:
                z = complex(round(rng.uniform(-3, 3), 3) or 0.7, round(rng.uniform(-3, 3), 3) or -0.3)
        desc = ("Z", None, None, z) if is_root else ("S", None, z)
    elif is_root:
        pool = UNIT_ROOTS if unit else ROOTS_BY_REGION.get(region) or qgen.EXACT_ROOTS
        w = rng.choice(pool)
        zt = cyc8.mul(w, w)
        types = ["auto", "auto", "complex", "np.complex128"]
        if cyc8.is_real(zt) and cyc8.to_complex(zt).real >= 0:
            types += ["float", "np.float64"]
        desc = qgen.sqrt_exact(w, rng.choice(types))
    else:
        pool = UNIT_SCALARS if unit else SCALARS_BY_REGION.get(region) or ALL_EXACT_SCALARS
        t = rng.choice(pool)
        desc = ("S", t, qgen.number_of(t, rng.choice(["auto", "auto", "complex", "np.complex128"])))
    if form == "mixed":
        return mixed_scalar_by(rng.choice(MIXED_ROUTES), desc[2])
    return qgen.build(("U", desc) if form.startswith("My") else desc)


# Every calling convention that yields a scalar box "on which the Born rule has already been applied":
# they differ in the CLASS of the box and in which constructor arguments its methods (dagger, subs, ...)
# have to forward.
MIXED_ROUTES = ("MixedScalar(z)", "scalar(z,is_mixed=True)", "scalar(z,True)", "Scalar(z,is_mixed=True)",
                "Scalar(z,name='w',is_mixed=True)", "Scalar(z,complex,'w',True)", "MyMixed(z)")
_MY_MIXED = []


def mixed_scalar_by(route, z):
    _, g = lib()
    if not _MY_MIXED:
        _MY_MIXED.append(type("MyMixed", (g.MixedScalar,), {}))     # a trivial user subclass
    return {
        "MixedScalar(z)": lambda: g.MixedScalar(z),
        "scalar(z,is_mixed=True)": lambda: g.scalar(z, is_mixed=True),
        "scalar(z,True)": lambda: g.scalar(z, True),
        "Scalar(z,is_mixed=True)": lambda: g.Scalar(z, is_mixed=True),
        "Scalar(z,name='w',is_mixed=True)": lambda: g.Scalar(z, name="w", is_mixed=True),
        "Scalar(z,complex,'w',True)": lambda: g.Scalar(z, complex, "w", True),
        "MyMixed(z)": lambda: _MY_MIXED[0](z),
    }[route]()


def mixed_route_of(box):
    """The route as far as it can be read off the box (class, custom name)."""
    return "%s%s" % (type(box).__name__, "" if box._name == "scalar" else "+name")


def scalar_form(box):
    _, g = lib()
    if box.is_mixed:
        return "mixed"
    base = "sqrt" if isinstance(box, g.Sqrt) else "scalar"
    return base if type(box) in (g.Sqrt, g.Scalar) else "My" + base.capitalize()


def scalar_box(rng, mixed_ok=True):
    """A scalar box for the random circuit families: every form, every region, mostly exact."""
    r = rng.random()
    form = "sqrt" if r < 0.35 else "scalar" if r < 0.6 else "MySqrt" if r < 0.67 else "MyScalar" \
        if r < 0.72 else "mixed"
    if form == "mixed" and not mixed_ok:
        form = rng.choice(("sqrt", "scalar"))
    return region_scalar(rng, form, rng.choice(SCALAR_REGIONS[:4] * 3 + SCALAR_REGIONS[4:]),
                         exact=rng.random() < 0.85)


def phase_box(rng):
    """A global phase: a pure scalar box of modulus one (sqrt(-1), sqrt(1j), scalar(-1), ...)."""
    return region_scalar(rng, exact=rng.random() < 0.85, unit=True)


def some_type(rng, n, kinds="bq"):
    qc, _ = lib()
    t = qc.Ty()
    for _ in range(n):
        t = t @ (qc.bit if rng.choice(kinds) == "b" else qc.qubit)
    return t


def channel(rng):
    qc, g = lib()
    p = rng.choice([0.5, 0.25, 0.75])
    pauli = rng.choice([g.X, g.Y, g.Z]).array.reshape(2, 2)

    def dbl(u):
        return np.transpose(np.multiply.outer(np.conjugate(u), u), (0, 2, 1, 3))
    if rng.random() < 0.5:
        arr = p * dbl(np.eye(2)) + (1 - p) * dbl(pauli)
        return Channel.make("noise", qc.qubit, qc.qubit, arr)
    arr = np.stack([dbl(np.eye(2)), dbl(pauli)])           # [c, q, q', p, p']
    return Channel.make("ctrl", qc.bit @ qc.qubit, qc.qubit, arr)


def candidates(rng, cls, tag):
    """A fresh list of candidate boxes for one growth step of a circuit of class `cls`."""
    qc, g = lib()
    out = []
    ket = g.Ket(*[rng.randrange(2) for _ in range(rng.choice([1, 1, 2]))])
    if cls == "classical_tp":                                # bits, stochastic / deterministic gates
        return [g.Bits(*[rng.randrange(2) for _ in range(rng.choice([1, 1, 2]))]),
                stochastic_gate(rng, tag), deterministic_gate(rng, tag), g.Copy(),
                qc.Swap(qc.bit, qc.bit)]
    if cls == "pure_tp":                                     # preparations and unitaries only
        out = [ket, unitary(rng), unitary(rng), unitary(rng)]
        if rng.random() < 0.4:
            out.append(phase_box(rng))                           # a unitary on no qubit
        return out
    if cls == "classical":                                   # bits and non-mixed classical gates
        out += [g.Bits(*[rng.randrange(2) for _ in range(rng.choice([1, 1, 2]))]),
                stochastic_gate(rng, tag), deterministic_gate(rng, tag), g.Copy(), g.Match(),
                general_gate(rng, tag), qc.Swap(qc.bit, qc.bit)]
        if rng.random() < 0.5:
            out.append(weight_gate(rng, tag, exact=rng.random() < 0.85))
        return out
    if cls == "pure":
        out += [ket, unitary(rng), unitary(rng), unitary(rng), unitary(rng)]
        if rng.random() < 0.15:
            out.append(unitary(rng, exact=False))
        if rng.random() < 0.25:
            out.append(g.Bra(*[rng.randrange(2) for _ in range(rng.choice([1, 1, 2]))]))
        if rng.random() < 0.6:
            out.append(scalar_box(rng, mixed_ok=False))
        return out
    bits = g.Bits(*[rng.randrange(2) for _ in range(rng.choice([1, 1, 2]))])
    n = rng.choice([1, 1, 2])
    out += [ket, bits, unitary(rng), unitary(rng),
            qc.Measure(n, destructive=rng.random() < 0.6, override_bits=rng.random() < 0.3),
            qc.Measure(),
            qc.Discard(some_type(rng, rng.choice([1, 1, 2]))),
            stochastic_gate(rng, tag), deterministic_gate(rng, tag), g.Copy(),
            qc.Swap(some_type(rng, 1), some_type(rng, 1))]
    if rng.random() < 0.1:
        out.append(unitary(rng, exact=False))
    if rng.random() < 0.5:
        out.append(phase_box(rng))                               # global phases are trace-preserving
    if cls == "tp":
        return out
    out += [qc.MixedState(some_type(rng, rng.choice([1, 1, 2]))),
            qc.Encode(n, constructive=rng.random() < 0.6, reset_bits=rng.random() < 0.3),
            g.Match(), general_gate(rng, tag), scalar_box(rng)]
    if rng.random() < 0.3:
        out.append(g.Bra(*[rng.randrange(2) for _ in range(rng.choice([1, 2]))]))
    if rng.random() < 0.3:
        out.append(g.Bits(*[rng.randrange(2) for _ in range(rng.choice([1, 2]))]).dagger())
    if rng.random() < 0.3:
        out.append(channel(rng))
    if rng.random() < 0.35:
        out.append(weight_gate(rng, tag, exact=rng.random() < 0.85))
    return out


def gen_circuit(rng, cls, max_w, depth, dom=None):
    qc, _ = lib()
    if dom is None:
        k = rng.choice([0, 0, 1, 1, 2]) if max_w > 1 else rng.choice([0, 1])
        dom = some_type(rng, k, {"pure": "q", "pure_tp": "q", "classical": "b",
                                 "classical_tp": "b"}.get(cls, "bq"))
    c = qc.Id(dom)
    for step in range(depth):
        for _ in range(6):
            cands = candidates(rng, cls, step)
            rng.shuffle(cands)
            placed = False
            for box in cands:
                n = len(box.dom)
                w = len(c.cod)
                if w - n + len(box.cod) > max_w:
                    continue
                offs = [o for o in range(w - n + 1) if c.cod[o:o + n] == box.dom]
                if not offs:
                    continue
                off = rng.choice(offs)
                c = c >> qc.Id(c.cod[:off]) @ box @ qc.Id(c.cod[off + n:])
                placed = True
                break
            if placed:
                break
    return c


# ------------------------------------------------------------------ descriptions

def box_tag(box):
    qc, g = lib()
    if isinstance(box, qc.Measure):
        return "Measure(d=%d,o=%d)" % (box.destructive, box.override_bits)
    if isinstance(box, qc.Encode):
        return "Encode(c=%d,r=%d)" % (box.constructive, box.reset_bits)
    if isinstance(box, g.Sqrt):
        return "Sqrt"
    for cls in (qc.Discard, qc.MixedState, qc.Swap, g.Copy, g.Match, g.Bits, g.Ket, g.Bra,
                g.Scalar, g.Rotation, g.ClassicalGate, g.QuantumGate):
        if isinstance(box, cls):
            extra = ""
            if cls is g.Scalar:
                extra = "(mixed)" if box.is_mixed else "(pure)"
            if cls in (g.ClassicalGate, g.QuantumGate, g.Bits) and box.is_dagger:
                extra = ".dagger"
            if cls is g.ClassicalGate and not len(box.dom) and not len(box.cod):
                extra += "(weight)"
            return cls.__name__ + extra
    return "Channel"


def describe(c):
    return dict(dom=str(c.dom), cod=str(c.cod),
                layers=["%s@%d" % (repr(b), o) for b, o in zip(c.boxes, c.offsets)])


def has_f3_box(c):
    qc, _ = lib()
    return any((isinstance(b, qc.Measure) and b.override_bits)
               or (isinstance(b, qc.Encode) and b.reset_bits) for b in c.boxes)


def bad_encode(b):
    """An Encode whose declared dom/cod are not those of the adjoint of its Measure."""
    qc, _ = lib()
    if not isinstance(b, qc.Encode):
        return False
    m = b.dagger()
    return b.dom != m.cod or b.cod != m.dom


def is_f3(exc, c):
    return isinstance(exc, AttributeError) and "'Dim' object has no attribute 'classical'" in str(exc) \
        and has_f3_box(c)


def close(a, b):
    a, b = np.asarray(a, dtype=complex).reshape(-1), np.asarray(b, dtype=complex).reshape(-1)
    if a.shape != b.shape:
        return False
    scale = max(1.0, float(np.max(np.abs(a))) if a.size else 1.0)
    return bool(np.all(np.abs(a - b) <= TOL * scale))


def guarded(rep, c, what, fn):
    """Run fn on the real code; report crashes (F3 under its own narrow signature)."""
    try:
        return fn(), None
    except Exception as exc:  # noqa
        if is_f3(exc, c):
            rep.fail(F3_SIG, describe(c), "%s raises AttributeError: %s" % (what, exc))
            return None, "f3"
        return None, exc


# ------------------------------------------------------------------ oracle pieces

def doubled_of_pure(t):
    """the doubled map of a pure evaluation (Tensor): layout [q.., q'.., p.., p'..]."""
    nin, nout = len(t.dom), len(t.cod)
    rows = int(np.prod([d for d in t.dom] or [1]))
    cols = int(np.prod([d for d in t.cod] or [1]))
    u = np.asarray(t.array, dtype=complex).reshape(rows, cols)
    return np.transpose(np.multiply.outer(np.conjugate(u), u), (0, 2, 1, 3)).reshape(-1)


def cq_dagger_array(m):
    """conjugate transpose of a CQMap's array (exchange the dom and cod axes)."""
    nd = len(m.dom.classical) + 2 * len(m.dom.quantum)
    arr = np.asarray(m.array, dtype=complex)
    if arr.ndim != nd + len(m.cod.classical) + 2 * len(m.cod.quantum):
        return np.conjugate(arr).reshape(-1)               # scalars: shape (1,)
    order = list(range(nd, arr.ndim)) + list(range(nd))
    return np.conjugate(np.transpose(arr, order)).reshape(-1)


def distribution_of(m, measure_qubits=False):
    """The outcome distribution read off eval(mixed=True): zeros prepared on every input; the
    quantum outputs traced out (what get_counts() and measure(mixed=True) report: a distribution
    over the output bits) or, with measure_qubits, read on their diagonal (what measure() reports
    for a circuit without bits: the Born distribution of the output qubits)."""
    return distribution_from(m.array, len(m.dom.classical), len(m.dom.quantum),
                             len(m.cod.classical), len(m.cod.quantum), measure_qubits)


def distribution_from(arr, ndc, ndq, ncc, ncq, measure_qubits=False):
    """The same from a raw array in the layout [c.., q.., q'.. | c'.., p.., p'..] over wires of
    dimension 2 (ndc / ndq classical / quantum inputs, ncc / ncq outputs)."""
    arr = np.asarray(arr, dtype=complex)
    if arr.ndim != ndc + 2 * ndq + ncc + 2 * ncq:
        arr = arr.reshape([2] * (ndc + 2 * ndq + ncc + 2 * ncq))
    arr = arr[(0,) * (ndc + 2 * ndq)]                        # prepare zeros on every input
    if ncq:
        lab = list(range(ncc)) + list(range(ncc, ncc + ncq)) * 2
        arr = np.einsum(arr, lab, list(range(ncc + ncq if measure_qubits else ncc)))
    return arr


def expect_mixed(c):
    """The documented meaning of Circuit.is_mixed, recomputed from the public fields: bits and
    qubits both present in the domain or in the codomain of some layer, or a mixed box."""
    qc, _ = lib()

    def both(ty):
        return qc.bit.objects[0] in ty.objects and qc.qubit.objects[0] in ty.objects
    scan, types = c.dom, [c.dom]
    for box, off in zip(c.boxes, c.offsets):
        scan = scan[:off] @ box.cod @ scan[off + len(box.dom):]
        types.append(scan)
    return any(both(t) for t in types) or any(bool(b.is_mixed) for b in c.boxes)


def cq_dims(ty):
    """(classical dimensions, quantum dimensions) of a circuit type, each in wire order."""
    return ([int(x.dim) for x in ty.objects if cqsem.is_bit(x)],
            [int(x.dim) for x in ty.objects if not cqsem.is_bit(x)])


def cq_type_ok(m, c):
    from discopy.quantum.cqmap import CQMap
    if not isinstance(m, CQMap):
        return False
    got = ([int(d) for d in m.dom.classical], [int(d) for d in m.dom.quantum],
           [int(d) for d in m.cod.classical], [int(d) for d in m.cod.quantum])
    return got == cq_dims(c.dom) + cq_dims(c.cod)


def tp_class(c):
    """Only preparations, unitaries, measurements, discards, stochastic classical gates, swaps."""
    qc, g = lib()
    for b in c.boxes:
        if isinstance(b, (qc.Measure, qc.Discard, qc.Swap, g.Ket, g.Copy)):
            continue
        if isinstance(b, g.Bits) and not b.is_dagger:
            continue
        if isinstance(b, (g.QuantumGate, g.Rotation)):
            continue
        if is_unit_scalar(b):                                # a global phase: a unitary on no qubit
            continue
        if isinstance(b, g.ClassicalGate) and not b.is_dagger and b.name[:2] in ("st", "fn"):
            continue
        return False
    return True


def classical_only(c):
    """not is_mixed although some wire is a bit: a circuit of bits and classical gates."""
    return not c.is_mixed and (
        any(cqsem.is_bit(x) for x in (c.dom @ c.cod).objects)
        or any(cqsem.is_bit(x) for b in c.boxes for x in (b.dom @ b.cod).objects))


def is_distribution(p):
    return bool(np.all(np.abs(p.imag) <= TOL) and np.all(p.real >= -TOL)
                and abs(float(np.sum(p.real)) - 1.0) <= 1e-9)


def counts_take_plain_path(c, got):
    """The shape of finding F5k: the circuit get_counts() evaluates (zeros prepared, qubits
    discarded) is not mixed, so `eval()` contracts it as a plain tensor — amplitudes of its pure
    scalars / closed quantum parts enter the "counts" as they are instead of doubled — and the
    counts returned are exactly the real parts of that plain tensor."""
    qc, g = lib()
    try:
        full = c.init_and_discard()
        if full.is_mixed or not any(
                (isinstance(b, g.Scalar) and not b.is_mixed) or
                any(not cqsem.is_bit(x) for x in (b.dom @ b.cod).objects) for b in full.boxes):
            return False
        plain = np.asarray(full.eval(mixed=False).array, dtype=complex)
        return close(got, plain.real)
    except Exception:  # noqa
        return False


def check_tp(rep, c, m, case, obs):
    """Clause (c).  `obs` caches what the real code returned (also used for the model)."""
    p = distribution_of(m)
    if not is_distribution(p):
        rep.fail("not_trace_preserving", case,
                 "distribution read off eval sums to %r" % complex(np.sum(p)))
        return
    nbits = p.ndim if p.shape != (1,) else 0
    counts, why = guarded(rep, c, "get_counts()", lambda: c.get_counts())
    obs["counts"] = (counts, why)
    if why is None:
        got = np.zeros(p.shape if nbits else (1,), dtype=complex)
        for bits_, v in counts.items():
            got[tuple(bits_) if nbits else 0] = np.asarray(v).reshape(-1)[0]
        if not close(got, p):
            sig = "get_counts_differs"
            if counts_take_plain_path(c, got):
                sig = F5K_SIG
                obs["f5k"] = True
            rep.fail(sig, case, "get_counts() = %r, eval gives %r" % (
                {k: complex(np.asarray(v).reshape(-1)[0]) for k, v in counts.items()},
                p.reshape(-1).tolist()))
    elif why != "f3":
        rep.fail("get_counts_raises:" + err_class(why), case, repr(why))
    mixed_circuit = bool(c.is_mixed)
    # measure(): a mixed circuit reports the distribution of its output bits; a circuit of qubits
    # only reports the Born distribution of its output qubits; measure(mixed=True) always the former
    for mixed in ((False,) if mixed_circuit else (False, True)):
        expect = p if (mixed or mixed_circuit or classical_only(c)) \
            else distribution_of(m, measure_qubits=True)
        res, why = guarded(rep, c, "measure(mixed=%s)" % mixed, lambda: c.measure(mixed=mixed))
        obs["measure%d" % mixed] = (res, why)
        if why is None:
            if not close(res, expect):
                sig = "measure_differs"
                if not mixed and classical_only(c):
                    sig = F21_SIG
                    obs["f21"] = True
                rep.fail(sig, case, "measure(mixed=%s) = %r, eval gives %r" % (
                    mixed, np.asarray(res).reshape(-1).tolist(),
                    expect.reshape(-1).real.tolist()))
        elif why != "f3":
            sig = "measure_raises:" + err_class(why)
            if not mixed and classical_only(c):
                sig = F21_SIG
                obs["f21"] = True
            rep.fail(sig, case, "measure(mixed=%s) raises %r" % (mixed, why))


def compare_counts(real, model):
    """real: {index: value} from get_counts(); model: 'ok n (index value)*' (non-zero entries)."""
    shown = "ok " + " ".join("%d:%r" % kv for kv in sorted(real.items()))
    toks = model.split(" ")
    if toks[0] != "ok":
        return "differ", shown
    n = int(toks[1])
    got = {int(toks[2 + 2 * k]): cqsem.d8_to_complex(cqsem.parse_d8(toks[3 + 2 * k])) for k in range(n)}
    exact = []
    for k, v in sorted(real.items()):
        r = cqsem.recognise(v)
        if r is None:
            exact = None
            break
        if r[:4] != (0, 0, 0, 0):
            exact.append("%d %s" % (k, cqsem.tok_d8(r)))
    if exact is not None and "ok " + " ".join([str(len(exact))] + exact) == model:
        return "exact", shown
    keys = set(real) | set(got)
    ok = all(abs(real.get(k, 0) - got.get(k, 0)) <= TOL for k in keys)
    return ("numeric" if ok else "differ"), shown


# ------------------------------------------------------------------ one circuit

def check_adjoint(rep, c, m, case, tags, double=True):
    """circuit.dagger() evaluates (mixed) to the conjugate transpose of m = circuit.eval(mixed=True);
    for circuits with scalar boxes also the double dagger evaluates to m again."""
    qc, g = lib()
    if any(bad_encode(b.dagger()) for b in c.boxes if isinstance(b, qc.Measure)):
        rep.fail(F22_SIG, case, "a Measure of the circuit has a dagger whose dom/cod are not "
                 "its cod/dom, so circuit.dagger() is ill-typed")
        return
    md, why = guarded(rep, c, "dagger().eval(mixed=True)", lambda: c.dagger().eval(mixed=True))
    if why is not None:
        if why != "f3":
            rep.fail("eval_raises:" + err_class(why), case, "dagger: " + repr(why))
        return
    rep.count("clause_adjoint_checked")
    scalars = [b for b in c.boxes if isinstance(b, g.Scalar)]
    for b in scalars:
        rep.count("adjoint_scalar:%s:%s" % (scalar_form(b), data_region(b.data)))
    want = cq_dagger_array(m)
    if not close(md.array, want):
        rep.fail("dagger_not_adjoint:" + "+".join(tags), case,
                 "circuit.dagger().eval(mixed=True) = %s is not the conjugate transpose %s of "
                 "circuit.eval(mixed=True)" % (
                     np.round(np.asarray(md.array).reshape(-1), 6).tolist()[:16],
                     np.round(want, 6).tolist()[:16]))
        return
    if scalars and double:
        mdd, why = guarded(rep, c, "dagger().dagger().eval(mixed=True)",
                           lambda: c.dagger().dagger().eval(mixed=True))
        if why is not None:
            if why != "f3":
                rep.fail("eval_raises:" + err_class(why), case, "double dagger: " + repr(why))
            return
        rep.count("clause_double_dagger_checked")
        if not close(mdd.array, m.array):
            rep.fail("double_dagger_not_identity:" + "+".join(tags), case,
                     "circuit.dagger().dagger().eval(mixed=True) = %s, circuit.eval(mixed=True) = %s" % (
                         np.round(np.asarray(mdd.array).reshape(-1), 6).tolist()[:16],
                         np.round(np.asarray(m.array).reshape(-1), 6).tolist()[:16]))


def check_circuit(rep, drv, c, cls, model_budget, rng, adjoint=True):
    qc, g = lib()
    case = describe(c)
    tags = sorted({box_tag(b) for b in c.boxes})
    for t in tags:
        rep.count("box:" + t)
    rep.count("class:" + cls)
    for b in c.boxes:
        if isinstance(b, g.Scalar):
            rep.count("scalar_box:%s:%s" % (scalar_form(b), data_region(b.data)))
    rep.count("width:%d" % max([len(c.dom)] + [len(left) + len(box.cod) + len(right)
                                                for left, box, right in c.layers]))
    rep.count("boxes:%d" % len(c.boxes))
    key = repr((str(c.dom), [(repr(b), o) for b, o in zip(c.boxes, c.offsets)]))
    rep.case(key, len(c.boxes) >= 2 and len(tags) >= 2)
    if any(bad_encode(b) for b in c.boxes):
        rep.count("f22_box")
        rep.fail(F22_SIG, case, "the circuit contains an Encode whose dom/cod are not the cod/dom "
                 "of the Measure it is the dagger of; its evaluation cannot be well-typed")
        return
    m, why = guarded(rep, c, "eval(mixed=True)", lambda: c.eval(mixed=True))
    if why is not None:
        if why != "f3":
            rep.fail("eval_raises:" + err_class(why), case, repr(why))
        else:
            rep.count("f3_crash")
        return
    obs = {}
    # --- the result is a classical-quantum map between the types of the circuit: one classical
    #     dimension per bit, one (doubled) quantum dimension per qubit
    if not cq_type_ok(m, c):
        rep.fail("mixed_eval_has_wrong_type", case,
                 "eval(mixed=True) of a circuit %s -> %s is %s" % (c.dom, c.cod, show_value(m)))
    # --- independent semantics of every box kind and placement
    try:
        expect, _ = Sem().run(c)
        rep.count("semantics_checked")
        if not close(m.array, expect):
            rep.fail("mixed_eval_differs_from_semantics:" + "+".join(tags), case,
                     "eval(mixed=True) = %s, wire-by-wire semantics gives %s" % (
                         np.round(np.asarray(m.array).reshape(-1), 6).tolist()[:32],
                         np.round(expect.reshape(-1), 6).tolist()[:32]))
    except NotImplementedError:
        rep.count("sem_skipped")
    # --- which evaluation eval() chooses (circuit.py:163-173, 251-253): a circuit in which bits
    #     and qubits sit side by side somewhere (domain or the codomain of any layer, the last one
    #     included) or that has a mixed box is mixed, and eval() must then be the CQ map
    mixed_circuit = bool(c.is_mixed)
    should_be_mixed = expect_mixed(c)
    rep.count("is_mixed:%s" % should_be_mixed)
    if mixed_circuit != should_be_mixed:
        rep.fail("is_mixed_wrong", case, "is_mixed = %s, but %s" % (
            mixed_circuit, "bits and qubits meet / a box is mixed" if should_be_mixed
            else "no layer has both bits and qubits and no box is mixed"))
    if should_be_mixed and not mixed_circuit:
        plain, why = guarded(rep, c, "eval()", lambda: c.eval())
        from discopy.quantum.cqmap import CQMap
        if why is None and not (isinstance(plain, CQMap) and close(plain.array, m.array)):
            rep.fail("auto_eval_of_mixed_circuit_is_not_the_cq_map", case,
                     "eval() returns a %s with array %s; eval(mixed=True) gives %s" % (
                         type(plain).__name__,
                         np.round(np.asarray(plain.array).reshape(-1), 6).tolist()[:16],
                         np.round(np.asarray(m.array).reshape(-1), 6).tolist()[:16]))
    # --- clause (a): pure circuits
    pure = (not mixed_circuit) and not any(cqsem.is_bit(x) for x in (c.dom @ c.cod).objects) \
        and not any(cqsem.is_classical_gate(b) for b in c.boxes)
    auto = m
    if not mixed_circuit:
        auto, why = guarded(rep, c, "eval()", lambda: c.eval())
        if why is not None:
            rep.fail("eval_raises:" + err_class(why), case, "eval(): " + repr(why))
            return
    if not mixed_circuit and not should_be_mixed and c.boxes \
            and all(cqsem.is_classical_gate(b) or isinstance(b, qc.Swap) for b in c.boxes) \
            and all(cqsem.is_bit(x) for b in c.boxes for x in (b.dom @ b.cod).objects) \
            and all(cqsem.is_bit(x) for x in c.dom.objects):
        # a circuit of classical gates only: nothing is doubled, the CQ map is the plain tensor
        rep.count("clause_classical_plain_checked")
        if not close(m.array, auto.array):
            rep.fail("classical_mixed_differs_from_plain", case,
                     "eval(mixed=True) = %s but eval() = %s" % (
                         np.round(np.asarray(m.array).reshape(-1), 6).tolist()[:16],
                         np.round(np.asarray(auto.array).reshape(-1), 6).tolist()[:16]))
    if pure:
        rep.count("clause_a_checked")
        if not close(m.array, doubled_of_pure(auto)):
            rep.fail("pure_mixed_not_doubled", case,
                     "eval(mixed=True) is not conj(U) (x) U of eval(mixed=False)")
    # --- adjoints: the dagger of a circuit evaluates to the adjoint (Encode / MixedState and
    #     their daggers included; scalars pure and mixed: a mixed scalar is the weight z itself, its
    #     adjoint the weight conj(z) — not |z|^2).
    if adjoint is True:
        adjoint = rng.random() < 0.6
    if adjoint and not any(box_tag(b) == "Channel" for b in c.boxes):
        check_adjoint(rep, c, m, case, tags, double=(adjoint == "always" or len(c.boxes) <= 3))
    # --- clause (c): trace preservation and the distributions
    tp = tp_class(c)
    if tp:
        rep.count("clause_tp_checked")
        check_tp(rep, c, m, case, obs)
    # --- correspondence with the Lean model (exact, through Z[zeta_8][1/2])
    line, why = cqsem.tok_circuit(c)
    if line is None:
        rep.count("model_skipped:" + why)
        return m
    if cqsem.model_cost(c) > model_budget:
        rep.count("model_skipped:cost")
        return m
    rep.count("model_compared")
    asks = ["cqeval mixed " + line, "cqeval auto " + line, "cqismixed " + line]
    reals = [cqsem.ans_cq_value(m), cqsem.ans_cq_value(auto), "ok %d" % (1 if mixed_circuit else 0)]
    if pure:
        asks.append("cqdouble " + line)
        reals.append(reals[0])                               # clause (a) inside the model
    if not any(bool(b.is_mixed) and not isinstance(b, qc.Swap) for b in c.boxes):
        # no mixed box: the classical part (plain) times the doubled quantum part, as the model
        # computes it from the two pure evaluations (theorem eval_mixed_flag)
        asks.append("cqsplit " + line)
        reals.append(reals[0])
    if tp and "counts" in obs:
        def counts_answer(counts):
            # dense over the bitstring index: absent = 0 (get_counts lists the non-zero entries)
            from discopy.quantum.circuit import bitstring2index
            return {bitstring2index(bits_): complex(np.asarray(v).reshape(-1)[0])
                    for bits_, v in counts.items()}

        def observed(pair, ser):
            val, why = pair
            if why is None:
                return ser(val)
            return None if why == "f3" else "err " + err_class(why)
        if obs.get("f5k"):
            # finding F5k was just reported for this circuit by the oracle; the model transcribes
            # the repaired get_counts(), comparing would only repeat the finding
            rep.count("model_skipped:f5k_reported")
        else:
            asks.append("cqcounts " + line)
            reals.append(observed(obs["counts"], counts_answer))
        for flag in (0, 1):
            if flag == 0 and obs.get("f21"):
                # finding F21 was just reported for this circuit by the oracle; the model
                # transcribes the repaired measure(), comparing would only repeat the finding
                rep.count("model_skipped:f21_reported")
                continue
            if "measure%d" % flag in obs:
                asks.append("cqmeasure %d %s" % (flag, line))
                reals.append(observed(obs["measure%d" % flag], lambda v: cqsem.Ans("ok", v)))
    answers = [drv.ask(a) for a in asks]
    for ask, real, model in zip(asks, reals, answers):
        if real is None:
            rep.count("model_skipped:real_crashed_f3")
            continue
        head = ask.split(" ")
        stream = head[0] + (":" + head[1] if head[0] in ("cqeval", "cqmeasure") else "")
        if isinstance(real, dict):
            verdict, shown = compare_counts(real, model)
        else:
            verdict = cqsem.compare_answer(real, model)
            shown = real if isinstance(real, str) else (real.tokens() or real.header + " <floats> "
                                                        + str(real.entries.tolist()[:16]))
        rep.count("model_answers:%s:%s" % (stream, verdict))
        if verdict == "differ":
            rep.disagree(stream, dict(case, request=ask[:400]), shown[:400], model[:400])
    rep.sample(dict(cls=cls, circuit=case, request=asks[0][:200], answer=answers[0][:160]))
    return m


def variant_circuits(rng):
    """Every Measure / Encode variant (n = 1, 2) behind random preparations, next to a spectator
    wire on either side, optionally followed by a discard: all placements of the property."""
    qc, g = lib()

    def prep(ty):
        c = qc.Id(qc.Ty())
        for x in ty.objects:
            if cqsem.is_bit(x):
                one = g.Bits(rng.randrange(2))
                if rng.random() < 0.4:
                    one = one >> stochastic_gate_11(rng)
            else:
                one = g.Ket(rng.randrange(2))
                if rng.random() < 0.7:
                    one = one >> rng.choice([g.H, g.X, g.S, g.Rx(0.25), g.Ry(0.75), g.H >> g.S])
            c = c @ one
        return c
    for n in (1, 2):
        for a in (True, False):
            for b in (False, True):
                for box in (qc.Measure(n, a, b), qc.Encode(n, a, b)):
                    if bad_encode(box):
                        yield qc.Id(box.dom) >> box
                        continue
                    spect = some_type(rng, rng.choice([0, 1, 1]))
                    left = rng.random() < 0.5
                    dom = (spect @ box.dom) if left else (box.dom @ spect)
                    c = prep(dom)
                    if n == 2 and rng.random() < 0.5 and not any(
                            cqsem.is_bit(x) for x in box.dom.objects[:2]):
                        k = len(spect) if left else 0
                        c = c >> qc.Id(dom[:k]) @ g.CX @ qc.Id(dom[k + 2:])
                    c = c >> ((qc.Id(spect) @ box) if left else (box @ qc.Id(spect)))
                    if len(c.cod) and rng.random() < 0.4:
                        k = rng.randrange(len(c.cod))
                        c = c >> qc.Id(c.cod[:k]) @ qc.Discard(c.cod[k:k + 1]) @ qc.Id(c.cod[k + 1:])
                    yield c


def stochastic_gate_11(rng):
    _, g = lib()
    return g.ClassicalGate("st0", 1, 1, dyadic_row(rng, 2) + dyadic_row(rng, 2))


def late_mix_circuits(rng, n):
    """Circuits without any mixed box in which bits and qubits meet in ONE place only: on the
    codomain of the last layer, or on the domain."""
    qc, g = lib()
    out = []
    for k in range(n):
        kind = k % 4
        if kind in (0, 1):
            # pure part on qubits, then a classical state tensored in by the very last layer
            base_cls, last = "pure", rng.choice([
                g.Bits(rng.randrange(2)), g.Bits(rng.randrange(2), rng.randrange(2)),
                g.ClassicalGate("coin", 0, 1, dyadic_row(rng, 2))])
            if kind == 1:
                base_cls, last = "classical", g.Ket(*[rng.randrange(2)
                                                      for _ in range(rng.choice([1, 2]))])
            while True:
                c = gen_circuit(rng, base_cls, rng.choice([1, 2, 2]), rng.randint(1, 5),
                                dom=qc.Ty() if rng.random() < 0.6 else None)
                if len(c.cod) and len(c.boxes):
                    break
            off = rng.randrange(len(c.cod) + 1)
            out.append(c >> qc.Id(c.cod[:off]) @ last @ qc.Id(c.cod[off:]))
        elif kind == 2:
            # the shortest ones: a ket next to bits, one tensor
            ket = g.Ket(*[rng.randrange(2) for _ in range(rng.choice([1, 2]))])
            bits = g.Bits(*[rng.randrange(2) for _ in range(rng.choice([1, 2]))])
            if rng.random() < 0.5:
                ket = ket >> rng.choice([g.H, g.X, g.Rx(0.25)]) @ qc.Id(len(ket.cod) - 1)
            out.append(ket @ bits if rng.random() < 0.5 else bits @ ket)
        else:
            # bits and qubits side by side on the domain only: the first box removes the qubit
            nb = rng.choice([1, 2])
            pos = rng.randrange(nb + 1)
            dom = qc.bit ** pos @ qc.qubit @ qc.bit ** (nb - pos)
            c = qc.Id(dom) >> qc.Id(qc.bit ** pos) @ g.Bra(rng.randrange(2)) @ qc.Id(qc.bit ** (nb - pos))
            tail = gen_circuit(rng, "classical", 3, rng.randint(0, 3), dom=c.cod)
            out.append(c >> tail)
    return out


def weight_stream(rep, drv, rng, n, budget):
    """Weighting by a classical gate without wires is linear: eval(mixed=True) of the weighted
    circuit is the weight times that of the circuit — wherever the weight box is placed."""
    qc, g = lib()
    for k in range(n):
        cls = ["tp", "general", "classical", "tp"][k % 4]
        while True:
            c = gen_circuit(rng, cls, rng.choice([1, 2, 2, 3]), rng.randint(1, 5))
            if c.boxes and not any(bad_encode(b) for b in c.boxes):
                break
        w = weight_gate(rng, 9, exact=rng.random() < 0.85)
        value = complex(np.asarray(w.array).reshape(-1)[0])
        where = rng.randrange(3)
        if where == 0:
            wc = w @ c
        elif where == 1:
            wc = c @ w
        else:
            j = rng.randrange(len(c.boxes) + 1)
            mid = c[:j].cod
            off = rng.randrange(len(mid) + 1)
            wc = c[:j] >> qc.Id(mid[:off]) @ w @ qc.Id(mid[off:]) >> c[j:]
        case = dict(describe(wc), weight=value)
        rep.count("weight_cases")
        m, why = guarded(rep, c, "eval(mixed=True)", lambda: c.eval(mixed=True))
        mw, why2 = guarded(rep, wc, "eval(mixed=True)", lambda: wc.eval(mixed=True))
        if why is None and why2 is None:
            if not close(mw.array, value * np.asarray(m.array, dtype=complex)):
                rep.fail("classical_weight_not_linear", case,
                         "eval(mixed=True) of the weighted circuit = %s, %r times the circuit's = %s" % (
                             np.round(np.asarray(mw.array).reshape(-1), 6).tolist()[:16], value,
                             np.round(value * np.asarray(m.array).reshape(-1), 6).tolist()[:16]))
        else:
            for x in (why, why2):
                if x not in (None, "f3"):
                    rep.fail("eval_raises:" + err_class(x), case, repr(x))
            continue
        check_circuit(rep, drv, wc, "weighted", budget, rng)


def endo_circuit(rng, n, mixed):
    """A random circuit qubit^n -> qubit^n: gates (and a pure scalar); if `mixed`, one
    type-preserving mixed piece (discard and re-prepare, measure and encode, a mixed scalar)."""
    qc, g = lib()
    c = qc.Id(n)
    pieces = []
    for _ in range(rng.randint(1 if n else 0, 3)):
        if n >= 2 and rng.random() < 0.3:
            pieces.append(rng.choice([g.CX, g.CZ, g.SWAP]))
        elif n >= 1:
            k = rng.randrange(8)
            pieces.append(rng.choice([g.H, g.X, g.Y, g.Z, g.S, g.T, g.S.dagger(),
                                      g.Rx(k / 4), g.Rz(k / 4), g.Ry(rng.random())]))
    if rng.random() < 0.4 or (n == 0 and not mixed):
        pieces.append(g.scalar(rng.choice([0.5, 1j, -1, 1 + 1j, 0.5 - 0.5j])))
    if n == 0 and rng.random() < 0.5:
        pieces.append(g.Ket(rng.randrange(2)) >> g.Bra(rng.randrange(2)))
    if mixed:
        opts = [g.scalar(rng.choice([0.5, 2, 0.25 + 0.25j]), is_mixed=True)]
        if n >= 1:
            opts += [qc.Discard() >> qc.MixedState(), qc.Measure() >> qc.Encode(),
                     qc.Measure(destructive=False) >> qc.Id(1) @ qc.Discard(qc.bit),
                     qc.Discard() >> g.Ket(rng.randrange(2))]
        else:
            opts += [g.Ket(rng.randrange(2)) >> qc.Discard(), qc.MixedState() >> qc.Discard()]
        pieces.insert(rng.randrange(len(pieces) + 1), rng.choice(opts))
    for piece in pieces:
        w = len(piece.dom)
        off = rng.randrange(n - w + 1)
        c = c >> qc.Id(off) @ piece @ qc.Id(n - w - off)
    return c


def same_value(x, y):
    """Two evaluation results (Tensor / CQMap): same class, same type, same entries."""
    return type(x) is type(y) and str(x.dom) == str(y.dom) and str(x.cod) == str(y.cod) \
        and close(x.array, y.array)


def show_value(x):
    return "%s %s -> %s %s" % (type(x).__name__, getattr(x, "dom", "?"), getattr(x, "cod", "?"),
                                np.round(np.asarray(getattr(x, "array", x)).reshape(-1), 5).tolist()[:12])


def batch_sum_stream(rep, rng, n_cases):
    """Batch evaluation `c0.eval(c1, ..., mixed=...)` is the list of the single evaluations, and
    a formal sum evaluates to the sum of the evaluations of its terms: CQ maps as soon as
    mixed=True is asked or one term is mixed (a mixture: the sum of the doubled maps, not the
    doubled map of the sum of amplitudes), plain tensors for pure terms otherwise."""
    qc, g = lib()
    from discopy.quantum.cqmap import CQMap
    for k in range(n_cases):
        # ---- batch evaluation of unrelated circuits, pure and mixed ones together
        kinds = [rng.choice(["pure", "pure", "tp", "general", "classical"])
                 for _ in range(rng.choice([2, 2, 3]))]
        if k % 2 == 0:
            kinds[rng.randrange(len(kinds))] = "pure"
        cs = []
        for kind in kinds:
            while True:
                c = gen_circuit(rng, kind, rng.choice([1, 2, 2]), rng.randint(1, 4))
                if not any(bad_encode(b) for b in c.boxes):
                    break
            cs.append(c)
        for flag in (True, False):
            case = dict(batch=[describe(c) for c in cs], mixed=flag)
            rep.case("batch:" + repr(case), True)
            rep.count("batch_eval:mixed=%s" % flag)
            try:
                singles = [c.eval(mixed=flag) for c in cs]
            except Exception as exc:  # noqa
                rep.fail("eval_raises:" + err_class(exc), case, repr(exc))
                continue
            try:
                batch = cs[0].eval(*cs[1:], mixed=flag)
            except Exception as exc:  # noqa
                rep.fail("batch_eval_raises:" + err_class(exc), case, repr(exc))
                continue
            if not (isinstance(batch, list) and len(batch) == len(singles)
                    and all(same_value(x, y) for x, y in zip(batch, singles))):
                rep.fail("batch_eval_differs_from_single:mixed=%s" % flag, case,
                         "c0.eval(c1, ..., mixed=%s) = %s; one by one: %s" % (
                             flag, [show_value(x) for x in batch] if isinstance(batch, list)
                             else show_value(batch), [show_value(x) for x in singles]))
        # ---- formal sums of circuits of equal type
        n = rng.choice([0, 1, 1, 2])
        shape = ["pure", "mixed", "both"][k % 3]
        m = rng.choice([2, 2, 3])
        flags = {"pure": [False] * m, "mixed": [True] * m,
                 "both": [True] + [False] * (m - 1)}[shape]
        rng.shuffle(flags)
        terms = [endo_circuit(rng, n, f) for f in flags]
        total = terms[0]
        for t in terms[1:]:
            total = total + t
        case = dict(sum=[describe(t) for t in terms], shape=shape)
        rep.case("sum:" + repr(case), True)
        rep.count("sum_eval:" + shape)
        try:
            cq = [t.eval(mixed=True) for t in terms]
            plain = [t.eval() for t in terms]
        except Exception as exc:  # noqa
            rep.fail("eval_raises:" + err_class(exc), case, repr(exc))
            continue
        any_mixed = any(bool(t.is_mixed) for t in terms)
        if shape == "pure" and not any_mixed:
            # clause (a) on every term, so that the sum below is the sum of the doubled maps
            for t, x, y in zip(terms, cq, plain):
                if not close(x.array, doubled_of_pure(y)):
                    rep.fail("pure_mixed_not_doubled", describe(t),
                             "eval(mixed=True) is not conj(U) (x) U of eval(mixed=False)")
        expect_cq = sum(np.asarray(x.array, dtype=complex) for x in cq)
        for flag in (True, False):
            try:
                got = total.eval(mixed=flag)
            except Exception as exc:  # noqa
                rep.fail("sum_eval_raises:%s:%s" % (err_class(exc), shape), dict(case, mixed=flag),
                         "(a + b).eval(mixed=%s) raises %r" % (flag, exc))
                continue
            if flag or any_mixed:
                ok = isinstance(got, CQMap) and str(got.dom) == str(cq[0].dom) \
                    and str(got.cod) == str(cq[0].cod) and close(got.array, expect_cq)
                want = "the sum of the classical-quantum maps of the terms %s" % (
                    np.round(expect_cq.reshape(-1), 5).tolist()[:12],)
            else:
                expect = sum(np.asarray(y.array, dtype=complex) for y in plain)
                ok = not isinstance(got, CQMap) and type(got) is type(plain[0]) \
                    and str(got.dom) == str(plain[0].dom) and str(got.cod) == str(plain[0].cod) \
                    and close(got.array, expect)
                want = "the sum of the pure evaluations %s" % (
                    np.round(expect.reshape(-1), 5).tolist()[:12],)
            if not ok:
                rep.fail("sum_eval_is_not_the_sum:%s:mixed=%s" % (shape, flag), dict(case, mixed=flag),
                         "(a + b).eval(mixed=%s) = %s, expected %s" % (flag, show_value(got), want))


# ------------------------------------------------------------------ juxtapositions: classical next to quantum

def close_bits(rng, c, tp):
    """Close every open (bit) wire of a classical circuit: marginals (stochastic: all ones), bit
    effects (daggered Bits), arbitrary effects."""
    qc, g = lib()
    while len(c.cod):
        n = rng.choice([1, 1, 2]) if len(c.cod) >= 2 else 1
        off = rng.randrange(len(c.cod) - n + 1)
        r = rng.random()
        if tp or r < 0.4:
            eff = g.ClassicalGate("st_marginal", n, 0, [1] * 2 ** n)
        elif r < 0.75:
            eff = g.Bits(*[rng.randrange(2) for _ in range(n)]).dagger()
        else:
            eff = g.ClassicalGate("gn_effect", n, 0,
                                  [rng.choice([0, 1, 1, 0.5, -1, 2, 0.25]) for _ in range(2 ** n)])
        c = c >> qc.Id(c.cod[:off]) @ eff @ qc.Id(c.cod[off + n:])
    return c


def classical_part(rng, tp, dom=None, closed=True):
    """A circuit of bits and non-mixed classical gates (Bits, stochastic / deterministic /
    arbitrary gates, Copy, Match, bit swaps, weights), from `dom` (default: no input), all of
    its outputs closed again if `closed`: a classical scalar."""
    qc, g = lib()
    dom = qc.Ty() if dom is None else dom
    while True:
        c = gen_circuit(rng, "classical_tp" if tp else "classical", rng.choice([1, 2, 2, 3]),
                        rng.randint(1, 4), dom=dom)
        if c.boxes and (closed or len(c.cod)):
            break
    return close_bits(rng, c, tp) if closed else c


def quantum_part(rng, tp, dom=None, closed=False, max_w=2):
    """A pure quantum circuit (Ket, gates, rotations; Bra and scalars unless tp); closed: every
    output post-selected by a Bra."""
    qc, g = lib()
    while True:
        c = gen_circuit(rng, "pure_tp" if tp else "pure", max_w, rng.randint(1, 5), dom=dom)
        if c.boxes and (closed or len(c.cod)):
            break
    if closed and len(c.cod):
        c = c >> g.Bra(*[rng.randrange(2) for _ in range(len(c.cod))])
    return c


JUXT_KINDS = ("coin@state", "state@coin", "segments", "insert", "open@open", "scalar@bits")


def juxt_case(rng, k):
    """A circuit without any mixed box made of a classical part and a quantum part that are put
    next to each other: (kind, circuit, classical parts, quantum parts), the parts of each sort
    in the order in which they compose."""
    qc, g = lib()
    kind = JUXT_KINDS[k % len(JUXT_KINDS)]
    tp = rng.random() < 0.4
    if kind in ("coin@state", "state@coin"):
        # a closed classical circuit (a bit prepared, processed, marginalised or tested) beside
        # a quantum circuit: bits and qubits never on the same layer in the first case
        a = classical_part(rng, tp)
        b = quantum_part(rng, tp, dom=None if rng.random() < 0.4 else qc.Ty())
        if kind == "coin@state" and rng.random() < 0.3:
            a = a @ classical_part(rng, tp)
        return kind, (a @ b if kind == "coin@state" else b @ a), [a], [b]
    if kind == "segments":
        # closed segments one after the other; the first may have inputs, the last outputs
        tp = False
        first_cl = rng.random() < 0.5
        n = rng.choice([2, 3, 3, 4])
        cl, qu, c = [], [], None
        for i in range(n):
            is_cl = (i % 2 == 0) == first_cl
            dom = None
            if i == 0 and rng.random() < 0.4:
                dom = some_type(rng, rng.choice([1, 2]), "b" if is_cl else "q")
            last_open = i == n - 1 and rng.random() < 0.5
            if is_cl:
                seg = classical_part(rng, tp, dom=dom, closed=not last_open)
            else:
                seg = quantum_part(rng, tp, dom=dom if dom is not None else qc.Ty(),
                                   closed=not last_open)
            (cl if is_cl else qu).append(seg)
            c = seg if c is None else c >> seg
        return kind, c, cl, qu
    if kind == "insert":
        # a closed classical circuit in the middle of a quantum one, at any offset
        a = classical_part(rng, tp)
        b = quantum_part(rng, tp, dom=None if rng.random() < 0.4 else qc.Ty())
        j = rng.randrange(len(b.boxes) + 1)
        mid = b[:j].cod
        off = rng.randrange(len(mid) + 1)
        c = b[:j] >> qc.Id(mid[:off]) @ a @ qc.Id(mid[off:]) >> b[j:]
        return kind, c, [a], [b]
    if kind == "open@open":
        # both parts with open wires: bits beside qubits without any mixed box
        a = classical_part(rng, tp, dom=None if rng.random() < 0.3 else qc.Ty(), closed=False)
        b = quantum_part(rng, tp, dom=None if rng.random() < 0.3 else qc.Ty(), max_w=2)
        return kind, (a @ b if rng.random() < 0.5 else b @ a), [a], [b]
    # scalar@bits: a post-selected (closed) quantum circuit beside an open classical circuit
    a = classical_part(rng, False, dom=None if rng.random() < 0.4 else qc.Ty(), closed=False)
    b = quantum_part(rng, False, dom=qc.Ty(), closed=True)
    return kind, (b @ a if rng.random() < 0.6 else a @ b), [a], [b]


def chain_matrix(parts):
    """The ordered product of the plain (mixed=False) evaluations of the parts, as a matrix
    between the flattened domain of the first and the flattened codomain of the last."""
    out = np.ones((1, 1), dtype=complex)
    first = True
    for part in parts:
        t = part.eval(mixed=False)
        rows = int(np.prod([int(d) for d in t.dom] or [1]))
        cols = int(np.prod([int(d) for d in t.cod] or [1]))
        mat = np.asarray(t.array, dtype=complex).reshape(rows, cols)
        out = mat if first else out @ mat
        first = False
    return out


def hybrid_array(a, u):
    """classical matrix a[c, c'] and amplitude matrix u[q, q'] -> the classical-quantum map
    a (x) conj(u) (x) u in the layout [c, q, p | c', q', p'] (conjugated copy first)."""
    return np.einsum("ab,cd,ef->acebdf", a, np.conjugate(u), u).reshape(-1)


MIXED_FLAGS = ((True, "True"), (False, "False"), ("default", "default"), (1, "1"), (None, "None"),
               (0, "0"))


def juxt_stream(rep, drv, rng, n_cases, budget):
    """Classical and quantum parts side by side in a circuit without mixed boxes.  The classical
    part is read as it is (a classical map: a diagonal classical-quantum map), the quantum part
    is doubled: eval(mixed=<truthy>) = a (x) conj(u) (x) u for the plain evaluations a, u of the
    parts — whatever is_mixed says; eval(mixed=<falsy>) is that map when the circuit is mixed
    and the plain tensor a (x) u otherwise; measure(mixed=...) reports the outcome weights read
    off that map (Born rule: squared magnitudes, weighted by the classical part)."""
    qc, g = lib()
    from discopy.quantum.cqmap import CQMap
    for k in range(n_cases):
        sub = random.Random(rng.getrandbits(64))
        try:
            kind, c, cl, qu = juxt_case(sub, k)
        except Exception as exc:  # noqa: composing discopy's own boxes must not fail
            rep.fail("construction_raises:" + err_class(exc), dict(juxtaposition=JUXT_KINDS[k % len(
                JUXT_KINDS)], case_number=k), "building the circuit raises %r" % exc)
            continue
        case = dict(describe(c), juxtaposition=kind,
                    classical_parts=[describe(x) for x in cl], quantum_parts=[describe(x) for x in qu])
        should_be_mixed = expect_mixed(c)
        has_digit = any(cqsem.is_bit(x) for x in (c.dom @ c.cod).objects) or any(
            cqsem.is_bit(x) for b in c.boxes for x in (b.dom @ b.cod).objects)
        has_qudit = any(not cqsem.is_bit(x) for x in (c.dom @ c.cod).objects) or any(
            not cqsem.is_bit(x) for b in c.boxes for x in (b.dom @ b.cod).objects)
        rep.count("juxt:" + kind)
        rep.count("juxt:%s" % ("mixed" if should_be_mixed else
                               "not_mixed_with_bits_and_qubits" if has_digit and has_qudit
                               else "not_mixed_one_sort"))
        first = check_circuit(rep, drv, c, "juxt", budget, sub, adjoint=(k % 7 == 0))
        try:
            a, u = chain_matrix(cl), chain_matrix(qu)
        except Exception as exc:  # noqa
            rep.fail("eval_raises:" + err_class(exc), case, "plain evaluation of a part: %r" % exc)
            continue
        expect = hybrid_array(a, u)
        plain = np.einsum("ab,cd->acbd", a, u).reshape(-1)
        for flag, name in (MIXED_FLAGS[0], MIXED_FLAGS[1 + k % 2], MIXED_FLAGS[3 + k % 3]):
            rep.count("juxt_eval:mixed=" + name)
            if flag is True and first is not None:
                got, why = first, None                       # evaluated by check_circuit just now
            else:
                got, why = guarded(rep, c, "eval(mixed=%s)" % name,
                                   (lambda: c.eval()) if flag == "default"
                                   else (lambda: c.eval(mixed=flag)))
            if why is not None:
                if why != "f3":
                    rep.fail("eval_raises:" + err_class(why), dict(case, mixed=name), repr(why))
                continue
            if (flag and flag != "default") or should_be_mixed:
                if not (cq_type_ok(got, c) and close(got.array, expect)):
                    rep.fail("juxtaposition_is_not_classical_times_doubled:mixed=" + name,
                             dict(case, mixed=name),
                             "eval(mixed=%s) = %s; the classical part a = %s next to the quantum "
                             "part u = %s must give a (x) conj(u) (x) u = %s" % (
                                 name, show_value(got), np.round(a.reshape(-1), 6).tolist()[:8],
                                 np.round(u.reshape(-1), 6).tolist()[:8],
                                 np.round(expect, 6).tolist()[:16]))
            elif isinstance(got, CQMap) or not close(got.array, plain):
                rep.fail("plain_eval_of_juxtaposition_differs:mixed=" + name, dict(case, mixed=name),
                         "eval(mixed=%s) of a circuit that is not mixed = %s, the plain tensor of "
                         "the parts is %s" % (name, show_value(got), np.round(plain, 6).tolist()[:16]))
        # measure(): a circuit with bits reports the weights of its output bits (qubits traced
        # out), zeros prepared on the inputs — read off the map above
        (ndc, ndq), (ncc, ncq) = [[len(x) for x in cq_dims(t)] for t in (c.dom, c.cod)]
        weights = distribution_from(expect, ndc, ndq, ncc, ncq)
        if tp_class(c):
            # measure(mixed=True / False) and get_counts() were compared by check_tp with the
            # distribution read off the evaluation, which is compared with the parts above
            rep.count("juxt_measure:by_clause_tp")
            continue
        for flag in ((True, False) if k % 4 == 0 else (True,) if k % 4 != 2 else (False,)):
            if not flag and not has_digit:
                # the classical part is made of wire-less weights only: measure() takes the
                # amplitude path and reports the Born distribution of the output QUBITS; the
                # property does not say how a weight outside {0, 1} enters it — not checked
                rep.count("juxt_measure:skipped_no_digit")
                continue
            rep.count("juxt_measure:mixed=%s" % flag)
            got, why = guarded(rep, c, "measure(mixed=%s)" % flag, lambda: c.measure(mixed=flag))
            if why is not None:
                if why != "f3":
                    rep.fail("measure_raises:" + err_class(why), dict(case, mixed=flag), repr(why))
                continue
            if not close(got, weights.real):                 # measure() reports real parts
                rep.fail("measure_of_juxtaposition_differs:mixed=%s" % flag, dict(case, mixed=flag),
                         "measure(mixed=%s) = %s; outcome weights of the classical part times the "
                         "squared magnitudes of the quantum part: %s" % (
                             flag, np.round(np.asarray(got).reshape(-1), 6).tolist()[:16],
                             np.round(weights.real.reshape(-1), 6).tolist()[:16]))


# ------------------------------------------------------------------ histories: look-alike boxes, one process

def rot_matrix(theta):
    """a real rotation (unitary), [input, output] order."""
    co, si = np.cos(np.pi * theta), np.sin(np.pi * theta)
    return np.array([[co, si], [-si, co]])


def alike_values(rng, exact, n_near):
    """A base parameter and neighbours that print like it with three significant digits."""
    if exact:
        base = rng.choice([0.25, 0.5, 0.75, 1.25, 1.75, -0.25, -0.75, 0.125, 0.375])
    else:
        base = rng.randrange(100, 1000) / 1000 * rng.choice([1, 1, 1, -1])
        if rng.random() < 0.2:
            base = rng.randrange(100, 400) / 100                  # 1.00 .. 3.99
    mag = 10 ** (int(np.floor(np.log10(abs(base)))) - 2)          # one unit of the third digit
    deltas = [0.4 * mag, -0.4 * mag, 0.49 * mag, 0.1 * mag, -0.25 * mag, 0.04 * mag]
    rng.shuffle(deltas)
    return base, [base + d for d in deltas[:n_near]]


def history_groups(seed, n_groups):
    # few groups (quick tier): one neighbour per group; otherwise one to three
    """Groups of circuits of the same shape whose boxes look alike (same name; parameters that
    agree to three significant digits; arrays that agree to the printed precision) but differ.
    Built from `seed` only, so that a second process can rebuild exactly the same list."""
    qc, g = lib()
    rng = random.Random(seed)
    groups = []
    for k in range(n_groups):
        family = ["rotation", "rotation", "rotation1", "two_in_one", "scalar", "gate", "classical",
                  "channel", "rotation"][k % 9]
        exact = k % 2 == 1
        base, near = alike_values(rng, exact, 1 if n_groups < 20 else rng.choice([1, 2, 3]))
        values = [base] + near
        if rng.random() < 0.5:
            values = near + [base]                            # the neighbour first
        values = values + [values[0]]                         # and the first one once more
        ending = rng.choice(["none", "measure", "marginal", "discard", "none"])
        nq = 2

        def finish(state):
            if ending == "measure":
                return state >> qc.Measure(nq)
            if ending == "marginal":
                return state >> qc.Measure() @ qc.Discard()
            if ending == "discard":
                return state >> qc.Discard() @ qc.Id(1)
            return state
        members = []
        if family in ("rotation", "rotation1"):
            r1 = rng.choice([g.Rx, g.Ry, g.Rz])
            r2 = rng.choice([g.Rx, g.Ry, g.Rz])
            r3 = rng.choice([g.CRz, g.CRx, g.CU1])
            shape = rng.randrange(3)
            for v in values:
                if family == "rotation1":
                    nq = 1
                    st = g.Ket(0) >> g.H >> r1(v)
                    members.append(st >> qc.Measure() if ending != "none" else st)
                    continue
                if shape == 0:
                    st = g.Ket(0, 0) >> g.H @ r1(v) >> g.CX >> r2(v) @ qc.Id(1)
                elif shape == 1:
                    st = g.Ket(0, 1) >> g.H @ g.H >> r3(v) >> r1(v) @ r2(0.5)
                else:
                    st = g.Ket(1, 0) >> r1(v) @ g.H >> r3(v) >> g.CX >> qc.Id(1) @ r2(v)
                members.append(finish(st))
        elif family == "two_in_one":
            # two look-alike rotations inside one circuit
            r1 = rng.choice([g.Rx, g.Ry, g.Rz])
            r3 = rng.choice([g.CRz, g.CRx, g.CU1])
            for v, w in zip(values, values[1:] + values[:1]):
                st = g.Ket(0, 0) >> g.H @ g.H >> r1(v) @ r1(w) >> r3(v) >> r3(w)
                members.append(finish(st))
        elif family == "scalar":
            mixed = rng.random() < 0.5
            for v in values:
                st = g.Ket(0, 0) >> g.H @ g.X >> g.CX
                members.append(finish(st @ g.scalar(v * (1 if mixed else 1 + 0.5j), is_mixed=mixed)))
        elif family == "gate":
            # user gates of one name: very different data, or data equal to the printed precision
            tiny = rng.random() < 0.5
            thetas = [base + (4e-9 * i if tiny else 0.37 * i) for i in range(len(values))]
            thetas[-1] = thetas[0]
            for th in thetas:
                gate = g.QuantumGate("U", 1, rot_matrix(th))
                st = g.Ket(0, 0) >> g.H @ gate >> g.CX >> gate @ qc.Id(1)
                members.append(finish(st))
        elif family == "classical":
            ps = [0.9, 0.9004, 0.6, 0.9]
            for p_ in ps:
                flip = g.ClassicalGate("flip", 1, 1, [p_, 1 - p_, 0.2, 0.8])
                members.append(g.Ket(0) >> g.H >> qc.Measure() >> flip)
        else:
            ps = [0.5, 0.5004, 0.75, 0.5]
            xx = g.X.array.reshape(2, 2)
            for p_ in ps:
                def dbl(u_):
                    return np.transpose(np.multiply.outer(np.conjugate(u_), u_), (0, 2, 1, 3))
                noise = Channel.make("noise", qc.qubit, qc.qubit,
                                     p_ * dbl(np.eye(2)) + (1 - p_) * dbl(xx))
                members.append(g.Ket(0) >> g.H >> noise >> qc.Measure())
        groups.append((family + (":exact" if exact and family.startswith(("rotation", "two"))
                                 else ""), members))
    return groups


def history_eval(c, both=True):
    """What a history run records for one circuit: eval(mixed=True) and — for circuits that are
    not mixed, and for the first member of a group — eval(mixed=False)."""
    out = []
    for flag in ((True, False) if both else (True,)):
        try:
            v = c.eval(mixed=flag)
            out.append(dict(kind=type(v).__name__,
                            re=np.asarray(v.array, dtype=complex).reshape(-1).real.tolist(),
                            im=np.asarray(v.array, dtype=complex).reshape(-1).imag.tolist()))
        except Exception as exc:  # noqa
            out.append(dict(kind="err", err=err_class(exc), text=repr(exc)[:200]))
    return out


def history_worker(seed, n_groups):
    """Second process: the same circuits, evaluated in the opposite order; prints JSON."""
    import json
    groups = history_groups(seed, n_groups)
    flat = [(i, j, c) for i, (_, ms) in enumerate(groups) for j, c in enumerate(ms)]
    out = {}
    for i, j, c in reversed(flat):
        out["%d.%d" % (i, j)] = history_eval(c, j == 0 or not expect_mixed(c))
    print("HISTORY-JSON " + json.dumps(out))


def history_start(seed, n_groups):
    """Start the second process (it imports the library afresh and evaluates the same list in
    the opposite order) so that it runs while the other streams do."""
    import os
    import subprocess
    import sys
    here = os.path.dirname(os.path.dirname(os.path.abspath(__file__)))
    return subprocess.Popen(
        [sys.executable, "-c",
         "import sys; sys.path.insert(0, %r); import props.c12 as m; m.history_worker(%d, %d)"
         % (here, seed, n_groups)],
        stdout=subprocess.PIPE, stderr=subprocess.PIPE, text=True)


def history_stream(rep, drv, seed, n_groups, budget, proc):
    """Evaluation must not depend on what was evaluated before in the same process.  Every member
    of every group is evaluated here, in order, after everything the other streams evaluated, and
    compared (tolerance 1e-9) with (i) the wire-by-wire numpy semantics (rotations from their
    textbook matrices), (ii) the doubled pure evaluation for pure members, (iii) the exact model
    for members at exact angles, (iv) the same evaluation made in a second process that goes
    through the list in the opposite order, (v) its own repetition."""
    import json
    import subprocess
    try:
        groups = history_groups(seed, n_groups)
    except Exception as exc:  # noqa
        rep.fail("construction_raises:" + err_class(exc), dict(history_seed=seed, groups=n_groups),
                 "building the look-alike circuits raises %r" % exc)
        return
    mine = {}
    for i, (family, members) in enumerate(groups):
        rep.count("history_group:" + family)
        reprs = [[repr(b) for b in c.boxes] for c in members]
        for j, c in enumerate(members):
            case = dict(describe(c), history="group %d (%s), member %d of %d; members print %s" % (
                i, family, j, len(members),
                "alike" if all(r == reprs[0] for r in reprs) else "differently"),
                        parameters=[repr(getattr(b, "data", None)) for b in c.boxes
                                    if getattr(b, "data", None) is not None][:6])
            rep.count("history_member:" + ("prints_like_an_earlier_one" if any(
                reprs[j] == reprs[x] and not same_circuit(c, members[x]) for x in range(j))
                else "same_as_an_earlier_one" if any(same_circuit(c, members[x]) for x in range(j))
                else "first_of_its_print"))
            rep.case("history:" + repr((i, j, case["layers"])), True)
            both = j == 0 or not expect_mixed(c)
            rec = history_eval(c, both)
            mine["%d.%d" % (i, j)] = (rec, case, c)
            history_oracle(rep, c, case, rec, light=False)
            history_model(rep, drv, c, case, rec, budget)
            if j == 0 and i % 3 == 0:
                again = history_eval(c, both)
                rep.count("history_same_circuit_twice_in_a_row")
                if not same_record(rec, again, 1e-12):
                    rep.fail("eval_not_reproducible", case, "evaluating the same circuit twice in "
                             "a row gives %s then %s" % (show_record(rec), show_record(again)))
            for x in range(j):
                n_rec = min(len(rec), len(mine["%d.%d" % (i, x)][0]))
                if same_circuit(c, members[x]) and not same_record(
                        rec[:n_rec], mine["%d.%d" % (i, x)][0][:n_rec], 1e-12):
                    rep.fail("eval_depends_on_history:same_process", case,
                             "the circuit evaluated to %s before and to %s after look-alike circuits "
                             "were evaluated" % (show_record(mine["%d.%d" % (i, x)][0]), show_record(rec)))
    try:
        out, errtxt = proc.communicate(timeout=300)
    except subprocess.TimeoutExpired:
        proc.kill()
        out, errtxt = "", "timeout"
    lines = [ln for ln in out.splitlines() if ln.startswith("HISTORY-JSON ")]
    if not lines:
        # the second process died: only a library failure can do that (it runs the code above)
        rep.fail("history_second_process_failed", dict(seed=seed, groups=n_groups),
                 "no result from the second process: " + errtxt[-600:])
        return
    theirs = json.loads(lines[0][len("HISTORY-JSON "):])
    for key, (rec, case, c) in mine.items():
        rep.count("history_compared_with_second_process")
        if key not in theirs or not same_record(rec, theirs[key], TOL):
            rep.fail("eval_depends_on_history", case,
                     "this process (list evaluated in order, after the other streams) gives %s; a "
                     "second process that evaluates the list in the opposite order gives %s" % (
                         show_record(rec), show_record(theirs.get(key))))


def history_oracle(rep, c, case, rec, light):
    """The property on one recorded evaluation: eval(mixed=True) is the wire-by-wire semantics
    (rotations from their textbook matrices); for a pure circuit it is the doubled map of the
    recorded eval(mixed=False); a measured state gives the squared magnitudes (measure(),
    get_counts()).  `light`: the full check ran already, only the distributions are added."""
    qc, g = lib()
    mixed_rec = rec[0]
    plain_rec = rec[1] if len(rec) > 1 else dict(kind="not recorded")
    if mixed_rec["kind"] == "err" or plain_rec["kind"] == "err":
        bad = mixed_rec if mixed_rec["kind"] == "err" else plain_rec
        if not light:
            rep.fail("eval_raises:" + bad["err"], case, bad["text"])
        return
    got = np.asarray(mixed_rec["re"]) + 1j * np.asarray(mixed_rec["im"])
    if not light:
        try:
            expect, _ = Sem().run(c)
            rep.count("semantics_checked")
            if not close(got, expect):
                rep.fail("mixed_eval_differs_from_semantics:history", case,
                         "eval(mixed=True) = %s, wire-by-wire semantics gives %s; largest "
                         "deviation %.3g" % (np.round(got, 7).tolist()[:16],
                                             np.round(expect.reshape(-1), 7).tolist()[:16],
                                             float(np.max(np.abs(got - expect.reshape(-1))))
                                             if got.shape == expect.reshape(-1).shape else -1))
        except NotImplementedError:
            rep.count("sem_skipped")
        if plain_rec["kind"] == "Tensor" and not c.is_mixed:
            rep.count("clause_a_checked")
            u = (np.asarray(plain_rec["re"]) + 1j * np.asarray(plain_rec["im"])).reshape(
                2 ** len(c.dom), 2 ** len(c.cod))
            dbl = np.transpose(np.multiply.outer(np.conjugate(u), u), (0, 2, 1, 3)).reshape(-1)
            if not close(got, dbl):
                rep.fail("pure_mixed_not_doubled", case,
                         "eval(mixed=True) is not conj(U) (x) U of eval(mixed=False); largest "
                         "deviation %.3g" % float(np.max(np.abs(got - dbl))))
    # Born rule through measure() / get_counts(): the state before the final measurement
    if c.boxes and isinstance(c.boxes[-1], qc.Measure) and c.boxes[-1].destructive \
            and len(c.cod) == len(c.boxes[-1].cod) and not any(
                bool(b.is_mixed) for b in c.boxes[:-1]):
        state = c[:len(c.boxes) - 1]
        try:
            amps = np.asarray(state.eval(mixed=False).array, dtype=complex).reshape(-1)
        except Exception as exc:  # noqa
            rep.fail("eval_raises:" + err_class(exc), case, repr(exc))
            return
        born = np.abs(amps) ** 2
        rep.count("history_born_checked")
        res, why = guarded(rep, c, "measure()", lambda: c.measure())
        if why is None and not close(res, born):
            rep.fail("measure_not_born:history", case, "measure() = %s, squared magnitudes of the "
                     "amplitudes %s" % (np.round(np.asarray(res).reshape(-1), 7).tolist()[:8],
                                        np.round(born, 7).tolist()[:8]))
        elif why not in (None, "f3"):
            rep.fail("measure_raises:" + err_class(why), case, repr(why))
        counts, why = guarded(rep, c, "get_counts()", lambda: c.get_counts())
        if why is None:
            n = len(c.cod)
            dense = np.zeros(2 ** n)
            from discopy.quantum.circuit import bitstring2index
            for bits_, v in counts.items():
                dense[bitstring2index(bits_) if n else 0] = float(np.asarray(v).reshape(-1)[0].real)
            if not close(dense, born):
                rep.fail("get_counts_not_born:history", case, "get_counts() = %s, squared "
                         "magnitudes of the amplitudes %s" % (
                             np.round(dense, 7).tolist()[:8], np.round(born, 7).tolist()[:8]))
        elif why != "f3":
            rep.fail("get_counts_raises:" + err_class(why), case, repr(why))


def history_model(rep, drv, c, case, rec, budget):
    """Members whose box arrays all lie in the exact ring (rotations at multiples of 1/4, CU1 at
    multiples of 1/8): the recorded eval(mixed=True) against the exact model (which has no
    history), entry by entry."""
    qc, _ = lib()
    line, why = cqsem.tok_circuit(c)
    if line is None or cqsem.model_cost(c) > budget or rec[0]["kind"] == "err":
        rep.count("history_model_skipped:" + (why or "cost-or-error"))
        return
    (dc, dq), (cc, cq) = cq_dims(c.dom), cq_dims(c.cod)
    real = cqsem.Ans("ok cq %s %s %s %s" % (cqsem.tok_dims(dc), cqsem.tok_dims(dq),
                                            cqsem.tok_dims(cc), cqsem.tok_dims(cq)),
                     np.asarray(rec[0]["re"]) + 1j * np.asarray(rec[0]["im"]))
    asks = ["cqeval mixed " + line]
    if not any(bool(b.is_mixed) and not isinstance(b, qc.Swap) for b in c.boxes):
        asks.append("cqsplit " + line)
    for ask in asks:
        model = drv.ask(ask)
        verdict = cqsem.compare_answer(real, model)
        stream = "history:" + ask.split(" ")[0]
        rep.count("model_answers:%s:%s" % (stream, verdict))
        if verdict == "differ":
            shown = real.tokens() or real.header + " <floats> " + str(real.entries.tolist()[:16])
            rep.disagree(stream, dict(case, request=ask[:400]), shown[:400], model[:400])


def same_circuit(c, d):
    """Same boxes with the same data at the same places (not `==` of the library, which may go
    by the printed form)."""
    def key(x):
        out = [str(x.dom)]
        for b, o in zip(x.boxes, x.offsets):
            arr = getattr(b, "array", None)
            data = None if arr is None else np.asarray(arr, dtype=complex).reshape(-1).tolist()
            out.append((type(b).__name__, str(b.dom), str(b.cod), o, bool(b.is_dagger),
                        bool(b.is_mixed), data))
        return out
    return key(c) == key(d)


def same_record(x, y, tol):
    if x is None or y is None or len(x) != len(y):
        return False
    for a, b in zip(x, y):
        if a["kind"] != b["kind"]:
            return False
        if a["kind"] == "err":
            if a["err"] != b["err"]:
                return False
            continue
        va = np.asarray(a["re"]) + 1j * np.asarray(a["im"])
        vb = np.asarray(b["re"]) + 1j * np.asarray(b["im"])
        if va.shape != vb.shape:
            return False
        scale = max(1.0, float(np.max(np.abs(va))) if va.size else 1.0)
        if not np.all(np.abs(va - vb) <= tol * scale):
            return False
    return True


def show_record(x):
    if x is None:
        return "nothing"
    out = []
    for a in x:
        if a["kind"] == "err":
            out.append("err " + a["err"])
        else:
            v = np.asarray(a["re"]) + 1j * np.asarray(a["im"])
            out.append("%s %s" % (a["kind"], np.round(v, 7).tolist()[:8]))
    return " / ".join(out)


# ------------------------------------------------------------------ clause (b): Born rule, marginals, adjoints

def born_stream(rep, rng, n_cases):
    qc, g = lib()
    for k in range(n_cases):
        n = rng.choice([1, 2, 2, 3])
        state = gen_circuit(rng, "pure", n, rng.randint(n, 6), dom=qc.Ty())
        while len(state.cod) < n:
            state = state @ g.Ket(rng.randrange(2))
        n = len(state.cod)
        if n == 0:
            continue
        case = describe(state)
        psi = np.asarray(state.eval(mixed=False).array, dtype=complex).reshape(-1)
        prob = np.abs(psi) ** 2
        rho = np.multiply.outer(np.conjugate(psi), psi)       # [q.., q'..] flattened pairs
        rep.case("born:" + repr(case), True)
        rep.count("born_cases")
        # measuring gives the squared magnitudes, for every variant
        for destructive in (True, False):
            for override in (False, True):
                tag = "Measure(d=%d,o=%d)" % (destructive, override)
                meas = qc.Measure(n, destructive=destructive, override_bits=override)
                prep = state
                if override:
                    prep = state @ g.Bits(*[rng.randrange(2) for _ in range(n)])
                c = prep >> meas
                m, why = guarded(rep, c, "eval()", lambda: c.eval())
                if why is not None:
                    if why != "f3":
                        rep.fail("eval_raises:" + err_class(why), describe(c), repr(why))
                    continue
                rep.count("born:" + tag)
                if destructive:
                    expect = prob
                else:                                        # [k, q, q'] collapsed copy
                    expect = np.zeros((2 ** n,) * 3, dtype=complex)
                    for i in range(2 ** n):
                        expect[i, i, i] = prob[i]
                if not close(m.array, expect):
                    rep.fail("measure_not_born:" + tag, describe(c),
                             "Measure after a pure state does not give |psi_i|^2")
        # discarding gives marginals: partial trace of the state, marginal of its distribution
        keep = rng.randrange(n + 1)
        left = rng.random() < 0.5
        disc = (qc.Id(keep) @ qc.Discard(n - keep)) if left else (qc.Discard(n - keep) @ qc.Id(keep))
        if n - keep > 0:
            c = state >> disc
            m, why = guarded(rep, c, "eval()", lambda: c.eval())
            if why is None:
                r = rho.reshape([2] * (2 * n))
                idx = list(range(2 * n))
                gone = range(keep, n) if left else range(0, n - keep)
                for w in gone:
                    idx[n + w] = idx[w]
                kept = [w for w in range(n) if w not in gone]
                red = np.einsum(r, idx, kept + [n + w for w in kept])
                rep.count("discard_partial_trace")
                if not close(m.array, red):
                    rep.fail("discard_not_marginal:quantum", describe(c),
                             "Discard does not give the partial trace")
            c = state >> qc.Measure(n) >> (qc.Id(qc.bit ** keep) @ qc.Discard(qc.bit ** (n - keep))
                                           if left else
                                           qc.Discard(qc.bit ** (n - keep)) @ qc.Id(qc.bit ** keep))
            m, why = guarded(rep, c, "eval()", lambda: c.eval())
            if why is None:
                pr = prob.reshape([2] * n)
                marg = pr.sum(axis=tuple(range(keep, n)) if left else tuple(range(0, n - keep)))
                rep.count("discard_marginal")
                if not close(m.array, marg):
                    rep.fail("discard_not_marginal:classical", describe(c),
                             "Discard of bits does not give the marginal distribution")
    # encode / mixed state and their daggers are the adjoints, every variant
    for n in (1, 2):
        for a in (True, False):
            for b in (False, True):
                meas, enc = qc.Measure(n, a, b), qc.Encode(n, a, b)
                pair = (meas, enc)
                tag = "n=%d,d=%d,o=%d" % (n, a, b)
                rep.case("adjoint:" + tag, True)
                if bad_encode(enc) or bad_encode(meas.dagger()):
                    rep.fail(F22_SIG, repr(pair), "%r : %s -> %s is declared %s -> %s" % (
                        enc, meas.cod, meas.dom, enc.dom, enc.cod))
                    continue
                mm, why = guarded(rep, meas, "Measure.eval()", lambda: meas.eval())
                me, why2 = guarded(rep, enc, "Encode.eval()", lambda: enc.eval())
                if why is None and why2 is None:
                    rep.count("encode_adjoint_checked")
                    if not (close(me.array, cq_dagger_array(mm)) and meas.dagger() == enc
                            and enc.dagger() == meas):
                        rep.fail("encode_not_adjoint:" + tag, repr(pair),
                                 "Encode is not the adjoint of Measure")
                else:
                    for w in (why, why2):
                        if w not in (None, "f3"):
                            rep.fail("eval_raises:" + err_class(w), repr(pair), repr(w))
    for ty in (qc.qubit, qc.bit, qc.qubit @ qc.bit, qc.bit @ qc.qubit @ qc.qubit, qc.bit ** 2):
        d, s = qc.Discard(ty), qc.MixedState(ty)
        rep.case("adjoint:mixedstate:" + str(ty), True)
        rep.count("mixedstate_adjoint_checked")
        if not (close(s.eval().array, cq_dagger_array(d.eval())) and d.dagger() == s
                and s.dagger() == d):
            rep.fail("mixedstate_not_adjoint", str(ty), "MixedState is not the adjoint of Discard")


# ------------------------------------------------------------------ scalars of every region under the Born rule

def small_state(rng, n):
    """A pure state of n qubits: kets, then a few gates (exact entries)."""
    qc, g = lib()
    c = g.Ket(*[rng.randrange(2) for _ in range(n)])
    for _ in range(rng.randint(1, 3)):
        if n >= 2 and rng.random() < 0.35:
            gate = rng.choice([g.CX, g.CZ, g.SWAP, g.CRz(0.5), g.CU1(0.25)])
        else:
            gate = rng.choice([g.H, g.H, g.X, g.Y, g.S, g.T, g.Rx(0.25), g.Ry(0.25), g.Rz(0.75)])
        off = rng.randrange(n - len(gate.dom) + 1)
        c = c >> qc.Id(off) @ gate @ qc.Id(n - len(gate.dom) - off)
    return c


def place_scalar(rng, c, s, where):
    qc, _ = lib()
    if where == "left":
        return s @ c
    if where == "right":
        return c @ s
    j = rng.randrange(len(c.boxes) + 1)
    mid = c[:j].cod
    off = rng.randrange(len(mid) + 1)
    return c[:j] >> qc.Id(mid[:off]) @ s @ qc.Id(mid[off:]) >> c[j:]


def scalar_born_stream(rep, drv, rng, rounds, budget, per_round=None):
    """Clauses (a) and (b) on pure circuits that CONTAIN SCALAR BOXES, systematically: every form
    (sqrt(z), scalar(z), user subclasses of both) x every region of the data (positive, negative,
    imaginary, general complex, zero), exact and float data, one or two scalar boxes, placed left of,
    right of, or inside a state of 1-2 qubits.  The pure amplitudes are those of the state times the
    amplitude of each scalar box (the principal root of the data for sqrt, computed here from the
    data); eval(mixed=True) must be the doubled map of eval(mixed=False); measuring gives
    |amplitude|^2 — non-negative real numbers, whatever the phase or sign of the scalars — through
    Measure, get_counts() and measure()."""
    qc, g = lib()
    for rd in range(rounds):
        combos = [(f, r) for f in SCALAR_FORMS[:4] for r in SCALAR_REGIONS]
        rng.shuffle(combos)
        if per_round is not None:
            # quick tier: sqrt of every region always, a rotating sample of the other forms
            first = [x for x in combos if x[0] == "sqrt"]
            combos = first + [x for x in combos if x[0] != "sqrt"][:per_round - len(first)]
        for idx, (form, region) in enumerate(combos):
            sub = random.Random(rng.getrandbits(64))
            exact = not (form.startswith("My") and idx % 2) and (rd + idx) % 5 != 4
            if region == "zero" and not exact:
                exact = True
            n = sub.choice([1, 1, 2])
            boxes = [region_scalar(sub, form, region, exact=exact)]
            if sub.random() < 0.3:
                boxes.append(region_scalar(sub, sub.choice(SCALAR_FORMS[:4]), exact=exact,
                                           unit=sub.random() < 0.5))
            state = small_state(sub, n)
            try:
                bare = np.asarray(state.eval(mixed=False).array, dtype=complex).reshape(-1)
                c = state
                for s in boxes:
                    c = place_scalar(sub, c, s, sub.choice(["left", "right", "inside"]))
            except Exception as exc:  # noqa
                rep.fail("construction_raises:" + err_class(exc),
                         dict(state=describe(state), scalars=[repr(b) for b in boxes]), repr(exc))
                continue
            amp = complex(np.prod([scalar_amplitude(b) for b in boxes]))
            psi = amp * bare                                  # the amplitudes the circuit stands for
            prob = np.abs(psi) ** 2
            case = dict(describe(c), scalars=["%s [data %s]" % (repr(b), qgen.show_number(b.data))
                                              for b in boxes])
            rep.case("scalar_born:" + repr(case), True)
            rep.count("scalar_born:%s:%s:%s" % (form, region, "exact" if exact else "float"))
            # (a) the circuit itself: amplitudes, doubling, model
            first = check_circuit(rep, drv, c, "scalars", budget, sub, adjoint=(idx % 3 == 0))
            if first is None:
                continue
            got, why = guarded(rep, c, "eval(mixed=False)", lambda: c.eval(mixed=False))
            if why is not None:
                rep.fail("eval_raises:" + err_class(why), case, "eval(mixed=False): " + repr(why))
                continue
            if not close(got.array, psi):
                rep.fail("pure_eval_of_scalar_differs:" + form, case,
                         "eval(mixed=False) = %s, state amplitudes times the scalars (%r) = %s" % (
                             np.round(np.asarray(got.array).reshape(-1), 6).tolist()[:8], amp,
                             np.round(psi, 6).tolist()[:8]))
                continue
            # (b) measuring every qubit gives the squared magnitudes: non-negative reals
            meas = c >> qc.Measure(n)
            results = {}
            m, why = guarded(rep, meas, "eval()", lambda: meas.eval())
            if why is None:
                results["(c >> Measure(%d)).eval()" % n] = np.asarray(m.array, dtype=complex).reshape(-1)
            else:
                rep.fail("eval_raises:" + err_class(why), describe(meas), repr(why))
            for name, fn in (("(c >> Measure(%d)).measure()" % n, lambda: meas.measure()),
                             ("c.measure()", lambda: c.measure()),
                             ("c.measure(mixed=True) [qubits discarded: total weight]",
                              lambda: c.measure(mixed=True))):
                res, why = guarded(rep, meas, name, fn)
                if why is None:
                    results[name] = np.asarray(res, dtype=complex).reshape(-1)
                else:
                    rep.fail("measure_raises:" + err_class(why), case, "%s raises %r" % (name, why))
            counts, why = guarded(rep, meas, "get_counts()", lambda: meas.get_counts())
            if why is None:
                dense = np.zeros(2 ** n, dtype=complex)
                from discopy.quantum.circuit import bitstring2index
                for bits_, v in counts.items():
                    dense[bitstring2index(bits_)] = np.asarray(v).reshape(-1)[0]
                results["(c >> Measure(%d)).get_counts()" % n] = dense
            else:
                rep.fail("get_counts_raises:" + err_class(why), case, repr(why))
            for name, res in results.items():
                want = np.array([prob.sum()]) if "total weight" in name else prob
                rep.count("scalar_born_checked")
                if np.any(np.abs(res.imag) > TOL) or np.any(res.real < -TOL):
                    rep.fail("probability_not_a_nonnegative_real:" + form, dict(case, call=name),
                             "%s = %s: outcome weights must be squared magnitudes of amplitudes" % (
                                 name, np.round(res, 6).tolist()))
                elif not close(res, want):
                    rep.fail("measure_not_born:scalar:" + form, dict(case, call=name),
                             "%s = %s, |amplitude|^2 = %s" % (name, np.round(res.real, 6).tolist(),
                                                              np.round(want, 6).tolist()))


# ------------------------------------------------------------------ mixed scalars: every route, adjoints

MIXED_CONTEXTS = ("box", "circuit", "left_of_measured", "right_of_measured", "inside_open", "inside_discarded",
                  "with_pure_scalar", "two_routes", "bits", "nondestructive", "encode", "mixedstate",
                  "its_dagger", "two_qubits")


def mixed_scalar_context(rng, s, ctx, exact):
    """A small circuit (0-2 qubits) of the given family around the mixed scalar box s."""
    qc, g = lib()
    if ctx == "box":
        return s                                               # the box itself: Scalar.dagger directly
    if ctx == "circuit":
        return qc.Id(0) @ s                                    # Circuit.dagger over the boxes
    if ctx in ("left_of_measured", "right_of_measured"):
        st = small_state(rng, 1) >> qc.Measure(destructive=rng.random() < 0.7)
        return s @ st if ctx.startswith("left") else st @ s
    if ctx == "inside_open":
        return place_scalar(rng, small_state(rng, 1), s, "inside")
    if ctx == "inside_discarded":
        return place_scalar(rng, small_state(rng, 1) >> qc.Discard(), s, "inside")
    if ctx == "with_pure_scalar":                              # Born rule on the one, not on the other
        other = region_scalar(rng, rng.choice(SCALAR_FORMS[:4]), rng.choice(("complex", "imaginary",
                                                                              "negative")), exact=exact)
        return rng.choice([s @ other, other @ s])
    if ctx == "two_routes":
        other = region_scalar(rng, "mixed", rng.choice(SCALAR_REGIONS[:4]), exact=exact)
        return s @ g.Ket(rng.randrange(2)) @ other >> g.Bra(rng.randrange(2))
    if ctx == "bits":
        gate = rng.choice([stochastic_gate_11(rng), g.Copy(), general_gate(rng, 7)])
        c = g.Bits(*[rng.randrange(2) for _ in range(len(gate.dom))]) if len(gate.dom) else qc.Id(0)
        return place_scalar(rng, c >> gate, s, rng.choice(["left", "right", "inside"]))
    if ctx == "nondestructive":
        return g.Ket(rng.randrange(2)) >> g.H >> qc.Measure(destructive=False) \
            >> qc.Id(qc.qubit @ qc.bit) @ s
    if ctx == "encode":
        return place_scalar(rng, g.Bits(rng.randrange(2)) >> qc.Encode() >> rng.choice([g.H, g.S, g.Y]),
                            s, rng.choice(["left", "right", "inside"]))
    if ctx == "mixedstate":
        return place_scalar(rng, qc.MixedState() >> rng.choice([g.X, g.T, g.H]) >> qc.Measure(),
                            s, rng.choice(["left", "right", "inside"]))
    if ctx == "its_dagger":                                    # the box a first dagger() returned, used again
        return place_scalar(rng, small_state(rng, 1), s.dagger(), "inside") >> qc.Measure() @ s
    return place_scalar(rng, small_state(rng, 2) >> qc.Measure() @ qc.Discard(), s, "inside")


def mixed_scalar_stream(rep, drv, rng, rounds, budget, per_combo=1, quick=False):
    """Scalar boxes on which the Born rule has ALREADY been applied, built through every calling
    convention (MIXED_ROUTES) with data in every region (positive / negative / imaginary / complex /
    zero; exact and float), inside circuits of every small family (MIXED_CONTEXTS).  A mixed scalar
    is the weight z itself in the mixed evaluation (wire-by-wire semantics and the model, through
    check_circuit); the dagger of the circuit evaluates to the adjoint of its evaluation (a weight
    conj(z), not |z|^2), the double dagger to the evaluation itself; the daggered circuit is checked
    as a circuit of its own as well."""
    n = 0
    for rd in range(rounds):
        combos = [(route, region) for route in MIXED_ROUTES for region in SCALAR_REGIONS]
        if quick:
            # quick tier: every route with complex data and two of the other four regions (all regions
            # over the routes); the thorough tier runs the full product several times
            rest = [r for r in SCALAR_REGIONS if r != "complex"]
            k = rng.randrange(4)
            combos = [(route, region) for i, route in enumerate(MIXED_ROUTES)
                      for region in ("complex", rest[(2 * i + k) % 4], rest[(2 * i + k + 1) % 4])]
        rng.shuffle(combos)
        for idx, (route, region) in enumerate(combos):
            for rep_i in range(per_combo):
                sub = random.Random(rng.getrandbits(64))
                ctx = MIXED_CONTEXTS[(n + rd) % len(MIXED_CONTEXTS)]
                n += 1
                exact = region == "zero" or n % 4 != 3
                case = dict(route=route, region=region, context=ctx, exact=exact)
                try:
                    if exact:
                        t = sub.choice(SCALARS_BY_REGION[region])
                        z = qgen.number_of(t, sub.choice(["auto", "auto", "complex", "np.complex128"]))
                    else:
                        z = region_scalar(sub, "scalar", region, exact=False).data
                    s = mixed_scalar_by(route, z)
                    case["scalar"] = "%r [data %s]" % (s, qgen.show_number(s.data))
                    c = mixed_scalar_context(sub, s, ctx, exact)
                except Exception as exc:  # noqa
                    rep.fail("construction_raises:" + err_class(exc), case, repr(exc))
                    continue
                rep.count("mixed_scalar:%s:%s" % (route, region))
                rep.count("mixed_scalar_context:" + ctx)
                rep.count("mixed_scalar_class:" + mixed_route_of(s))
                if not s.is_mixed:
                    rep.fail("mixed_scalar_not_mixed", case, "%r has is_mixed = %r" % (s, s.is_mixed))
                    continue
                m = check_circuit(rep, drv, c, "mixed_scalars", budget, sub, adjoint="always")
                if m is None:
                    continue
                # the daggered circuit on its own: semantics, model, is_mixed, and ITS adjoint
                d, why = guarded(rep, c, "dagger()", lambda: c.dagger())
                if why is not None:
                    if why != "f3":
                        rep.fail("dagger_raises:" + err_class(why), dict(case, **describe(c)), repr(why))
                    continue
                if (n + rd) % (5 if quick else 2) == 0 and not any(bad_encode(b) for b in d.boxes):
                    check_circuit(rep, drv, d, "mixed_scalars_dagger", budget, sub, adjoint="always")
    return n


# ------------------------------------------------------------------ CQMap expression stream

def rand_dims(rng, n, vals=(2, 2, 3)):
    return [rng.choice(vals) for _ in range(n)]


def rand_entries(rng, n):
    vals = [0, 0, 1, 1, -1, 2, 1j, -1j, 1 + 1j, 0.5, 0.5j, 3]
    return [rng.choice(vals) for _ in range(n)]


def prod(xs):
    out = 1
    for x in xs:
        out *= x
    return out


def cq_size(t):
    return prod(t[0]) * prod(t[1]) ** 2


def rand_cqty(rng, cap=16):
    while True:
        t = (rand_dims(rng, rng.choice([0, 0, 1, 1, 2])), rand_dims(rng, rng.choice([0, 1, 1])))
        if cq_size(t) <= cap:
            return t


def gen_leaf(rng, dom=None):
    """A leaf expression, with the given domain if possible."""
    if dom is None:
        dom = rand_cqty(rng)
    c, q = dom
    opts = ["id", "discard", "lit"]
    if not c and len(q) >= 1:
        opts += ["measure", "measure", "pure"]
    if not q and c:
        opts += ["classical", "encode"]
    if len(c) + len(q) >= 2:
        opts.append("swap")
    if not c and not q:
        opts += ["scalar", "encode0"]
    k = rng.choice(opts)
    if k == "id":
        return ("id", dom), dom, dom
    if k == "discard":
        return ("discard", dom), dom, ([], [])
    if k == "lit":
        cod = rand_cqty(rng, cap=max(1, 64 // max(1, cq_size(dom))))
        return ("lit", dom, cod, rand_entries(rng, cq_size(dom) * cq_size(cod))), dom, cod
    if k == "measure":
        d = rng.random() < 0.6
        return ("measure", q, d), dom, ((q, []) if d else (q, q))
    if k == "pure":
        cod = rand_dims(rng, rng.choice([0, 1, 1]))
        return ("pure", q, cod, rand_entries(rng, prod(q) * prod(cod))), dom, ([], cod)
    if k == "classical":
        cod = rand_dims(rng, rng.choice([0, 1, 1, 2]))
        return ("classical", c, cod, rand_entries(rng, prod(c) * prod(cod))), dom, (cod, [])
    if k == "encode":
        d = rng.random() < 0.6
        if d:
            return ("encode", c, True), dom, ([], c)
        return ("id", dom), dom, dom
    if k == "swap":
        i = rng.randrange(len(c) + 1)
        j = rng.randrange(len(q) + 1)
        l, r = (c[:i], q[:j]), (c[i:], q[j:])
        return ("swap", l, r), dom, (r[0] + l[0], r[1] + l[1])
    if k == "scalar":
        return ("scalar", rng.choice([2, 1j, 0.5, -1, 1 + 1j])), dom, dom
    d = rand_dims(rng, 1)
    return ("encode", d, True), ([d[0]], []), ([], d)


def gen_cqexpr(rng, depth):
    if depth == 0:
        return gen_leaf(rng)
    r = rng.random()
    a, adom, acod = gen_cqexpr(rng, depth - 1)
    if r < 0.4:
        if rng.random() < 0.1:                                 # malformed: arbitrary right factor
            b, bdom, bcod = gen_leaf(rng)
        else:
            b, bdom, bcod = gen_leaf(rng, acod)
        return ("then", a, b), adom, bcod
    if r < 0.75:
        b, bdom, bcod = gen_cqexpr(rng, rng.randrange(depth))
        if cq_size((adom[0] + bdom[0], adom[1] + bdom[1])) * \
                cq_size((acod[0] + bcod[0], acod[1] + bcod[1])) > 4096:
            return a, adom, acod
        return ("tensor", a, b), (adom[0] + bdom[0], adom[1] + bdom[1]), \
            (acod[0] + bcod[0], acod[1] + bcod[1])
    return ("dagger", a), acod, adom


def tok_cqty(t):
    return cqsem.tok_dims(t[0]) + " " + cqsem.tok_dims(t[1])


def tok_cqexpr(e):
    k = e[0]
    if k in ("id", "discard"):
        return "%s %s" % (k, tok_cqty(e[1]))
    if k in ("then", "tensor"):
        return "%s %s %s" % (k, tok_cqexpr(e[1]), tok_cqexpr(e[2]))
    if k == "dagger":
        return "dagger " + tok_cqexpr(e[1])
    if k == "swap":
        return "swap %s %s" % (tok_cqty(e[1]), tok_cqty(e[2]))
    if k in ("measure", "encode"):
        return "%s %s %d" % (k, cqsem.tok_dims(e[1]), e[2])
    if k in ("pure", "classical"):
        return "%s %s %s %s" % (k, cqsem.tok_dims(e[1]), cqsem.tok_dims(e[2]),
                                cqsem.tok_mat(prod(e[1]), prod(e[2]), e[3]))
    if k == "lit":
        return "lit %s %s %s" % (tok_cqty(e[1]), tok_cqty(e[2]),
                                 cqsem.tok_mat(cq_size(e[1]), cq_size(e[2]), e[3]))
    if k == "scalar":
        return "scalar " + cqsem.tok_d8(cqsem.recognise(e[1]))
    raise ValueError(k)


def run_cqexpr(e):
    from discopy.quantum.cqmap import CQMap, CQ
    from discopy.tensor import Dim, Tensor

    def ty(t):
        return CQ(Dim(*t[0]), Dim(*t[1]))
    k = e[0]
    if k == "id":
        return CQMap.id(ty(e[1]))
    if k == "discard":
        return CQMap.discard(ty(e[1]))
    if k == "then":
        return run_cqexpr(e[1]) >> run_cqexpr(e[2])
    if k == "tensor":
        return run_cqexpr(e[1]) @ run_cqexpr(e[2])
    if k == "dagger":
        return run_cqexpr(e[1]).dagger()
    if k == "swap":
        return CQMap.swap(ty(e[1]), ty(e[2]))
    if k == "measure":
        return CQMap.measure(Dim(*e[1]), destructive=e[2])
    if k == "encode":
        return CQMap.encode(Dim(*e[1]), constructive=e[2])
    if k == "pure":
        return CQMap.pure(Tensor(Dim(*e[1]), Dim(*e[2]), e[3]))
    if k == "classical":
        return CQMap.classical(Tensor(Dim(*e[1]), Dim(*e[2]), e[3]))
    if k == "lit":
        return CQMap(ty(e[1]), ty(e[2]), e[3])
    if k == "scalar":
        return CQMap(CQ(), CQ(), e[1])
    raise ValueError(k)


def expr_ops(e):
    out = [e[0]]
    for x in e[1:]:
        if isinstance(x, tuple) and x and isinstance(x[0], str):
            out += expr_ops(x)
    return out


def cqexpr_stream(rep, drv, rng, n_cases):
    cases = [gen_cqexpr(rng, rng.choice([0, 1, 1, 2, 2, 3]))[0] for _ in range(n_cases)]
    lines = ["cqexpr " + tok_cqexpr(e) for e in cases]
    answers = [drv.ask(l) for l in lines]
    for e, line, model in zip(cases, lines, answers):
        try:
            real = cqsem.ans_cqmap(run_cqexpr(e))
        except Exception as exc:  # noqa
            real = "err " + err_class(exc)
        ops = expr_ops(e)
        for o in set(ops):
            rep.count("cqexpr_op:" + o)
        rep.count("cqexpr_result:" + (real if isinstance(real, str) else "ok"))
        rep.case(line, len(ops) >= 3 and ("tensor" in ops or "then" in ops))
        verdict = cqsem.compare_answer(real, model)
        rep.count("model_answers:cq-expr:" + verdict)
        if verdict == "differ":
            shown = real if isinstance(real, str) else (real.tokens() or real.header + " <floats>")
            rep.disagree("cq-expr", dict(expr=repr(e), request=line[:400]), shown[:400], model[:400])
    if cases:
        rep.sample(dict(stream="cq-expr", request=lines[0][:200], answer=answers[0][:160]))


# ------------------------------------------------------------------ entry point

def run(tier, seed, replay=None):
    rep = Report(PROP, tier, seed)
    rep.rule = (
        "random circuits of 1-4 wires and depth <= 8 grown layer by layer from discopy's own boxes "
        "in three classes: pure (Ket, Bra, gate set incl. rotations, scalar boxes of every form — sqrt(z), "
        "scalar(z), user subclasses of both — with data positive / negative / imaginary / complex / zero, "
        "exact and float, of every Python number type: scalar_box:<form>:<region>), tp (preparations, "
        "global phases = scalar boxes of modulus one such as sqrt(-1), sqrt(1j), scalar(-1), "
        "unitaries, Measure destructive or not / overriding bits or not, Discard, stochastic and "
        "deterministic classical gates, Copy, swaps of bits and qubits) and general (+ MixedState, "
        "Encode variants, Match, daggered Bits/gates, arbitrary classical gates, pure and mixed "
        "scalars, user channels) and variants (each of the 16 Measure/Encode variants with n = 1, 2 "
        "behind random preparations next to a spectator wire), latemix (no mixed box; bits and qubits "
        "meet only on the codomain of the last layer or only on the domain), classical (bits and "
        "non-mixed classical gates incl. wire-less weights with values outside {0, 1}) and weighted "
        "(a weight box placed anywhere in a circuit: linearity); batch evaluations c0.eval(c1, c2, "
        "mixed=True/False) of 2-3 unrelated circuits (pure and mixed together) against the single "
        "evaluations, and formal sums of 2-3 circuits qubit^n -> qubit^n (n = 0, 1, 2; pure terms "
        "only / mixed only / both) against the sum of the evaluations of their terms; juxt (no mixed "
        "box: a classical part of Bits, stochastic / deterministic / arbitrary classical gates, Copy, "
        "Match, bit swaps, weights, daggered Bits, closed by marginals or bit effects or left open, "
        "put next to a pure quantum part as A @ B, B @ A, closed segments one after the other, a "
        "closed classical circuit inserted anywhere in the quantum one, both open, a post-selected "
        "quantum scalar beside open bits; is_mixed False although Digits are present in about half "
        "of them) evaluated with mixed = True / False / default and one of 1 / None / 0, and "
        "measure(mixed=True/False), against classical part (x) doubled quantum part computed from "
        "the plain evaluations of the parts; history (9 families of circuits whose boxes print "
        "alike but differ: rotation phases / scalars agreeing to 3 significant digits, also two in "
        "one circuit and at exact angles; user gates, classical gates and channels of one name with "
        "different data or data equal to the printed precision; each followed by nothing, Measure, "
        "Measure @ Discard, Discard; neighbour first or base first, the first one once more at "
        "the end) evaluated in order at the end of the run AND in the opposite order by a second "
        "process; scalar_born (every scalar form x data region, one or two scalar boxes left of / right of "
        "/ inside a state of 1-2 qubits: amplitudes = state x scalar amplitudes computed from the data, "
        "doubling, and |amplitude|^2 as non-negative reals from Measure / measure() / get_counts()); "
        "mixed_scalars (scalar boxes on which the Born rule has already been applied, built through every "
        "calling convention — MixedScalar(z), scalar(z, is_mixed=True), scalar(z, True), Scalar(z, "
        "is_mixed=True), with a name, all positional, a user subclass — x data positive / negative / "
        "imaginary / complex / zero, exact and float, as a box, a one-box circuit, left / right of / inside "
        "measured, discarded and open states, beside pure scalars, other mixed scalars, bits and classical "
        "gates, non-destructive Measure, Encode, MixedState, together with its own dagger: evaluation = the "
        "weight itself (semantics + model), circuit.dagger() evaluates to the adjoint and the double dagger "
        "to the evaluation, the daggered circuit checked as a circuit of its own); the adjoint oracle of "
        "every stream now includes circuits with mixed scalars; "
        "plus a Born-rule stream (random pure states of 1-3 qubits, every "
        "Measure variant, partial discards, all Encode/MixedState adjoints) and a CQMap expression "
        "stream (then/tensor/dagger/swap/measure/encode/discard/pure/classical/literals over "
        "dimensions 2 and 3, ~10% ill-typed compositions); non-trivial = circuit of >= 2 boxes of "
        ">= 2 kinds / every Born and adjoint case / expression of >= 3 operations containing then "
        "or tensor; distinct by input")
    rep.partial = [
        "get_counts()/measure() glue and the is_mixed selection are modelled and compared but no "
        "theorem is claimed about them (oracle + correspondence only); eval(mixed=True) of circuits "
        "without mixed boxes is proved (eval_mixed_flag) to be the classical part next to the "
        "doubled quantum part whatever is_mixed says",
        "independence of the evaluation history (no state carried between calls) is outside the "
        "model, which is a pure function: it is checked by the history stream only (oracle at 1e-9, "
        "exact model at exact angles, and a second process evaluating in the opposite order)",
        "the swap network of CQMap.tensor (cqmap.py:167-186) is taken at its specification (the "
        "block permutation); it is validated against the code by the cq-expr and circuit streams",
        "Tensor.then/tensor/dagger/swap are taken at their C08 entry formulas; tensor.Functor at "
        "its C09 specification (ordered product of 1 (x) box (x) 1)",
        "the exact scalar type of the driver (Z[zeta_8][1/2]) is not proved to be a commutative "
        "star-ring; the theorems hold for the model over every commutative star-ring",
    ]
    rep.assumptions = [
        "float comparisons: tolerance 1e-9 (relative to the largest entry) between discopy's "
        "complex128 results and (i) the independent numpy semantics, (ii) the doubled pure "
        "evaluation, (iii) recognition of entries in Z[zeta_8][1/2] before the exact token "
        "comparison with the model; where an entry of discopy's result is not recognised with a "
        "denominator <= 2^10 (or is rounded to a neighbouring element) the model's exact entries "
        "are compared numerically instead (counted as model_answers:*:numeric)",
        "wires of dimension 2 in circuits (Digits/Qudits of other dimensions only in the CQMap "
        "expression stream)",
        "circuits whose box arrays are not in Z[zeta_8][1/2] (random rotation phases) or whose "
        "model evaluation would exceed the cost budget are checked by the oracles only (counted "
        "as model_skipped:*)",
    ]
    rep.lean = lean_obligations(PROP, thorough=(tier == "thorough"))
    quick = tier == "quick"
    n_circuits = dict(general=15, tp=12, pure=9) if quick else dict(general=225, tp=185, pure=110)
    n_born = 3 if quick else 55
    n_scalar_rounds = 1 if quick else 6
    n_mixed_rounds = 1 if quick else 3
    n_variant_rounds = 1 if quick else 8
    n_late, n_weight, n_classical = (10, 6, 6) if quick else (140, 80, 80)
    n_batch = 8 if quick else 110
    n_juxt, n_history = (12, 9) if quick else (84, 27)
    n_expr = 150 if quick else 2500
    budget = 3e5 if quick else 3e6
    rng = random.Random(seed)
    hist_seed = random.Random(seed * 7919 + 12).getrandbits(48)
    hist_proc = history_start(hist_seed, n_history)
    drv = Driver()
    import time
    walls = rep.extra.setdefault("stream_wall_s", {})
    mark = [time.time()]

    def lap(name):
        now = time.time()
        walls[name] = round(walls.get(name, 0) + now - mark[0], 2)
        mark[0] = now
    try:
        for cls in ("general", "tp", "pure"):
            for _ in range(n_circuits[cls]):
                sub = random.Random(rng.getrandbits(64))
                max_w = sub.choice([1, 2, 2, 3, 3, 3, 4, 4])
                c = gen_circuit(sub, cls, max_w, sub.randint(1, 8))
                check_circuit(rep, drv, c, cls, budget, sub)
        lap("random_circuits")
        for _ in range(n_variant_rounds):
            sub = random.Random(rng.getrandbits(64))
            for c in variant_circuits(sub):
                check_circuit(rep, drv, c, "variants", budget, sub)
        sub = random.Random(rng.getrandbits(64))
        for c in late_mix_circuits(sub, n_late):
            check_circuit(rep, drv, c, "latemix", budget, sub)
        lap("variants_latemix")
        weight_stream(rep, drv, random.Random(rng.getrandbits(64)), n_weight, budget)
        sub = random.Random(rng.getrandbits(64))
        for _ in range(n_classical):
            c = gen_circuit(sub, "classical", sub.choice([1, 2, 2, 3]), sub.randint(1, 6))
            check_circuit(rep, drv, c, "classical", budget, sub)
        lap("weight_classical")
        juxt_stream(rep, drv, random.Random(rng.getrandbits(64)), n_juxt, budget)
        lap("juxt")
        batch_sum_stream(rep, random.Random(rng.getrandbits(64)), n_batch)
        lap("batch_sum")
        born_stream(rep, random.Random(rng.getrandbits(64)), n_born)
        lap("born")
        scalar_born_stream(rep, drv, random.Random(rng.getrandbits(64)), n_scalar_rounds, budget,
                           per_round=10 if quick else None)
        lap("scalar_born")
        n_ms = mixed_scalar_stream(rep, drv, random.Random(rng.getrandbits(64)), n_mixed_rounds, budget,
                                   per_combo=1, quick=quick)
        rep.extra["mixed_scalar_cases"] = n_ms
        lap("mixed_scalars")
        cqexpr_stream(rep, drv, random.Random(rng.getrandbits(64)), n_expr)
        lap("cqexpr")
        history_stream(rep, drv, hist_seed, n_history, budget, hist_proc)
        lap("history")
    finally:
        drv.close()
        if hist_proc.poll() is None:
            hist_proc.kill()
    return rep.finish()
