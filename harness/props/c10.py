"""C10 — swaps and permutations realise exactly the requested wire permutation.

Streams
* `eval`      Diagram.swap / Diagram.permutation / d.permute on the real code of every class that
              offers swaps (monoidal, rigid, tensor, circuit, zx) against the Lean model's diagram:
              all five fields (dom, cod, boxes, offsets, layers), token by token.
* `wireperm`  the wire permutation computed by the model (`wirePerm`, Model/Wires.lean) against an
              independent Python wire follower run on the real diagram.
* oracle      the property itself, on the real results: wire i ends at perm[i] (resp. the block
              exchange), cod[perm[i]] == dom[i], only swaps of two atomic types at in-range
              offsets, non-permutations and length mismatches raise ValueError; for tensor and
              circuit diagrams the evaluated array is the exact 0/1 permutation matrix.
* `cq-swap`   the EVALUATION target of circuit swaps, `CQMap.swap(left, right)` called directly on
              classical-quantum types whose classical and quantum parts have different lengths and
              dimensions (empty parts, C @ Q on either side), against the model's `CQMap.swap`
              (`cqexpr swap`, theorem `cq_swap_spec`) and, as oracle, against the wire-permutation
              tensor over `classical @ quantum @ quantum` built here with plain loops: wire
              dimensions of the underlying tensor AND entries.
* `cq-eval`   Circuit.swap / Circuit.permutation over bits, Digit(k), qubits and Qudit(k) of
              DIFFERENT dimensions, evaluated with `eval()` and `eval(mixed=True)`: the real array
              against the model's evaluation of the same circuit (`cqeval auto|mixed`) and, as
              oracle, against the wire-permutation tensor in the layout of the class returned
              (Tensor: one axis per wire; CQMap: classical wires once, quantum wires doubled).
"""
import itertools
import os
import random
import re

# the arrays evaluated here are tiny; one BLAS/OpenMP thread avoids spinning on all cores
for _v in ("OMP_NUM_THREADS", "OPENBLAS_NUM_THREADS", "MKL_NUM_THREADS"):
    os.environ.setdefault(_v, "1")

from common import Driver, Report, ser_diagram, err_class, lean_obligations
from core import tok_ty, tok_expr, tok_box

PROP = "C10"

PRIMES = [2, 3, 5, 7, 11, 13, 17, 19, 23, 29, 31, 37, 41, 43]
LETTERS = list("abcdefghijklmn")


# --------------------------------------------------------------------------- class adapters

class Cls:
    """One diagram class that offers swaps.  Types are specs: lists of (name, z)."""
    name = None
    evaluates = False

    def ty(self, spec):
        raise NotImplementedError

    def swap(self, l, r):
        return self.D.swap(self.ty(l), self.ty(r))

    def perm(self, p, dom):
        # `p` is the caller's own list object, handed over as it is (no copy): the check looks
        # at it again after the call and hands the same object to a second request
        if dom is None:
            return self.D.permutation(p)
        return self.D.permutation(p, self.ty(dom))

    def permute(self, p, dom):
        return self.D.id(self.ty(dom)).permute(*p)

    def permute_box(self, p, dom, cod):
        return self.m.Box("f", self.ty(dom), self.ty(cod)).permute(*p)

    def default_dom(self, n):
        """Spec of the default domain of `permutation(perm)` (dom omitted)."""
        return [(1, 0)] * n

    def default_ty(self, n):
        """The documented default domain `PRO(len(perm))` (monoidal.py:526, rigid.py:161)."""
        from discopy.rigid import PRO
        return PRO(n)

    def distinct(self, n, rng):
        raise NotImplementedError


class Monoidal(Cls):
    name = "monoidal"

    def __init__(self):
        from discopy import monoidal, cat
        self.D, self.m, self.cat = monoidal.Diagram, monoidal, cat

    def ty(self, spec):
        if spec and all(n == 1 and type(n) is int for n, _ in spec):
            return self.m.PRO(len(spec))           # a PRO object, as the default domain is
        return self.m.Ty(*[self.cat.Ob(n) for n, _ in spec])

    def default_ty(self, n):
        return self.m.PRO(n)

    def distinct(self, n, rng):
        return [(LETTERS[k], 0) for k in range(n)]


class Rigid(Cls):
    name = "rigid"

    def __init__(self):
        from discopy import rigid
        self.D, self.m = rigid.Diagram, rigid

    def ty(self, spec):
        if spec and all(n == 1 and type(n) is int and z == 0 for n, z in spec):
            return self.m.PRO(len(spec))           # a PRO object, as the default domain is
        return self.m.Ty(*[self.m.Ob(n, z) for n, z in spec])

    def distinct(self, n, rng):
        return [(LETTERS[k], rng.choice([0, 0, 1, -1, 2, -2])) for k in range(n)]


class TensorC(Cls):
    name = "tensor"
    evaluates = True

    def __init__(self):
        from discopy import tensor
        self.D, self.m = tensor.Diagram, tensor

    def ty(self, spec):
        return self.m.Dim(*[n for n, _ in spec])

    def distinct(self, n, rng):
        # pairwise distinct dimensions; evaluated only while the array stays small (n <= 4)
        return [(PRIMES[k], 0) for k in range(n)]

    def small(self, n):
        # dimensions 2, 3 alternating: small enough to evaluate up to 7 wires
        return [((2, 3)[k % 2], 0) for k in range(n)]

    def dims(self, spec):
        return [n for n, _ in spec]

    @staticmethod
    def dims_of(ty):
        return [int(x.name) if hasattr(x, "name") else int(x) for x in getattr(ty, "objects", ty)]

    def evaluate(self, d):
        # what tensor.Diagram.eval does (tensor.py:429); `permutation` may hand back a
        # rigid.Diagram, which has no `eval` of its own
        f = self.m.Functor(ob=lambda x: x, ar=lambda f: f.array)
        return f(d).array


_KIND = re.compile(r"^(Digit|Qudit)\((\d+)\)$")

# the names circuit.py gives its wires (circuit.py:105-128): Digit(2) is "bit", Qudit(2) "qubit"
CLASSICAL_WIRES = ["bit", "Digit(3)", "Digit(5)"]
QUANTUM_WIRES = ["qubit", "Qudit(3)", "Qudit(4)"]
SMALL_WIRES = ["bit", "Digit(3)", "qubit", "Qudit(3)"]


def wire_kind(name):
    """("c" | "q", dimension) of a circuit wire, from its name."""
    if name == "bit":
        return "c", 2
    if name == "qubit":
        return "q", 2
    m = _KIND.match(name)
    return ("c" if m.group(1) == "Digit" else "q"), int(m.group(2))


class CircuitC(Cls):
    name = "circuit"
    evaluates = True

    def __init__(self):
        from discopy.quantum import circuit
        self.D, self.m = circuit.Circuit, circuit

    def ty(self, spec):
        t = self.m.Ty()
        for n, _ in spec:
            kind, dim = wire_kind(n)
            t = t @ self.m.Ty(self.m.Digit(dim) if kind == "c" else self.m.Qudit(dim))
        return t

    def default_dom(self, n):
        return [("qubit", 0)] * n

    def default_ty(self, n):
        return self.m.qubit ** n

    def distinct(self, n, rng):
        # circuits have no pairwise distinct wire types beyond their dimensions: qubits only,
        # bits only, bits and qubits, and digits / qudits of DIFFERENT dimensions (a swap of two
        # different wire types is a mixed box, circuit.py:688, and is evaluated by CQMap.swap)
        mode = rng.random()
        if mode < 0.25:
            return [("qubit", 0)] * n
        if mode < 0.33:
            return [("bit", 0)] * n
        if mode < 0.5:
            return [(rng.choice(["qubit", "bit"]), 0) for _ in range(n)]
        if mode < 0.62:
            return [(rng.choice(QUANTUM_WIRES), 0) for _ in range(n)]
        if mode < 0.7:
            return [(rng.choice(CLASSICAL_WIRES), 0) for _ in range(n)]
        if mode < 0.9:
            return [(rng.choice(SMALL_WIRES), 0) for _ in range(n)]
        return [(rng.choice(CLASSICAL_WIRES + QUANTUM_WIRES), 0) for _ in range(n)]


class ZXC(Cls):
    name = "zx"

    def __init__(self):
        from discopy.quantum import zx
        from discopy.rigid import PRO
        self.D, self.PRO = zx.Diagram, PRO

    def ty(self, spec):
        return self.PRO(len(spec))

    def distinct(self, n, rng):
        return [(1, 0)] * n

    def swap(self, l, r):
        # zx.Diagram.swap accepts PRO types or plain ints on either side (zx.py:34-41): rotate
        # through the four calling conventions, they must all give the same diagram
        self._style = getattr(self, "_style", -1) + 1
        a, b = len(l), len(r)
        style = self._style % 4
        args = [(self.PRO(a), self.PRO(b)), (a, b), (a, self.PRO(b)), (self.PRO(a), b)][style]
        return self.D.swap(*args)


# --------------------------------------------------------------------------- the oracle

def follow_wires(d):
    """Independent wire follower on a real diagram (public fields only).

    Returns (positions, None) with positions[i] = output position of input wire i, or
    (None, reason) if the diagram is not made of adjacent swaps of atomic types."""
    from discopy import monoidal
    n = len(d.dom)
    scan = list(range(n))            # scan[k] = input wire now at position k
    types = [d.dom[k:k + 1] for k in range(n)]
    if len(d.boxes) != len(d.offsets):
        return None, "boxes and offsets differ in length"
    for k, (box, off) in enumerate(zip(d.boxes, d.offsets)):
        if not isinstance(box, monoidal.Swap):
            return None, "box %d is not a Swap" % k
        if len(box.dom) != 2 or len(box.cod) != 2:
            return None, "box %d is not a swap of two atomic types" % k
        if not isinstance(off, int) or off < 0 or off + 2 > n:
            return None, "offset %r of box %d outside the diagram" % (off, k)
        if box.dom != types[off] @ types[off + 1] or box.cod != types[off + 1] @ types[off]:
            return None, "box %d does not carry the types of the wires it crosses" % k
        scan[off], scan[off + 1] = scan[off + 1], scan[off]
        types[off], types[off + 1] = types[off + 1], types[off]
    pos = [None] * n
    for k, w in enumerate(scan):
        pos[w] = k
    for k in range(n):
        if d.cod[k:k + 1] != types[k]:
            return None, "codomain differs from the wires that arrive (position %d)" % k
    return pos, None


def perm_matrix(dims, perm):
    """Exact 0/1 array of shape dims + permuted dims: input wire k goes to position perm[k]."""
    import numpy
    n = len(dims)
    out_dims = [None] * n
    for k in range(n):
        out_dims[perm[k]] = dims[k]
    arr = numpy.zeros(tuple(dims) + tuple(out_dims), dtype=numpy.int64)
    for idx in numpy.ndindex(*dims) if n else [()]:
        out = [0] * n
        for k in range(n):
            out[perm[k]] = idx[k]
        arr[tuple(idx) + tuple(out)] = 1
    return arr


def exact_int_array(a):
    """The array as exact integers, or None if some entry is not an integer."""
    import numpy
    a = numpy.asarray(a)
    if numpy.iscomplexobj(a):
        if (a.imag != 0).any():
            return None
        a = a.real
    r = numpy.rint(a)
    if not (a == r).all():
        return None
    return r.astype(numpy.int64)


MAX_ENTRIES = 400000
MODEL_ENTRIES = 100000         # CQMap.swap is compared with the model up to this size


def evaluable(dom_spec):
    """A tensor diagram on these dimensions is evaluated while its array stays small."""
    size = 1
    for m, _ in dom_spec:
        size *= m
    return size * size <= MAX_ENTRIES


def dim_list(dim):
    """A discopy Dim as a list of ints."""
    return [int(x.name) for x in dim.objects]


def block_exchange(a, b, offset=0):
    """Positions of the wires of `left` (a of them) then `right` (b) after the swap: every wire
    of left, in order, to the right of every wire of right."""
    return [offset + b + i for i in range(a)] + [offset + i for i in range(b)]


def cq_layout(kinds, perm):
    """The classical-quantum reading of a wire permutation.  kinds[k] = ("c" | "q", dim) of input
    wire k, perm[k] its output position.  A CQMap keeps the classical wires once and the quantum
    wires twice, `classical @ quantum @ quantum` on either side (cqmap.py:102-118), each part in
    the order of the wires.  Returns (classical dom, quantum dom, classical cod, quantum cod,
    wire dimensions of the underlying domain, permutation of the underlying wires)."""
    n = len(kinds)
    cin = [k for k in range(n) if kinds[k][0] == "c"]
    qin = [k for k in range(n) if kinds[k][0] == "q"]
    cout = sorted(cin, key=lambda k: perm[k])
    qout = sorted(qin, key=lambda k: perm[k])
    dim = [d for _, d in kinds]
    vperm = [cout.index(k) for k in cin]
    vperm += [len(cin) + qout.index(k) for k in qin]
    vperm += [len(cin) + len(qin) + qout.index(k) for k in qin]
    return ([dim[k] for k in cin], [dim[k] for k in qin], [dim[k] for k in cout],
            [dim[k] for k in qout], [dim[k] for k in cin] + 2 * [dim[k] for k in qin], vperm)


def permuted(dims, perm):
    out = [None] * len(dims)
    for k, d in enumerate(dims):
        out[perm[k]] = d
    return out


def product(xs):
    out = 1
    for x in xs:
        out *= x
    return out


def array_failure(arr, dims, perm):
    """None if `arr` is the exact 0/1 tensor of shape dims + permuted dims that sends input wire
    k to position perm[k]; otherwise (signature head, text)."""
    exp = perm_matrix(dims, perm)
    got = exact_int_array(arr)
    if exp.ndim == 0 and got is not None and got.size == 1:
        got = got.reshape(())                      # no wire at all: a 1 x 1 identity
    if got is not None and got.shape != exp.shape and got.size == exp.size:
        return ("array_wire_dims", "evaluated array has axes %r, the requested permutation of "
                "wires of dimensions %r has axes %r" % (got.shape, dims, exp.shape))
    if got is None or got.shape != exp.shape or not (got == exp).all():
        text = "evaluated array (shape %r) is not the 0/1 matrix of the requested permutation " \
               "(shape %r)" % (getattr(arr, "shape", None), exp.shape)
        if got is not None and got.shape == exp.shape:
            bad = [tuple(int(x) for x in idx) for idx in zip(*(got != exp).nonzero())][:1]
            if bad:
                text += "; first differing entry at %r: %d, expected %d" % (
                    bad[0], got[bad[0]], exp[bad[0]])
        return ("array_not_permutation_matrix", text)
    return None


def cqmap_failure(v, cdom, qdom, ccod, qcod, udims, vperm):
    """The CQMap `v` must be the wire permutation `vperm` of its underlying wires `udims`:
    its types, the wire dimensions of its underlying tensor (the class documents
    `dom.classical @ dom.quantum ** 2 -> cod.classical @ cod.quantum ** 2`) and its entries."""
    got = (dim_list(v.dom.classical), dim_list(v.dom.quantum),
           dim_list(v.cod.classical), dim_list(v.cod.quantum))
    if got != (cdom, qdom, ccod, qcod):
        return ("cq_type", "the classical-quantum map has type C%r Q%r -> C%r Q%r, the wires "
                "requested give C%r Q%r -> C%r Q%r" % (got + (cdom, qdom, ccod, qcod)))
    ut = v.utensor
    uout = permuted(udims, vperm)
    if dim_list(ut.dom) != udims or dim_list(ut.cod) != uout:
        return ("cq_underlying_wire_dims", "the underlying tensor has wires %r -> %r; classical "
                "@ quantum @ quantum of the requested types is %r -> %r" % (
                    dim_list(ut.dom), dim_list(ut.cod), udims, uout))
    return array_failure(v.array, udims, vperm)


def evaluated_failure(v, kinds, perm):
    """The value `v` of an evaluated circuit of swaps on wires `kinds` must be the wire
    permutation `perm`, in the layout of the class that came back."""
    from discopy.quantum.cqmap import CQMap
    if isinstance(v, CQMap):
        return cqmap_failure(v, *cq_layout(kinds, perm))
    dims = [d for _, d in kinds]
    if dim_list(v.dom) != dims or dim_list(v.cod) != permuted(dims, perm):
        return ("tensor_wire_dims", "the evaluated tensor has type %r -> %r, the wires give "
                "%r -> %r" % (dim_list(v.dom), dim_list(v.cod), dims, permuted(dims, perm)))
    return array_failure(v.array, dims, perm)


def is_perm(p):
    """The request list is a permutation of range(len(p)) (ints only)."""
    return all(type(x) is int for x in p) and sorted(p) == list(range(len(p)))


def model_int(x):
    """How an entry of the request list is sent to the model (`List Int`): an int as itself; a
    hashable entry that equals no int (None, a str, a non-integral float, a tuple) as -1 — like
    -1 it is a member of no `range(n)`, which is all the code under test asks of an entry."""
    return x if type(x) is int else -1


def defect_tags(p, dl):
    """Names of the defects of a request (list, domain length | None), for the input counts:
    (perm defects, relation of the domain to the list, duplicates meet a domain of exactly the
    number of distinct values)."""
    ints = [x for x in p if type(x) is int]
    tags = []
    if len(set(p)) < len(p):
        tags.append("dup")
    if any(x >= len(p) for x in ints):
        tags.append("range")
    if any(x < 0 for x in ints):
        tags.append("neg")
    if len(ints) < len(p):
        tags.append("nonint")
    if dl is None:
        rel = "default"
    elif dl == len(p):
        rel = "len"
    else:
        rel = "len%+d" % max(-4, min(4, dl - len(p)))
    compact = dl is not None and dl != len(p) and dl == len(set(p))
    return "+".join(tags) or "genuine", rel, compact


def involutive(p):
    return all(p[p[i]] == i for i in range(len(p)))


# --------------------------------------------------------------------------- cases

def all_perms(n):
    return [list(p) for p in itertools.permutations(range(n))]


def malformed_perm(rng, n):
    """A request that is not a permutation of range(len(dom)) — (perm, dom length, why)."""
    kind = rng.choice(["dup", "range", "neg", "short_dom", "long_dom", "gap"])
    p = list(range(n))
    rng.shuffle(p)
    if kind == "dup" and n >= 2:
        p[rng.randrange(n)] = p[rng.randrange(n)]
        if is_perm(p):
            p[0] = p[-1]
        return p, n, kind
    if kind == "range" and n >= 1:
        p[rng.randrange(n)] = n + rng.randint(0, 2)
        return p, n, kind
    if kind == "neg" and n >= 1:
        p[rng.randrange(n)] = -rng.randint(1, n)
        return p, n, kind
    if kind == "gap" and n >= 1:
        return [x + 1 for x in p], n, kind
    if kind == "short_dom" and n >= 1:
        return p, n - rng.randint(1, n), kind
    return p, n + rng.randint(1, 2), "long_dom"


NONINT = [None, "a", "0", 0.5, (0,)]

# pinned witnesses of the combined region: duplicates whose values are exactly range(k) with an
# explicitly given domain of length k (each defect alone is a different, separately refused case)
PINNED_COMBOS = [([0, 1, 1], 2), ([1, 0, 0], 2), ([0, 0], 1), ([2, 0, 1, 2, 1, 0], 3),
                 ([0, 1, 2, 0], 3), ([1, 1, 1], 1), ([0, 1, 1], 3), ([0, 2, 2], 2),
                 ([1, 0], 3), ([1, 0], 1), ([0, 1, 3], 3), ([0, 1, 3], 4), ([-1, 0], 1),
                 ([0], 0), ([], 1), ([0, None], 1), ([0, "1"], 2)]


def surjection(rng, n, k):
    """A list of length n whose set of values is exactly range(k), 1 <= k <= n."""
    p = list(range(k)) + [rng.randrange(k) for _ in range(n - k)]
    rng.shuffle(p)
    return p


DEFECTS = ["dup", "range", "neg", "nonint", "drop", "append"]


def defective_perm(rng, n, kinds):
    """A permutation of range(n) with the named defects applied in turn: duplicate an entry,
    push an entry out of range, make one negative, replace one by a non-int, drop an entry (the
    rest then skips a value or is a shorter permutation), insert a further entry."""
    p = list(range(n))
    rng.shuffle(p)
    for kind in kinds:
        m = len(p)
        if kind == "dup" and m >= 2:
            i, j = rng.sample(range(m), 2)
            p[i] = p[j]
        elif kind == "range" and m >= 1:
            p[rng.randrange(m)] = m + rng.randint(0, 2)
        elif kind == "neg" and m >= 1:
            p[rng.randrange(m)] = -rng.randint(1, m)
        elif kind == "nonint" and m >= 1:
            p[rng.randrange(m)] = rng.choice(NONINT)
        elif kind == "drop" and m >= 1:
            del p[rng.randrange(m)]
        else:
            p.insert(rng.randrange(m + 1), rng.randint(0, m))
    return p


def dom_lengths(p):
    """Every interesting length of an explicitly given domain for the list p, and None (omitted):
    len(p), len(p) -3..+3, the number of distinct values and its neighbours, 0."""
    n, d = len(p), len(set(p))
    out = [None]
    for x in [n, d, d - 1, d + 1, 0] + [n + e for e in (-3, -2, -1, 1, 2, 3)]:
        if x >= 0 and x not in out:
            out.append(x)
    return out


def combo_requests(cls, rng, quick):
    """Requests whose list and domain are defective in COMBINATION (and the valid cells of the
    same grid): list x domain length x calling convention (permutation with explicit / omitted /
    PRO domain, permute on an identity, permute on a box)."""
    reqs = []
    k = 0

    def cell(p, dl):
        nonlocal k
        k += 1
        if dl is None:
            reqs.append(("perm", list(p), None))
            return
        dom = cls.distinct(dl, rng)
        if cls.name in ("monoidal", "rigid") and k % 3 == 0:
            dom = [(1, 0)] * dl                     # an explicit PRO(dl)
        reqs.append(("perm", list(p), dom))
        reqs.append(("permute", list(p), dom))
        if cls.name in ("monoidal", "rigid") and k % 4 == 0:
            cod = list(dom) if k % 8 else list(reversed(dom))
            reqs.append(("permute_box", list(p), dom, cod))

    # every list over range(n) of length n <= 3 (thorough 4) with every domain length 0..n+2
    for n in range(0, (3 if quick else 4) + 1):
        for p in itertools.product(range(n), repeat=n):
            for dl in [None] + list(range(0, n + 3)):
                cell(p, dl)
    for p, dl in PINNED_COMBOS:
        cell(p, dl)
    # seeded longer lists: every single defect and every unordered pair of defects (thorough:
    # ordered pairs and seeded triples too), lists whose values are exactly range(k), k < n —
    # each with every interesting domain length
    combos = [(a,) for a in DEFECTS] + list(itertools.combinations_with_replacement(DEFECTS, 2))
    if not quick:
        combos += list(itertools.permutations(DEFECTS, 2))
        combos += [tuple(rng.choice(DEFECTS) for _ in range(3)) for _ in range(60)]
    lists = [defective_perm(rng, rng.randint(3, 8), kinds) for kinds in combos]
    for _ in range(8 if quick else 80):
        n = rng.randint(3, 8)
        lists.append(surjection(rng, n, rng.randint(1, n - 1)))
    for p in lists:
        for dl in dom_lengths(p):
            cell(p, dl)
    return reqs


def build_cases(tier, rng, classes):
    """List of (class name, request).  Requests:
         ("swap", l, r) | ("perm", p, dom | None [, share key]) | ("permute", p, dom)
         | ("permute_box", p, dom, cod)"""
    quick = tier == "quick"
    cases = []
    max_exh = 5 if quick else 7
    for cls in classes:
        crng = random.Random(rng.getrandbits(64))
        # swaps: every pair of widths up to 5 (thorough: 6)
        top = 5 if quick else 6
        for a in range(top + 1):
            for b in range(top + 1):
                spec = cls.distinct(a + b, crng)
                cases.append((cls.name, ("swap", spec[:a], spec[a:])))
        # permutations: exhaustive for small lengths
        for n in range(max_exh + 1):
            perms = all_perms(n)
            if n == 7:
                # the full 5040 for the classes compared field by field at low cost,
                # a seeded third of them where each case also evaluates a (CQ) array
                if cls.name == "circuit":
                    perms = crng.sample(perms, 1680)
            for p in perms:
                cases.append((cls.name, ("perm", p, cls.distinct(n, crng))))
        # tensor: beyond 4 wires pairwise distinct dimensions are too large to evaluate, so a
        # seeded sample of the same permutations is also run on dimensions 2/3 and evaluated
        if cls.name == "tensor":
            for n in range(5, max_exh + 1):
                perms = all_perms(n)
                for p in crng.sample(perms, min(len(perms), 40 if quick else 150)):
                    cases.append((cls.name, ("perm", p, cls.small(n))))
            for a, b in [(2, 3), (3, 2), (1, 4), (3, 3), (2, 4)]:
                spec = cls.small(a + b)
                cases.append((cls.name, ("swap", spec[:a], spec[a:])))
        # circuit: wires of DIFFERENT kinds and dimensions, systematically — every ordered pair
        # of wire kinds swapped, every pair of widths <= 2 (thorough 3) on seeded kinds, every
        # permutation of 3 wires (thorough: 4, a seeded sample) on seeded kinds that are not
        # all alike; small enough for both evaluations
        if cls.name == "circuit":
            pool = CLASSICAL_WIRES + QUANTUM_WIRES
            for a in pool:
                for b in pool:
                    cases.append((cls.name, ("swap", [(a, 0)], [(b, 0)])))
            top2 = 2 if quick else 3
            for a in range(top2 + 1):
                for b in range(top2 + 1):
                    for _ in range(2 if quick else 4):
                        spec = [(crng.choice(SMALL_WIRES), 0) for _ in range(a + b)]
                        cases.append((cls.name, ("swap", spec[:a], spec[a:])))
            for n, count in ((3, 3 if quick else 12), (4, 0 if quick else 3)):
                for p in all_perms(n):
                    for _ in range(count if n == 3 or not involutive(p) else 0):
                        spec = [(crng.choice(SMALL_WIRES), 0) for _ in range(n)]
                        if len(set(spec)) == 1:
                            spec[crng.randrange(n)] = (crng.choice(
                                [w for w in SMALL_WIRES if w != spec[0][0]]), 0)
                        cases.append((cls.name, ("perm", p, spec)))
        # random longer ones
        for _ in range(12 if quick else 150):
            n = crng.randint(max_exh + 1, 10)
            p = list(range(n))
            crng.shuffle(p)
            cases.append((cls.name, ("perm", p, cls.distinct(n, crng))))
        # default domain
        for _ in range(6 if quick else 40):
            n = crng.randint(0, 6)
            p = list(range(n))
            crng.shuffle(p)
            cases.append((cls.name, ("perm", p, None)))
        # permute: every permutation of 3 wires, a seeded sample of the non-involutive ones of
        # 4 and 5 wires (where i -> p[i] and its inverse differ), and random ones
        for p in all_perms(3):
            cases.append((cls.name, ("permute", p, cls.distinct(3, crng))))
        for n in (4, 5):
            pool = [p for p in all_perms(n) if not involutive(p)]
            for p in crng.sample(pool, min(len(pool), 4 if quick else 30)):
                cases.append((cls.name, ("permute", p, cls.distinct(n, crng))))
        for _ in range(6 if quick else 100):
            n = crng.randint(0, 6)
            p = list(range(n))
            crng.shuffle(p)
            cases.append((cls.name, ("permute", p, cls.distinct(n, crng))))
        # permute on a one-box diagram f : dom -> cod (the permutation is built on f.dom,
        # monoidal.py:564): cod == dom, cod a reordering of dom, cod of another length
        if cls.name in ("monoidal", "rigid"):
            for k in range(9 if quick else 60):
                n = crng.randint(1, 5)
                p = list(range(n))
                crng.shuffle(p)
                if k % 3 == 0:                     # cod == dom: non-involutive on >= 3 wires
                    n = crng.randint(3, 5)
                    p = crng.choice([q for q in all_perms(n) if not involutive(q)])
                dom = cls.distinct(n, crng)
                cod = list(dom)
                if k % 3 == 1:
                    crng.shuffle(cod)
                elif k % 3 == 2:
                    cod = cod[:crng.randint(0, n - 1)]
                cases.append((cls.name, ("permute_box", p, dom, cod)))
        # malformed: ~10 % of this class's cases
        n_mal = max(25, len([c for c in cases if c[0] == cls.name]) // 10)
        if not quick:
            n_mal = min(n_mal, 600)
        for k in range(n_mal):
            n = crng.randint(0, 6)
            p, dl, why = malformed_perm(crng, n)
            dom = cls.distinct(max(dl, 0), crng)
            op = "permute" if k % 5 == 4 else "perm"
            if op == "perm" and k % 7 == 6 and why in ("dup", "range", "neg", "gap"):
                dom = None                         # non-permutation with the default domain
            cases.append((cls.name, (op, p, dom)))
        # malformed in combination: duplicates x domain length, out of range x wrong length, ...
        for req in combo_requests(cls, crng, quick):
            cases.append((cls.name, req))
    # one list object, two requests: the same Python list is handed to `permutation` of one
    # class and then, untouched by the harness, to `permutation` of the next class (and once
    # more to the first class) on other domains.  Each request is checked like any other
    # against the permutation the caller wrote down.
    prng = random.Random(rng.getrandbits(64))
    for ci, cls in enumerate(classes):
        other = classes[(ci + 1) % len(classes)]
        for k in range(10 if quick else 120):
            n = prng.randint(3, 6) if k % 5 else prng.randint(0, 2)
            pool_ok = n >= 3
            p = list(range(n))
            prng.shuffle(p)
            while pool_ok and involutive(p):
                prng.shuffle(p)
            share = "shared-%s-%d" % (cls.name, k)
            cases.append((cls.name, ("perm", p, cls.distinct(n, prng), share)))
            cases.append((other.name, ("perm", p, other.distinct(n, prng), share)))
            dom3 = list(reversed(cls.distinct(n, prng)))
            cases.append((cls.name, ("perm", p, dom3 if k % 2 else None, share)))
    return cases


def model_lines(cls, req):
    """(eval line, wireperm line) for the Lean driver."""
    op = req[0]
    if op == "swap":
        e = tok_expr(("swap", req[1], req[2]))
        return "eval " + e, "wireperm " + e
    p, dom = [model_int(x) for x in req[1]], req[2]
    if dom is None:
        dom = cls.default_dom(len(p))
    if op == "perm":
        e = tok_expr(("perm", p, dom))
        return "eval " + e, "wireperm " + e
    # permute on the identity: the model's `permute` command, and the wires of `perm`
    ptoks = " ".join([str(len(p))] + [str(x) for x in p])
    if op == "permute_box":
        box = dict(kind="g", name="f", dom=dom, cod=req[3], dagger=False, data=None)
        return ("permute %s box %s" % (ptoks, tok_box(box)),
                "wireperm " + tok_expr(("perm", p, dom)))
    return ("permute %s id %s" % (ptoks, tok_ty(dom)),
            "wireperm " + tok_expr(("perm", p, dom)))


def caller_list(req, shared):
    """The list object the caller passes for this request: a fresh copy of the requested
    permutation, or — for requests that name a share key — the one object created for the
    first request of the group and reused, as the library left it, by the later ones."""
    if len(req) > 3 and req[0] == "perm":
        return shared.setdefault(req[3], list(req[1]))
    return list(req[1])


def run_real(cls, req, arg=None):
    op = req[0]
    if op == "swap":
        return cls.swap(req[1], req[2])
    if op == "perm":
        return cls.perm(list(req[1]) if arg is None else arg, req[2])
    if op == "permute_box":
        return cls.permute_box(req[1], req[2], req[3])
    return cls.permute(req[1], req[2])


# --------------------------------------------------------------------------- the check

def run(tier, seed, replay=None):
    rep = Report(PROP, tier, seed)
    quick = tier == "quick"
    rep.rule = ("Diagram.swap for every pair of widths <= %d, Diagram.permutation for EVERY "
                "permutation of length <= %d (thorough, length 7, circuit: a seeded third) "
                "plus random lengths <= 10, with pairwise distinct wire types where the class has "
                "them (monoidal, rigid, tensor), in each of monoidal/rigid/tensor/circuit/zx; "
                "~10%% singly malformed requests, plus a refusal grid of requests defective in "
                "COMBINATION: every list over range(n) of length n <= %d with every domain length "
                "0..n+2 and the omitted domain, and seeded lists of length 3-8 with every single "
                "and every pair of defects (duplicate, out of range, negative, non-int entry, entry "
                "dropped, entry inserted) or with values exactly range(k), k < n, each with domain "
                "lengths len, len-3..len+3, #distinct-1..#distinct+1, 0 and omitted, through "
                "permutation() (Ty / PRO / omitted domain), permute() on an identity and on a box; "
                "every permutation() call receives the caller's list "
                "object itself, which must read the same afterwards, and groups of three requests "
                "(two classes, three domains) share ONE list object; permute() on all permutations "
                "of 3 wires and non-involutive ones of 4-5 wires; circuit wires are bits, Digit(3), "
                "Digit(5), qubits, Qudit(3), Qudit(4): qubits only / bits only / bits and qubits / "
                "wires of different dimensions, every ordered pair of wire kinds swapped, every pair "
                "of widths <= %d and every permutation of 3 wires on seeded kinds not all alike, each "
                "evaluated with eval() and eval(mixed=True); CQMap.swap(left, right) directly on "
                "every combination of lengths 0..2 of the classical and quantum part of either side "
                "(78 of the 81; the rest exceeds 1600000 entries) with seeded dimensions 2..5, seeded lengths up to %d and pinned witnesses, types "
                "built as CQ(c, q) / C(c) @ Q(q) / Q(q) @ C(c) / wire by wire; non-trivial = a "
                "non-involutive permutation of length >= 3, a swap of widths >= 1 with >= 3 wires, or "
                "a CQMap.swap whose quantum parts are non-empty and differ; distinct by (class, request)"
                % ((5, 5, 3, 2, 3) if quick else (6, 7, 4, 3, 4)))
    rep.partial = []
    rep.assumptions = [
        "perm is a Python list; its entries are ints, or (refusal grid only) hashable values that "
        "equal no int (None, str, 0.5, a tuple), which are sent to the model as -1: like -1 they "
        "lie in no range(n); bools, integral floats, unhashable entries and tuples as perm are "
        "outside the model",
        "the per-class factories differ from monoidal.Diagram.swap/permutation only in "
        "ar_factory/swap_factory (tied by the field-by-field comparison of every class)",
        "array evaluation of tensor diagrams and Tensor.swap is an oracle-only clause (numpy "
        "moveaxis is modelled under C08/C09); arrays beyond 400000 entries are not evaluated, "
        "classical-quantum evaluations of more than 4 layers are thinned to every second (thorough: "
        "fourth) one, "
        "and eval(mixed=True) of a circuit that is mixed anyway is the eval() already made",
        "CQMap.swap and the evaluation of circuits of swaps are compared with the model "
        "(Model/CQ.lean; cq_swap_spec) while the model's cost fits the budget (cqexpr swap up to "
        "100000 entries; cqeval up to the cost budget of the tier), and with the harness's own "
        "permutation tensor up to 1600000 entries",
        "the wire dimensions of digits and qudits are >= 2 (Dim drops wires of dimension 1)"]
    rep.lean = lean_obligations(PROP, thorough=not quick)
    rng = random.Random(seed)
    classes = [Monoidal(), Rigid(), TensorC(), CircuitC(), ZXC()]
    by_name = {c.name: c for c in classes}
    cases = build_cases(tier, rng, classes)
    drv = Driver()
    shared = {}
    pending = []
    import sys
    import time
    t0 = [time.time()]

    def lap(what):
        if os.environ.get("VERIF_TIMING"):
            sys.stderr.write("[c10] %-12s %.1fs\n" % (what, time.time() - t0[0]))
        t0[0] = time.time()
    try:
        lines = []
        for cname, req in cases:
            a, b = model_lines(by_name[cname], req)
            lines += [a, b]
        answers = drv.ask_many(lines)
        lap("model")
        for k, (cname, req) in enumerate(cases):
            cls = by_name[cname]
            model_eval, model_wires = answers[2 * k], answers[2 * k + 1]
            check_case(rep, cls, req, lines[2 * k], model_eval, model_wires, shared, pending)
        lap("cases")
        cq_eval_stream(rep, drv, pending, 6e6 if quick else 6e7)
        lap("cq-eval")
        cq_swap_stream(rep, drv, random.Random(rng.getrandbits(64)), quick)
        lap("cq-swap")
        bare_swap_stream(rep, random.Random(rng.getrandbits(64)), quick)
        lap("bare-swap")
    finally:
        drv.close()
    return rep.finish()



# --------------------------------------------------------------------------- bare Swap boxes

IMAGES = [2, 3, 1, (2,), (3,), (5,), (), (2, 3), (3, 2), (2, 2), (5, 2), (2, 3, 2), (3, 3)]


def bare_swap_stream(rep, rng, quick):
    """The tensor a tensor.Functor / `.eval()` assigns to a Swap BOX OBJECT itself -- `F(Swap(x, y))`,
    `tensor.Swap(l, r).eval()`, `F(diagram.boxes[i])`, `diagram.boxes[i].eval()` for the boxes of
    Diagram.swap / Diagram.permutation in the rigid, tensor and circuit classes -- has domain
    F(left) @ F(right), codomain F(right) @ F(left) and is the exact 0/1 tensor that moves the wires of
    F(left), in order, to the right of those of F(right); the same as the one-box diagrams `Id() @ box`
    and `Diagram(dom, cod, [box], [0])`.  Images of the two wires DIFFER in dimension and in width (ints,
    Dim(1), multi-wire Dims).  Oracle only (the arrays: numpy moveaxis is modelled under C08/C09)."""
    from discopy import rigid, monoidal, tensor
    from discopy.tensor import Dim, Tensor

    def dims(v):
        return [x for x in ([v] if isinstance(v, int) else list(v)) if x != 1]

    def check(sig, case, thunk, left, right):
        rep.count("bare_swap:" + sig)
        try:
            t = thunk()
        except Exception as e:
            rep.fail("bare_swap_raised:" + sig, case, repr(e)[:300])
            return
        if not isinstance(t, Tensor):
            rep.fail("bare_swap_not_a_tensor:" + sig, case, "the result is %r" % (t,))
            return
        want_dom, want_cod = left + right, right + left
        if dim_list(t.dom) != want_dom or dim_list(t.cod) != want_cod:
            rep.fail("bare_swap_type:" + sig, case, "the tensor of the swap box has type %r -> %r; "
                     "F(left) @ F(right) -> F(right) @ F(left) is %r -> %r" % (
                         dim_list(t.dom), dim_list(t.cod), want_dom, want_cod))
            return
        why = array_failure(t.array, want_dom, block_exchange(len(left), len(right)))
        if why is not None:
            rep.fail("bare_swap_" + why[0] + ":" + sig, case, why[1])

    def all_forms(sig, case, box, F, Id0, D, left, right, evals):
        nontrivial = left != right and len(left) + len(right) >= 2
        rep.case("bare_swap|%s|%r" % (sig, sorted(case.items())), nontrivial)
        rep.count("bare_swap:images:%s" % ("differ" if left != right else "equal"))
        rep.count("bare_swap:image_widths:%d_%d" % (min(len(left), 3), min(len(right), 3)))
        check(sig + ":functor(box)", case, lambda: F(box), left, right)
        if evals:
            check(sig + ":box.eval()", case, lambda: box.eval(), left, right)
        check(sig + ":functor(Id() @ box)", case, lambda: F(Id0 @ box), left, right)
        check(sig + ":functor(Diagram(dom, cod, [box], [0]))", case,
              lambda: F(D(box.dom, box.cod, [box], [0])), left, right)

    # ---- rigid (and monoidal) Swap boxes under tensor.Functor(ob, ar={}) with different images
    pairs = [(a, b) for a in IMAGES for b in IMAGES]
    rng.shuffle(pairs)
    for fx, fy in pairs[:40 if quick else len(pairs)]:
        zx, zy = rng.choice([0, 0, 1, -1, 2]), rng.choice([0, 0, 1, -1])
        x, y = rigid.Ty(rigid.Ob("x", zx)), rigid.Ty(rigid.Ob("y", zy))
        img = lambda v: v if isinstance(v, int) else Dim(*v)  # noqa: E731
        obd = {rigid.Ty("x"): img(fx), rigid.Ty("y"): img(fy)}
        style = rng.choice(["dict", "callable"])
        F = tensor.Functor(obd if style == "dict" else (lambda t: obd[t]), {})
        case = dict(cls="rigid", ob={"x": fx, "y": fy}, z=(zx, zy), ob_style=style)
        left, right = dims(fx), dims(fy)
        all_forms("rigid", dict(case, box="rigid.Swap(x, y)"), rigid.Swap(x, y), F,
                  rigid.Id(rigid.Ty()), rigid.Diagram, left, right, False)
        if rng.random() < 0.5:
            all_forms("rigid", dict(case, box="rigid.Swap(y, x)"), rigid.Swap(y, x), F,
                      rigid.Id(rigid.Ty()), rigid.Diagram, right, left, False)
        # the boxes of a composite swap, each alone
        a, b = rng.choice([(x @ y, y), (x, y @ x), (x @ y, x @ x)])
        try:
            d = rigid.Diagram.swap(a, b)
            for i, box in enumerate(d.boxes[:4]):
                bl = [w for o in box.dom[:1] for w in dims({"x": fx, "y": fy}[o.name])]
                br = [w for o in box.dom[1:] for w in dims({"x": fx, "y": fy}[o.name])]
                check("rigid:functor(diagram.boxes[i])", dict(case, diagram="swap(%s, %s)" % (a, b),
                                                               index=i), lambda box=box: F(box), bl, br)
        except Exception as e:
            rep.fail("bare_swap_raised:rigid:diagram", dict(case, diagram="swap(%s, %s)" % (a, b)),
                     repr(e)[:300])
        if zx == 0 and zy == 0 and rng.random() < 0.4:
            mx, my = monoidal.Ty("x"), monoidal.Ty("y")
            check("monoidal:functor(box)", dict(case, box="monoidal.Swap(x, y)"),
                  lambda: F(monoidal.Swap(mx, my)), left, right)
    # ---- tensor.Swap boxes: eval and the identity-on-arrays functor
    Fid = tensor.Functor(ob=lambda x: x, ar=lambda f: f.array)
    ds = [2, 3, 4, 5, 7]
    tp = [(a, b) for a in ds for b in ds]
    rng.shuffle(tp)
    for a, b in tp[:12 if quick else len(tp)]:
        case = dict(cls="tensor", left=a, right=b)
        all_forms("tensor", dict(case, box="tensor.Swap(Dim(a), Dim(b))"), tensor.Swap(Dim(a), Dim(b)),
                  Fid, tensor.Id(Dim(1)), tensor.Diagram, [a], [b], True)
    for _ in range(8 if quick else 60):
        n = rng.randint(2, 4)
        dom = [rng.choice([2, 3, 5]) for _ in range(n)]
        if rng.random() < 0.5:
            k = rng.randint(1, n - 1)
            what = "swap(Dim%r, Dim%r)" % (tuple(dom[:k]), tuple(dom[k:]))
            d = tensor.Diagram.swap(Dim(*dom[:k]), Dim(*dom[k:]))
        else:
            perm = list(range(n))
            rng.shuffle(perm)
            what = "permutation(%r, Dim%r)" % (perm, tuple(dom))
            d = tensor.Diagram.permutation(perm, Dim(*dom))
        for i, box in enumerate(d.boxes[:5]):
            case = dict(cls="tensor", diagram=what, index=i)
            bl, br = dim_list(box.dom[:1]), dim_list(box.dom[1:])
            rep.case("bare_swap|tensor|%s|%d" % (what, i), bl != br)
            check("tensor:diagram.boxes[i].eval()", case,
                  (lambda box=box: box.eval()) if hasattr(box, "eval") else (lambda box=box: Fid(box)),
                  bl, br)
            check("tensor:functor(diagram.boxes[i])", case, lambda box=box: Fid(box), bl, br)
    # ---- circuit Swap boxes of wires of different kinds / dimensions, alone
    cls = CircuitC()
    wires = list(SMALL_WIRES)
    cp = [(a, b) for a in wires for b in wires]
    rng.shuffle(cp)
    for a, b in cp[:5 if quick else len(cp)]:
        kinds = [wire_kind(a), wire_kind(b)]
        case = dict(cls="circuit", left=a, right=b)
        try:
            d = cls.swap([(a, 0)], [(b, 0)])
            box = d.boxes[0]
            rep.count("bare_swap:circuit:diagram.boxes[0].eval()")
            rep.case("bare_swap|circuit|%s|%s" % (a, b), a != b)
            why = evaluated_failure(box.eval(), kinds, [1, 0])
            if why is not None:
                rep.fail("bare_swap_" + why[0] + ":circuit", case, why[1])
        except Exception as e:
            rep.fail("bare_swap_raised:circuit", case, repr(e)[:300])

# --------------------------------------------------------------------------- evaluation targets

def cq_eval_stream(rep, drv, pending, budget):
    """Correspondence `cq-eval`: the value of each evaluated circuit of swaps against the Lean
    model's evaluation of the same circuit (Model/CQ.lean `Circuit.eval`, which sends a Swap box
    to `CQMap.swap` / `Mat.swap` as circuit.py:251 and monoidal.py:836 do), while the model's
    cost (cubic in the size of the underlying index) fits the budget."""
    import cqsem
    asks, meta, spent, seen = [], [], 0.0, set()
    costed = []
    for k, (how, d, v, case) in enumerate(pending):
        cost = cqsem.model_cost(d) if type(v).__name__ == "CQMap" else plain_cost(d)
        alike = len(set(x.dim for x in d.dom.objects)) <= 1
        costed.append((alike, cost, k))
    # wires of different dimensions first, cheap before dear: the budget then reaches many cases
    for alike, cost, k in sorted(costed):
        how, d, v, case = pending[k]
        line, why = cqsem.tok_circuit(d)
        if line is None:
            rep.count("cq_eval_model_skipped:" + why)
            continue
        ask = "cqeval %s %s" % (how, line)
        if ask in seen:
            continue
        if cost > budget / 4 or spent + cost > budget:
            rep.count("cq_eval_model_skipped:cost")
            continue
        spent += cost
        seen.add(ask)
        asks.append(ask)
        meta.append((v, case))
    answers = drv.ask_many(asks)
    for ask, (v, case), model in zip(asks, meta, answers):
        try:
            verdict = compare_with_model(cqsem.ans_cq_value(v), model)
        except Exception as e:
            rep.fail("cq_eval_unreadable_value", case, repr(e)[:300])
            continue
        rep.count("model_answers:cq-eval:" + verdict)
        rep.count("cq_eval_compared:" + ask.split(" ")[1] + ":" + type(v).__name__)
        if verdict == "differ":
            real = cqsem.ans_cq_value(v)
            rep.disagree("cq-eval", dict(case, request=ask[:400]),
                         (real.tokens() or real.header + " <floats>")[:400], model[:400])


def compare_with_model(real, model):
    """cqsem.compare_answer, with a fast path for arrays of exact integers (every array of this
    check should be one): 'exact' | 'numeric' | 'differ'."""
    import cqsem
    ints = exact_int_array(real.entries)
    if ints is None:
        return cqsem.compare_answer(real, model)
    flat = ints.reshape(-1).tolist()
    lut = {k: "%d,0,0,0/0" % k for k in set(flat)}
    toks = " ".join([real.header, str(len(flat))] + [lut[x] for x in flat])
    return "exact" if toks == model else "differ"


def plain_cost(d):
    """Rough number of scalar multiplications of the model's plain (tensor) evaluation."""
    import cqsem
    size = cqsem.ty_size(d.dom)
    return float(len(d.boxes)) * (size + 8) * size * size


def cq_types(rng, quick):
    """Pairs of classical-quantum types (lc, lq, rc, rq) — lists of wire dimensions of the
    classical and the quantum part of left and right: every combination of the four lengths in
    0..2 (but the 3 of the 81 whose tensor exceeds 1600000 entries even on wires of dimension 2:
    two quantum wires on either side with three or four classical wires) with seeded dimensions
    from 2..5, seeded longer ones, pinned witnesses."""
    out, dropped = [], []

    def dims(n, pool):
        return [rng.choice(pool) for _ in range(n)]

    def fits(t, limit):
        lc, lq, rc, rq = t
        return (product(lc + rc) * product(lq + rq) ** 2) ** 2 <= limit

    def add(a, b, c, d):
        # two in three small enough for the comparison with the model, the others up to the
        # size the harness's own permutation tensor handles
        first = 4 * MAX_ENTRIES if len(out) % 3 == 0 else MODEL_ENTRIES
        for limit in (first, 4 * MAX_ENTRIES):
            for pool in ([2, 3, 4, 5], [2, 3, 4, 5], [2, 3], [2, 3], [2, 3], [2]):
                for _ in range(4):
                    t = (dims(a, pool), dims(b, pool), dims(c, pool), dims(d, pool))
                    if fits(t, limit):
                        out.append(t)
                        return
        dropped.append((a, b, c, d))                # too large even on wires of dimension 2

    top = 2
    for a, b, c, d in itertools.product(range(top + 1), repeat=4):
        for _ in range(1 if quick else 3):
            add(a, b, c, d)
    for _ in range(30 if quick else 400):
        add(*[rng.choice([0, 1, 1, 2, 3, 3 if quick else 4]) for _ in range(4)])
    # quantum parts of equal dimensions and different lengths (right shape, wrong wires if the
    # conjugate copy is permuted differently), of different dimensions, empty sides
    out += [([], [2], [], [2, 2]), ([], [2, 2, 2], [], [2]), ([], [3], [], [2]),
            ([2], [3], [3, 2], [2, 2]), ([], [], [], [2, 3]), ([], [2, 3], [], []),
            ([2], [], [], [3]), ([], [2], [], [2]), ([2], [], [3], []), ([], [], [], []),
            ([], [3, 3], [], [3]), ([2, 3], [], [3], []), ([], [2, 3], [], [3, 2])]
    return out, dropped


def cq_type(style, c, q):
    """The CQ type with classical wires c and quantum wires q, through one of the constructors
    the class offers (cqmap.py:27-99): CQ(c, q), C(c) @ Q(q), Q(q) @ C(c), wire by wire."""
    from discopy.tensor import Dim
    from discopy.quantum.cqmap import CQ, C, Q
    if style == 0:
        return CQ(Dim(*c), Dim(*q))
    if style == 1:
        return C(Dim(*c)) @ Q(Dim(*q))
    if style == 2:
        return Q(Dim(*q)) @ C(Dim(*c))
    if not c and q:
        return Q(Dim(*q))
    if not q and c:
        return C(Dim(*c))
    return CQ().tensor(*([C(Dim(x)) for x in c] + [Q(Dim(x)) for x in q]))


def cq_swap_stream(rep, drv, rng, quick):
    """`CQMap.swap(left, right)` itself (cqmap.py:188-193), the value every Swap box of a mixed
    circuit is sent to.  Oracle: type left @ right -> right @ left; underlying tensor on
    classical @ quantum @ quantum whose wires are block-exchanged in each of the three parts;
    entries the 0/1 permutation tensor.  Correspondence `cq-swap`: the model's `CQMap.swap`."""
    import cqsem
    from discopy.quantum.cqmap import CQMap
    cases, dropped = cq_types(rng, quick)
    rep.count("cq_swap_lengths_too_large", len(dropped))
    asks, meta = [], []
    for k, (lc, lq, rc, rq) in enumerate(cases):
        style = k % 4
        case = dict(cls="cqmap", request="CQMap.swap(left, right)",
                    left="C%r Q%r" % (lc, lq), right="C%r Q%r" % (rc, rq), constructor=style)
        udims = lc + rc + 2 * (lq + rq)
        vperm = block_exchange(len(lc), len(rc))
        vperm += block_exchange(len(lq), len(rq), len(lc + rc))
        vperm += block_exchange(len(lq), len(rq), len(lc + rc) + len(lq + rq))
        rel = ("equal" if lq == rq else "different_length" if len(lq) != len(rq)
               else "different_dimensions")
        rep.count("cq_swap")
        rep.count("cq_swap_quantum_parts:" + rel)
        rep.count("cq_swap_lengths:c%dq%d_x_c%dq%d" % (len(lc), len(lq), len(rc), len(rq)))
        if len(set(udims)) > 1:
            rep.count("cq_swap_wires_of_different_dimensions")
        rep.case("cqmap swap %r %r %r %r %d" % (lc, lq, rc, rq, style),
                 lq != rq and bool(lq) and bool(rq))
        try:
            left, right = cq_type(style, lc, lq), cq_type(style, rc, rq)
            case["left"], case["right"] = repr(left), repr(right)
            v = CQMap.swap(left, right)
            why = cqmap_failure(v, lc + rc, lq + rq, rc + lc, rq + lq, udims, vperm)
        except Exception as e:
            rep.fail("evaluation_raised:CQMap.swap", case, repr(e)[:300])
            continue
        if why is not None:
            rep.fail(why[0] + ":CQMap.swap", case, why[1])
        if product(udims) ** 2 <= MODEL_ENTRIES:
            asks.append("cqexpr swap %s %s %s %s" % (
                cqsem.tok_dims(lc), cqsem.tok_dims(lq), cqsem.tok_dims(rc), cqsem.tok_dims(rq)))
            meta.append((v, case))
        else:
            rep.count("cq_swap_model_skipped:size")
    answers = drv.ask_many(asks)
    for ask, (v, case), model in zip(asks, meta, answers):
        try:
            real = cqsem.ans_cqmap(v)
            verdict = compare_with_model(real, model)
        except Exception as e:
            rep.fail("cq_swap_unreadable_value", case, repr(e)[:300])
            continue
        rep.count("model_answers:cq-swap:" + verdict)
        if verdict == "differ":
            rep.disagree("cq-swap", dict(case, request=ask),
                         (real.tokens() or real.header + " <floats>")[:400], model[:400])


def check_case(rep, cls, req, line, model_eval, model_wires, shared=None, pending=None):
    op = req[0]
    case = dict(cls=cls.name, request=repr(req))
    key = cls.name + " " + line
    d, exc = None, None
    arg, reused = None, False
    if op == "perm":
        shared = {} if shared is None else shared
        reused = len(req) > 3 and req[3] in shared
        arg = caller_list(req, shared)
        if reused:
            rep.count("perm_list_object_reused")
            case["note"] = ("the caller's list object was already passed to an earlier "
                            "permutation() call; it now reads %r" % (arg,))
    if op != "swap" and req[2] is not None:
        try:
            case["dom"] = repr(cls.ty(req[2]))     # the object handed over (Ty / PRO / Dim)
        except Exception as e:
            case["dom"] = "unbuildable: " + repr(e)[:100]
    try:
        d = run_real(cls, req, arg)
        real = "ok " + ser_diagram(d)
    except Exception as e:   # noqa: the class of the exception is the observation
        exc = e
        real = "err " + err_class(e)
    if arg is not None and (type(arg) is not list or arg != list(req[1])):
        # the request is the caller's value: once the library has rewritten it, the caller's
        # next, identical request `permutation(perm, ...)` is no longer the one written down
        rep.fail("request_list_mutated:" + cls.name, case,
                 "permutation() changed the caller's list from %r to %r: the same request "
                 "issued again does not get the requested permutation" % (list(req[1]), arg))
    rep.count("class:" + cls.name)
    rep.count("op:" + op)
    rep.count("result:" + (real.split(" ")[1] if exc is not None else "ok"))

    # ---- correspondence: the model's diagram, field by field
    if real != model_eval:
        rep.disagree("eval", dict(case, line=line), real[:2000], model_eval[:2000])

    # ---- what the property demands of this request
    if op == "swap":
        l, r = req[1], req[2]
        default = False
        n = len(l) + len(r)
        want = [len(r) + i for i in range(len(l))] + list(range(len(r)))
        valid, dom_spec = True, l + r
        nontrivial = len(l) >= 1 and len(r) >= 1 and n >= 3
        rep.count("swap_widths:%dx%d" % (len(l), len(r)))
    else:
        p, dom_spec = req[1], req[2]
        default = dom_spec is None
        if default:
            dom_spec = cls.default_dom(len(p))
            rep.count("default_dom")
        valid = is_perm(p) and len(dom_spec) == len(p)
        want = list(p)
        n = len(p)
        nontrivial = valid and n >= 3 and not involutive(p)
        rep.count("perm_len:%d" % n if valid else "malformed")
        if not valid:
            tags, rel, compact = defect_tags(p, None if default else len(dom_spec))
            rep.count("malformed_list:" + tags)
            rep.count("malformed_dom:" + rel)
            rep.count("malformed_op:" + op)
            if (0 if tags == "genuine" else len(tags.split("+"))) \
                    + (rel not in ("default", "len")) >= 2:
                rep.count("malformed_combined")
            if compact:
                # duplicates AND an explicit domain exactly as long as the number of distinct
                # values: each of the two refusal conditions alone would let this through
                rep.count("malformed_dup_x_dom=distinct")
            if dom_spec and not default and all(m == 1 and type(m) is int for m, _ in dom_spec):
                rep.count("malformed_PRO_dom")
    rep.case(key, nontrivial)
    if nontrivial and rep.evaluations % 97 == 0:
        rep.sample(dict(cls=cls.name, request=repr(req)[:200], answer=real[:200]))

    if op == "permute_box":
        # `f.permute(*p)` is `f >> permutation(p, f.dom)`: the correspondence stream above has
        # compared it with the model; the property speaks about it only when it is well-formed
        same = req[2] == req[3]
        rep.count("permute_box:%s:%s" % ("cod==dom" if same else "cod!=dom",
                                         "ok" if exc is None else err_class(exc)))
        if not valid:
            # a non-permutation / length mismatch on f.dom is refused whatever f.cod is
            if exc is None:
                rep.fail("accepted_non_permutation:%s:%s" % (cls.name, op), case,
                         "f.permute(*%r) with len(f.dom) = %d was accepted: %s" % (
                             p, len(dom_spec), real[:200]))
            elif not isinstance(exc, ValueError):
                rep.fail("wrong_refusal:" + cls.name, case,
                         "refused with %s instead of ValueError" % type(exc).__name__)
            if model_wires != "err value":
                rep.disagree("wireperm", case, "err value (expected refusal)", model_wires)
        elif exc is None:
            fcod = cls.ty(req[3])
            for i in range(n):
                if d.cod[p[i]:p[i] + 1] != fcod[i:i + 1]:
                    rep.fail("permute_box_codomain:" + cls.name, case,
                             "output %d of f is not at position %d" % (i, p[i]))
                    break
        elif same:
            rep.fail("valid_request_refused:%s:%s" % (cls.name, op), case,
                     "valid request raised %s: %s" % (type(exc).__name__, str(exc)[:200]))
        return

    if not valid:
        # refusal: ValueError, nothing else
        if exc is None:
            rep.fail("accepted_non_permutation:%s:%s" % (cls.name, op), case,
                     "%r is not a permutation of range(%d) (list: %s; domain %s) but was "
                     "accepted: %s" % (p, len(dom_spec), tags,
                                       "omitted" if default else "of length %d" % len(dom_spec),
                                       real[:200]))
        elif not isinstance(exc, ValueError):
            rep.fail("wrong_refusal:" + cls.name, case,
                     "refused with %s instead of ValueError" % type(exc).__name__)
        if model_wires != "err value":
            rep.disagree("wireperm", case, "err value (expected refusal)", model_wires)
        return
    if exc is not None:
        rep.fail("valid_request_refused:%s:%s" % (cls.name, op), case,
                 "valid request raised %s: %s" % (type(exc).__name__, str(exc)[:200]))
        return

    rep.count("result_class:%s.%s:%s.%s" % (
        cls.name, op, type(d).__module__.replace("discopy.", ""), type(d).__name__))
    pos, why = follow_wires(d)
    # ---- correspondence: the model's wire permutation against the Python follower
    real_wires = ("notswaps" if pos is None else
                  "ok " + " ".join([str(len(pos))] + [str(x) for x in pos]))
    if real_wires != model_wires:
        rep.disagree("wireperm", case, real_wires, model_wires)
    # ---- oracle
    sig = "%s:%s" % (cls.name, op)
    if pos is None:
        rep.fail("not_adjacent_swaps:" + sig, case, why)
        return
    try:
        dom_t = cls.default_ty(n) if default else cls.ty(dom_spec)
        if d.dom != dom_t:
            rep.fail("wrong_domain:" + sig, case, "dom is %r, requested %r" % (d.dom, dom_t))
        if pos != want:
            rep.fail("wrong_wire_permutation:" + sig, case,
                     "wires go to %r, requested %r" % (pos, want))
        for i in range(n):
            if d.cod[want[i]:want[i] + 1] != dom_t[i:i + 1]:
                rep.fail("codomain_not_permuted_domain:" + sig, case,
                         "cod[%d] = %r but dom[%d] = %r" % (
                             want[i], d.cod[want[i]:want[i] + 1], i, dom_t[i:i + 1]))
                break
        if op == "swap" and d.cod != cls.ty(req[2] + req[1]):
            rep.fail("swap_codomain:" + sig, case, "cod is %r" % (d.cod,))
    except Exception as e:
        rep.fail("oracle_exception:" + sig, case, repr(e)[:300])
    # ---- oracle, evaluated arrays
    if cls.name == "circuit":
        circuit_evaluations(rep, cls, d, dom_spec, want, case, sig, pending)
        return
    if cls.evaluates and not (default and cls.name == "tensor"):
        if not evaluable(dom_spec):
            rep.count("array_not_evaluated:" + cls.name)
            return
        try:
            arr = cls.evaluate(d)
            rep.count("array_evaluated:" + cls.name)
            why = array_failure(arr, [m for m, _ in dom_spec], want)
            if why is not None:
                rep.fail(why[0] + ":" + sig, case, why[1])
        except Exception as e:
            rep.fail("evaluation_raised:" + sig, case, repr(e)[:300])
        # ---- oracle: the tensor-valued swap itself, `Tensor.swap(left, right)` (tensor.py:231),
        # the block exchange as one array rather than as a diagram of adjacent swaps
        if cls.name == "tensor" and op == "swap":
            try:
                t = cls.m.Tensor.swap(cls.ty(req[1]), cls.ty(req[2]))
                rep.count("array_evaluated:Tensor.swap")
                if t.dom != cls.ty(dom_spec) or t.cod != cls.ty(req[2] + req[1]):
                    rep.fail("tensor_swap_type:tensor", case, "Tensor.swap has type %r -> %r" % (
                        t.dom, t.cod))
                elif array_failure(t.array, [m for m, _ in dom_spec], want) is not None:
                    rep.fail("tensor_swap_not_block_exchange:tensor", case,
                             "Tensor.swap(left, right).array is not the 0/1 matrix that moves "
                             "the wires of left, in order, to the right of those of right")
            except Exception as e:
                rep.fail("evaluation_raised:Tensor.swap", case, repr(e)[:300])
            # ---- oracle: the same diagram of swaps contracted as a TENSOR NETWORK
            # (`eval(contractor=...)` through `to_tn`, tensor.py:426-470: its own Swap branch on a
            # list of open edges) must be the same 0/1 array, with the permuted type
            try:
                import tensornetwork as tn
                if not dom_spec:        # no wire, no node: the external contractor refuses an empty network
                    rep.count("to_tn:empty_network_not_contracted")
                    raise ImportError
                t = d.eval(contractor=tn.contractors.auto)
                rep.count("array_evaluated:to_tn")
                if cls.dims_of(t.dom) != [m for m, _ in dom_spec] \
                        or cls.dims_of(t.cod) != [m for m, _ in req[2] + req[1]]:
                    rep.fail("to_tn_type:tensor", case, "eval(contractor) has type %r -> %r" % (t.dom, t.cod))
                else:
                    why = array_failure(t.array, [m for m, _ in dom_spec], want)
                    if why is not None:
                        rep.fail("to_tn_" + why[0] + ":tensor", case, why[1])
            except ImportError:
                rep.count("to_tn:skipped")
            except Exception as e:
                rep.fail("evaluation_raised:to_tn", case, repr(e)[:300])


def circuit_evaluations(rep, cls, d, dom_spec, want, case, sig, pending):
    """A circuit of swaps, evaluated as `eval()` and as `eval(mixed=True)`: whichever class comes
    back (Tensor: one axis per wire; CQMap: classical wires once, quantum wires twice), its wire
    dimensions and entries must be those of the requested wire permutation.  The evaluated value
    is also queued for the comparison with the model's evaluation of the same circuit."""
    kinds = [wire_kind(m) for m, _ in dom_spec]
    dims = [k[1] for k in kinds]
    hetero = len(set(dims)) > 1
    for flag in (False, True):
        how = "mixed" if flag else "auto"
        try:
            mixed_circuit = bool(d.is_mixed)
            if flag and mixed_circuit:
                # a mixed circuit goes through cqmap.Functor with or without the flag
                # (circuit.py:251): the evaluation just made is this one
                rep.count("array_evaluated:circuit:mixed:same_path_as_auto")
                continue
            as_cq = flag or mixed_circuit
            udims = cq_layout(kinds, want)[4] if as_cq else dims
            if product(udims) ** 2 > MAX_ENTRIES:
                rep.count("array_not_evaluated:circuit:" + how)
                continue
            if as_cq and len(d.boxes) > 4:
                # CQMap.tensor costs ~30 ms of Python per layer whatever the size: long
                # classical-quantum evaluations are thinned to every second (thorough: fourth) one
                rep.cq_long = getattr(rep, "cq_long", 0) + 1
                if rep.cq_long % (2 if rep.tier == "quick" else 4) != 1:
                    rep.count("array_not_evaluated:circuit:%s:thinned" % how)
                    continue
            v = d.eval(mixed=True) if flag else d.eval()
        except Exception as e:
            rep.fail("evaluation_raised:%s:%s" % (sig, how), dict(case, mixed=flag), repr(e)[:300])
            continue
        rep.count("array_evaluated:circuit:%s:%s" % (how, type(v).__name__))
        rep.count("array_evaluated:circuit")
        if hetero:
            rep.count("array_evaluated:circuit:%s:wires_of_different_dimensions" % how)
        why = evaluated_failure(v, kinds, want)
        if why is not None:
            rep.fail("%s:%s:%s" % (why[0], sig, how), dict(case, mixed=flag), why[1])
        if pending is not None:
            pending.append((how, d, v, dict(case, mixed=flag)))
