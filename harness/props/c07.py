"""C07 — snake removal is sound for rigid diagrams."""
import itertools
import random

import numpy as np

from common import Driver, Report, ser_result, ser_diagram, wf_failure, lean_obligations, err_class
from core import Family, Gen, tok_expr, spec_diagram, adj
from semantics import IntFunctor, wire_labels
from props.c05 import simulate

PROP = "C07"
CAP = 300


def cap_box(l, r):
    return dict(kind="a", name=None, dom=[], cod=[l, r], dagger=False, data=None)


def cup_box(l, r):
    return dict(kind="u", name=None, dom=[l, r], cod=[], dagger=False, data=None)


def insert_snakes(rng, e, scans):
    """Insert 1-2 snakes (left or right handed) on random wires at random depths; with small
    probability append a wrong-handed cap/cup pair joined straight (not a snake)."""
    _, dom, cod, boxes, offsets = e
    boxes, offsets, scans = list(boxes), list(offsets), [list(s) for s in scans]
    kinds = []
    for _ in range(rng.choice([1, 1, 2])):
        k = rng.randrange(len(scans))
        if not scans[k]:
            continue
        p = rng.randrange(len(scans[k]))
        x = scans[k][p]
        s = scans[k]
        if rng.random() < 0.5:      # left snake  Id(x) @ Cap(x.r, x) >> Cup(x, x.r) @ Id(x)
            new = [(cap_box(adj(x, 1), x), p + 1), (cup_box(x, adj(x, 1)), p)]
            mid = s[:p + 1] + [adj(x, 1), x] + s[p + 1:]
            kinds.append("left")
        else:                       # right snake Cap(x, x.l) @ Id(x) >> Id(x) @ Cup(x.l, x)
            new = [(cap_box(x, adj(x, -1)), p), (cup_box(adj(x, -1), x), p + 1)]
            mid = s[:p] + [x, adj(x, -1)] + s[p:]
            kinds.append("right")
        boxes[k:k] = [b for b, _ in new]
        offsets[k:k] = [o for _, o in new]
        scans[k + 1:k + 1] = [mid, list(s)]
    if rng.random() < 0.15 and scans[-1]:
        s = scans[-1]
        p = rng.randrange(len(s))
        x = s[p]
        if rng.random() < 0.5:      # Id(x) @ Cap(x.r, x.rr) >> Cup(x, x.r) @ Id(x.rr): x -> x.rr
            boxes += [cap_box(adj(x, 1), adj(x, 2)), cup_box(x, adj(x, 1))]
            offsets += [p + 1, p]
            scans += [s[:p + 1] + [adj(x, 1), adj(x, 2)] + s[p + 1:], s[:p] + [adj(x, 2)] + s[p + 1:]]
        else:                       # Cap(x.ll, x.l) @ Id(x) >> Id(x.ll) @ Cup(x.l, x): x -> x.ll
            boxes += [cap_box(adj(x, -2), adj(x, -1)), cup_box(adj(x, -1), x)]
            offsets += [p, p + 1]
            scans += [s[:p] + [adj(x, -2), adj(x, -1)] + s[p:], s[:p] + [adj(x, -2)] + s[p + 1:]]
        kinds.append("wrong-handed")
    return ("mk", dom, scans[-1], boxes, offsets), kinds


def shuffle_exchanges(rng, d, tries=25):
    """Random legal adjacent exchanges (independent simulation) to create obstructions."""
    from discopy.rigid import Diagram
    for _ in range(tries):
        n = len(d.boxes)
        if n < 2:
            break
        i = rng.randrange(n - 1)
        a, b = (i, i + 1) if rng.random() < 0.5 else (i + 1, i)
        sim = simulate(d, a, b, rng.random() < 0.5)
        if sim[0] == "ok":
            d = Diagram(d.dom, d.cod, sim[1], sim[2])
    return d


def pro_diagram(rng, depth):
    """A rigid diagram over the self-adjoint types PRO(n): boxes, cups, caps on wires of the single
    object 1 — closed loops (a cap whose legs enter the SAME cup) are well-typed here."""
    o = (1, 0)
    n = rng.randint(0, 3)
    dom = [o] * n
    boxes, offsets = [], []
    for _ in range(depth):
        kinds = ["gen", "gen", "cap", "cap"] + (["cup", "cup", "cup"] if n >= 2 else [])
        k = rng.choice(kinds)
        if k == "gen":
            off = rng.randint(0, n)
            a = rng.randint(0, min(2, n - off))
            b = rng.randint(0, 2)
            boxes.append(dict(kind="g", name="f%d" % rng.randint(0, 3), dom=[o] * a, cod=[o] * b,
                              dagger=False, data=None))
            n = n - a + b
        elif k == "cap":
            if n > 5:
                continue
            off = rng.randint(0, n)
            boxes.append(cap_box(o, o))
            n += 2
        else:
            off = rng.randint(0, n - 2)
            boxes.append(cup_box(o, o))
            n -= 2
        offsets.append(off)
    return ("mk", dom, [o] * n, boxes, offsets)


def spiral_snake(rng, fam):
    """Nested snakes: an inner cap between the legs of an outer cap; yanking the inner snake turns
    the OUTER cap (several boxes higher in the list) into half of a new snake.  Right- and
    left-handed, an extra box on the through wire / on a leg of the outer cap / nowhere, padded
    with context wires on both sides."""
    m = fam.m
    n = m.Ty(m.Ob(rng.choice(["a", "b", "c"]), rng.choice([0, 0, 1, -1])))
    pad_l = m.Ty(*[m.Ob(rng.choice(["c", "d"]), 0) for _ in range(rng.choice([0, 0, 1]))])
    pad_r = m.Ty(*[m.Ob(rng.choice(["c", "d"]), 0) for _ in range(rng.choice([0, 0, 1]))])
    Id, Cap, Cup, Box = m.Id, m.Cap, m.Cup, m.Box
    where = rng.choice(["through", "outer", "none"])
    if rng.random() < 0.5:      # right-handed: n.r -> n.r
        f = Box("f%d" % rng.randint(0, 3), n.r, n.r)
        top = Cap(n.r, n) @ Id(n.r)
        mid = {"through": Id(n.r @ n) @ f, "outer": f @ Id(n @ n.r), "none": Id(n.r @ n @ n.r)}[where]
        core = top >> mid >> Id(n.r) @ Cap(n, n.l) @ Id(n @ n.r) \
            >> Id(n.r @ n) @ Cup(n.l, n) @ Id(n.r) >> Id(n.r) @ Cup(n, n.r)
    else:                       # left-handed: n.l -> n.l
        g = Box("f%d" % rng.randint(0, 3), n.l, n.l)
        top = Id(n.l) @ Cap(n, n.l)
        mid = {"through": g @ Id(n @ n.l), "outer": Id(n.l @ n) @ g, "none": Id(n.l @ n @ n.l)}[where]
        core = top >> mid >> Id(n.l @ n) @ Cap(n.r, n) @ Id(n.l) \
            >> Id(n.l) @ Cup(n, n.r) @ Id(n @ n.l) >> Cup(n.l, n) @ Id(n.l)
    d = Id(pad_l) @ core @ Id(pad_r)
    if pad_l and rng.random() < 0.5:
        d = Box("p", pad_l, pad_l) @ Id(core.dom @ pad_r) >> d
    return d


def leftover_snake(d):
    """A cap whose leg runs straight into the opposite leg of a cup forming a snake equation."""
    from discopy.rigid import Cup, Cap
    consumed, _ = wire_labels(d)
    for j, cons in enumerate(consumed):
        if not isinstance(d.boxes[j], Cup):
            continue
        for port, lab in enumerate(cons):
            if lab[0] == "in" or not isinstance(d.boxes[lab[0]], Cap):
                continue
            cap, cup = d.boxes[lab[0]], d.boxes[j]
            if lab[1] == 0 and port == 1 and cup.dom[:1] == cap.cod[1:]:
                return "left snake cap %d cup %d" % (lab[0], j)
            if lab[1] == 1 and port == 0 and cup.dom[1:] == cap.cod[:1]:
                return "right snake cap %d cup %d" % (lab[0], j)
    return None


def run(tier, seed, replay=None):
    from discopy import rigid
    rep = Report(PROP, tier, seed)
    rep.rule = ("random rigid diagrams (boxes, swaps, cups, caps, winding numbers -2..2) with 1-2 "
                "inserted left/right snakes, 15% wrong-handed straight cap/cup pairs, shuffled by "
                "random legal exchanges to create obstructions on either side; both `left` settings; "
                "non-trivial = at least one cap/cup pair removed")
    rep.partial = ["termination of the monoidal normal form that follows the snake loop is not "
                   "proved (C06's gap); the snake loop itself (find_snake/unsnake with its index "
                   "re-numbering over whole obstruction lists) is proved total, accepted step by "
                   "step and snake-free at exit for the model, and the functional comparison with "
                   "the model's transcription ties that model to the code on every run"]
    rep.lean = lean_obligations(PROP, thorough=(tier == "thorough"))
    n_diagrams = 150 if tier == "quick" else 6000
    rng = random.Random(seed)
    drv = Driver()
    fam = Family("rigid")
    fam_pro = Family("pro")
    try:
        for k in range(n_diagrams):
            if k % 6 == 5:
                e1, kinds = pro_diagram(random.Random(rng.getrandbits(64)), rng.randint(2, 6)), ["pro"]
                d = shuffle_exchanges(rng, fam_pro.run(e1))
            elif k % 6 == 4:
                kinds = ["spiral"]
                d = spiral_snake(random.Random(rng.getrandbits(64)), fam)
                if rng.random() < 0.5:
                    d = shuffle_exchanges(rng, d, tries=6)
            else:
                g = Gen(random.Random(rng.getrandbits(64)), rigid=True, maxw=5)
                e0, scans = g.diagram(depth=rng.choice([0, 1, 2, 2, 3, 3, 4, 5]))
                e1, kinds = insert_snakes(rng, e0, scans) if rng.random() < 0.8 else (e0, [])
                d = shuffle_exchanges(rng, fam.run(e1))
            e = spec_diagram(d)
            for kd in kinds or ["none"]:
                rep.count("inserted:" + kd)
            for left in ((False, True) if k % 3 == 0 else (False,)):
                case = dict(expr=repr(e), left=left)
                try:
                    steps = list(itertools.islice(d.normalize(left=left), CAP))
                    finished, err = len(steps) < CAP, None
                except Exception as exc:
                    steps, finished, err = [], False, err_class(exc)
                if err is not None:
                    rep.fail("normalize_raises:" + err, case, "normalize raised " + err)
                    rep.case("err " + tok_expr(e), False)
                    continue
                removed = (len(d.boxes) - len(steps[-1].boxes)) // 2 if steps else 0
                rep.count("pairs_removed:%d" % removed)
                line = "strace %d %s %s" % (
                    1 if left else 0, tok_expr(e),
                    " ".join([str(len(steps))] + [tok_expr(spec_diagram(s)) for s in steps]))
                ans = drv.ask(line)
                if finished:
                    if ans != "accepted terminal=1 snakefree=1":
                        rep.disagree("strace", case, "accepted terminal=1 snakefree=1", ans)
                elif not ans.startswith("accepted"):
                    rep.disagree("strace", case, "accepted ...", ans)
                if finished:
                    mine = drv.ask("snake %d %d %s" % (1 if left else 0, CAP, tok_expr(e)))
                    real = "ok 1 " + " ".join([str(len(steps))] + [ser_diagram(s) for s in steps])
                    if mine != real:
                        rep.disagree("snake", case, real[:400], mine[:400])
                rep.case(line, removed >= 1)
                rep.sample(dict(request=line[:300], answer=ans))
                F = IntFunctor(random.Random(rng.getrandbits(32)))
                ref = F.eval(d)
                for idx, s in enumerate(steps[:80]):
                    why = wf_failure(s)
                    if why:
                        rep.fail("illtyped_step", case, "step %d: %s" % (idx, why))
                        break
                    if s.dom != d.dom or s.cod != d.cod:
                        rep.fail("step_type_changed", case, "step %d" % idx)
                    if not np.array_equal(F.eval(s), ref):
                        rep.fail("step_semantics_changed", case, "step %d" % idx)
                        break
                if finished:
                    last = steps[-1] if steps else d
                    left_over = leftover_snake(last)
                    if left_over:
                        rep.fail("snake_left_in_result", case, left_over)
                # normal_form: only NotImplementedError may escape
                try:
                    nf = d.normal_form(left=left)
                    if finished and nf != (steps[-1] if steps else d):
                        rep.fail("normal_form_not_last_step", case, "normal_form != last yielded step")
                except NotImplementedError:
                    rep.count("nf:notimpl")
                except Exception as exc:
                    rep.fail("normal_form_raises:" + err_class(exc), case, repr(exc)[:200])
    finally:
        drv.close()
    return rep.finish()
