"""C07 — snake removal is sound for rigid diagrams."""
import itertools
import random

import numpy as np

from common import Driver, Report, ser_result, ser_diagram, wf_failure, lean_obligations, err_class
from core import Family, Gen, tok_expr, spec_diagram, adj
from semantics import IntFunctor, wire_labels
from props.c05 import simulate
from props.c06 import is_connected

PROP = "C07"
CAP = 300          # steps read from a normalize() generator of a DISCONNECTED diagram


def trace_bound(n):
    """Generous polynomial bound on the number of steps yielded on a CONNECTED diagram with n
    boxes: the snake loop yields < n steps per removed pair (< n*n/2 in all) and the monoidal
    normal form at most a cubic number of interchanges (arXiv:1804.07832; the measured worst
    case, the spiral, needs about n**3 / 7)."""
    return 4 * (n + 1) ** 3 + 32


def cap_box(l, r):
    return dict(kind="a", name=None, dom=[], cod=[l, r], dagger=False, data=None)


def cup_box(l, r):
    return dict(kind="u", name=None, dom=[l, r], cod=[], dagger=False, data=None)


def insert_snakes(rng, e, scans):
    """Insert 1-2 snakes (left or right handed) on random wires at random depths; with small
    probability append a wrong-handed cap/cup pair joined straight (not a snake)."""
    _, dom, cod, boxes, offsets = e
    boxes, offsets, scans = list(boxes), list(offsets), [list(s) for s in scans]
    kinds = []
    for _ in range(rng.choice([1, 1, 2])):
        k = rng.randrange(len(scans))
        if not scans[k]:
            continue
        p = rng.randrange(len(scans[k]))
        x = scans[k][p]
        s = scans[k]
        if rng.random() < 0.5:      # left snake  Id(x) @ Cap(x.r, x) >> Cup(x, x.r) @ Id(x)
            new = [(cap_box(adj(x, 1), x), p + 1), (cup_box(x, adj(x, 1)), p)]
            mid = s[:p + 1] + [adj(x, 1), x] + s[p + 1:]
            kinds.append("left")
        else:                       # right snake Cap(x, x.l) @ Id(x) >> Id(x) @ Cup(x.l, x)
            new = [(cap_box(x, adj(x, -1)), p), (cup_box(adj(x, -1), x), p + 1)]
            mid = s[:p] + [x, adj(x, -1)] + s[p:]
            kinds.append("right")
        boxes[k:k] = [b for b, _ in new]
        offsets[k:k] = [o for _, o in new]
        scans[k + 1:k + 1] = [mid, list(s)]
    if rng.random() < 0.15 and scans[-1]:
        s = scans[-1]
        p = rng.randrange(len(s))
        x = s[p]
        if rng.random() < 0.5:      # Id(x) @ Cap(x.r, x.rr) >> Cup(x, x.r) @ Id(x.rr): x -> x.rr
            boxes += [cap_box(adj(x, 1), adj(x, 2)), cup_box(x, adj(x, 1))]
            offsets += [p + 1, p]
            scans += [s[:p + 1] + [adj(x, 1), adj(x, 2)] + s[p + 1:], s[:p] + [adj(x, 2)] + s[p + 1:]]
        else:                       # Cap(x.ll, x.l) @ Id(x) >> Id(x.ll) @ Cup(x.l, x): x -> x.ll
            boxes += [cap_box(adj(x, -2), adj(x, -1)), cup_box(adj(x, -1), x)]
            offsets += [p, p + 1]
            scans += [s[:p] + [adj(x, -2), adj(x, -1)] + s[p:], s[:p] + [adj(x, -2)] + s[p + 1:]]
        kinds.append("wrong-handed")
    return ("mk", dom, scans[-1], boxes, offsets), kinds


def shuffle_exchanges(rng, d, tries=25):
    """Random legal adjacent exchanges (independent simulation) to create obstructions."""
    from discopy.rigid import Diagram
    for _ in range(tries):
        n = len(d.boxes)
        if n < 2:
            break
        i = rng.randrange(n - 1)
        a, b = (i, i + 1) if rng.random() < 0.5 else (i + 1, i)
        sim = simulate(d, a, b, rng.random() < 0.5)
        if sim[0] == "ok":
            d = Diagram(d.dom, d.cod, sim[1], sim[2])
    return d


def pro_diagram(rng, depth):
    """A rigid diagram over the self-adjoint types PRO(n): boxes, cups, caps on wires of the single
    object 1 — closed loops (a cap whose legs enter the SAME cup) are well-typed here."""
    o = (1, 0)
    n = rng.randint(0, 3)
    dom = [o] * n
    boxes, offsets = [], []
    for _ in range(depth):
        kinds = ["gen", "gen", "cap", "cap"] + (["cup", "cup", "cup"] if n >= 2 else [])
        k = rng.choice(kinds)
        if k == "gen":
            off = rng.randint(0, n)
            a = rng.randint(0, min(2, n - off))
            b = rng.randint(0, 2)
            boxes.append(dict(kind="g", name="f%d" % rng.randint(0, 3), dom=[o] * a, cod=[o] * b,
                              dagger=False, data=None))
            n = n - a + b
        elif k == "cap":
            if n > 5:
                continue
            off = rng.randint(0, n)
            boxes.append(cap_box(o, o))
            n += 2
        else:
            off = rng.randint(0, n - 2)
            boxes.append(cup_box(o, o))
            n -= 2
        offsets.append(off)
    return ("mk", dom, [o] * n, boxes, offsets)


def spiral_snake(rng, fam):
    """Nested snakes: an inner cap between the legs of an outer cap; yanking the inner snake turns
    the OUTER cap (several boxes higher in the list) into half of a new snake.  Right- and
    left-handed, an extra box on the through wire / on a leg of the outer cap / nowhere, padded
    with context wires on both sides."""
    m = fam.m
    n = m.Ty(m.Ob(rng.choice(["a", "b", "c"]), rng.choice([0, 0, 1, -1])))
    pad_l = m.Ty(*[m.Ob(rng.choice(["c", "d"]), 0) for _ in range(rng.choice([0, 0, 1]))])
    pad_r = m.Ty(*[m.Ob(rng.choice(["c", "d"]), 0) for _ in range(rng.choice([0, 0, 1]))])
    Id, Cap, Cup, Box = m.Id, m.Cap, m.Cup, m.Box
    where = rng.choice(["through", "outer", "none"])
    if rng.random() < 0.5:      # right-handed: n.r -> n.r
        f = Box("f%d" % rng.randint(0, 3), n.r, n.r)
        top = Cap(n.r, n) @ Id(n.r)
        mid = {"through": Id(n.r @ n) @ f, "outer": f @ Id(n @ n.r), "none": Id(n.r @ n @ n.r)}[where]
        core = top >> mid >> Id(n.r) @ Cap(n, n.l) @ Id(n @ n.r) \
            >> Id(n.r @ n) @ Cup(n.l, n) @ Id(n.r) >> Id(n.r) @ Cup(n, n.r)
    else:                       # left-handed: n.l -> n.l
        g = Box("f%d" % rng.randint(0, 3), n.l, n.l)
        top = Id(n.l) @ Cap(n, n.l)
        mid = {"through": g @ Id(n @ n.l), "outer": Id(n.l @ n) @ g, "none": Id(n.l @ n @ n.l)}[where]
        core = top >> mid >> Id(n.l @ n) @ Cap(n.r, n) @ Id(n.l) \
            >> Id(n.l) @ Cup(n, n.r) @ Id(n @ n.l) >> Cup(n.l, n) @ Id(n.l)
    d = Id(pad_l) @ core @ Id(pad_r)
    if pad_l and rng.random() < 0.5:
        d = Box("p", pad_l, pad_l) @ Id(core.dom @ pad_r) >> d
    return d


def long_spiral(rng, fam, nmax):
    """SCALING family (round 7): the connected spiral of arXiv:1804.07832 (generic `cup`/`cap`
    boxes around a unit/counit pair) with 3..nmax turns, as it is or mirrored, optionally with a
    yankable snake on the unit's wire and a context wire.  Its normalisation needs about n**3 / 7
    interchanges for n boxes — more than n**2 from 14 boxes on — while every step is cheap: a
    connected diagram must be normalised however long the trace is."""
    m = fam.m
    x = m.Ty(m.Ob(rng.choice(["a", "b"]), rng.choice([0, 0, 1, -1])))
    Id, Box = m.Id, m.Box
    n = rng.randint(3, nmax)
    mirrored, snake = rng.random() < 0.5, rng.random() < 0.6
    unit, counit = Box("unit", m.Ty(), x), Box("counit", x, m.Ty())
    cup, cap = Box("cup", x @ x, m.Ty()), Box("cap", m.Ty(), x @ x)

    def pw(k):
        t = m.Ty()
        for _ in range(k):
            t = t @ x
        return t
    d = unit
    if snake:
        d = d >> (Id(x.l).transpose() if rng.random() < 0.5 else Id(x.r).transpose(left=True))
    for i in range(n):
        d = d >> (Id(pw(i + 1)) @ cap @ Id(pw(i)) if mirrored else Id(pw(i)) @ cap @ Id(pw(i + 1)))
    d = d >> Id(pw(n)) @ counit @ Id(pw(n))
    for i in range(n):
        d = d >> Id(pw(n - i - 1)) @ cup @ Id(pw(n - i - 1))
    return d, "n=%d:%s:%s" % (n, "mirrored" if mirrored else "plain", "snake" if snake else "nosnake")


def gbox(name, dom, cod):
    return dict(kind="g", name=name, dom=list(dom), cod=list(cod), dagger=False, data=None)


class Build:
    """Layer-by-layer builder of an `mk` spec; every open wire carries a tag so that generators
    can address wires by identity while other boxes change the offsets."""

    def __init__(self, dom, tags=None):
        self.dom, self.scan = list(dom), list(dom)
        self.tags = list(tags) if tags is not None else [None] * len(dom)
        self.boxes, self.offsets, self.scans = [], [], [list(dom)]

    def pos(self, tag):
        return self.tags.index(tag)

    def add(self, box, off, tags=None):
        k = len(box["dom"])
        assert 0 <= off and self.scan[off:off + k] == list(box["dom"]), (self.scan, box, off)
        tags = list(tags) if tags is not None else [None] * len(box["cod"])
        assert len(tags) == len(box["cod"])
        self.boxes.append(box)
        self.offsets.append(off)
        self.scan = self.scan[:off] + list(box["cod"]) + self.scan[off + k:]
        self.tags = self.tags[:off] + tags + self.tags[off + k:]
        self.scans.append(list(self.scan))

    def on_wire(self, rng, p):
        """A 1 -> 1 box on the wire at position p (type and tag kept)."""
        x = self.scan[p]
        self.add(gbox("h%d" % rng.randint(0, 2), [x], [x]), p, [self.tags[p]])

    def snake_on(self, rng, p):
        """A left- or right-handed snake on the wire at position p (type and tag kept)."""
        x, t = self.scan[p], self.tags[p]
        if rng.random() < 0.5:
            self.add(cap_box(adj(x, 1), x), p + 1, [None, t])
            self.tags[p] = None
            self.add(cup_box(x, adj(x, 1)), p)
        else:
            self.add(cap_box(x, adj(x, -1)), p, [t, None])
            self.tags[p + 2] = None
            self.add(cup_box(adj(x, -1), x), p + 1)

    def clutter(self, rng, protect=(), k=None):
        """0-3 boxes that do not touch the protected wires: 1 -> 1 boxes on other wires, states at
        either end, rarely a scalar in the middle (all of them obstructions for find_snake)."""
        for _ in range(rng.choice([0, 0, 1, 1, 2, 3]) if k is None else k):
            free = [p for p, t in enumerate(self.tags) if t not in protect]
            eatable = [p for p, t in enumerate(self.tags) if t == "p"]
            r = rng.random()
            core = [p for p in free if self.tags[p] not in (None, "p")]
            if r < 0.62 and free:
                self.on_wire(rng, rng.choice(core if core and rng.random() < 0.6 else free))
            elif r < 0.76 and len(self.scan) < 8:
                self.add(gbox("s%d" % rng.randint(0, 1), [], [("d", 0)]),
                         rng.choice([0, len(self.scan)]), ["p"])
            elif r < 0.84 and eatable:
                p = rng.choice(eatable)
                self.add(gbox("e%d" % rng.randint(0, 1), [self.scan[p]], []), p)
            elif r < 0.85:
                self.add(gbox("w", [], []), rng.randint(0, len(self.scan)))

    def expr(self):
        return ("mk", list(self.dom), list(self.scan), list(self.boxes), list(self.offsets))


def wrap(rng, e, rep):
    """Connect everything that touches the boundary: a box on top feeding the whole domain and/or
    a box at the bottom eating the whole codomain (neither lies between a cap and a cup)."""
    _, dom, cod, boxes, offsets = e
    mode = rng.choice(["none", "top", "bottom", "both", "both", "both"])
    rep.count("wrap:" + mode)
    if mode in ("top", "both") and dom:
        x = [("c", 0)] * rng.randint(0, 1)
        boxes, offsets, dom = [gbox("top", x, dom)] + list(boxes), [0] + list(offsets), x
    if mode in ("bottom", "both") and cod:
        y = [("c", 0)] * rng.randint(0, 1)
        boxes, offsets, cod = list(boxes) + [gbox("bot", cod, y)], list(offsets) + [0], y
    return ("mk", dom, cod, boxes, offsets)


LEG_KINDS = ["genuine"] * 3 + ["mismatch"] * 3 + ["blocked", "open", "inner"]


def double_leg(rng):
    """A cap BOTH of whose legs run into cups.  Each leg independently: `genuine` (straight into
    the opposite leg of a cup that satisfies the snake equation), `mismatch` (straight into the
    opposite leg of a cup with the wrong winding number: adjoint as a cup but no snake equation),
    `blocked` (a 1 -> 1 box sits on the leg), `open` (no cup), `inner` (wrong-handed: the leg
    enters the SAME-side leg of a cup whose other wire comes from a state between the legs).
    The outer wire of each cup comes from the boundary, a state, or an outer cap (nesting: once
    the inner pair is yanked the outer cap becomes half of a new candidate); 1 -> 1 boxes, states,
    effects and scalars are scattered on the other wires before, between and after the two cups,
    which come in either order."""
    name = rng.choice(["a", "b"])
    a = (name, rng.choice([0, 0, 0, 1, -1, 2, -2]))
    s = rng.choice([-1, 1])
    b = adj(a, s)                      # Cap(a, b)
    lk, rk = rng.choice(LEG_KINDS), rng.choice(LEG_KINDS)
    c = {"genuine": b, "blocked": b, "mismatch": adj(a, -s)}.get(lk)        # Cup(c, a)
    e = {"genuine": a, "blocked": a, "mismatch": adj(b, s)}.get(rk)         # Cup(b, e)
    pad = lambda: [(rng.choice(["c", "d"]), 0) for _ in range(rng.choice([0, 0, 1]))]
    pad_l, pad_r = pad(), pad()
    lo = rng.choice(["dom", "dom", "state", "cap"]) if c else None
    ro = rng.choice(["dom", "dom", "state", "cap"]) if e else None
    dom = pad_l + ([c] if lo == "dom" else []) + ([e] if ro == "dom" else []) + pad_r
    tags = ["p"] * len(pad_l) + (["c"] if lo == "dom" else []) + (["e"] if ro == "dom" else []) \
        + ["p"] * len(pad_r)
    B = Build(dom, tags)
    at = len(pad_l)
    if lo == "state":
        B.add(gbox("sl", [], [c]), at, ["c"])
    elif lo == "cap":
        B.add(cap_box(adj(c, rng.choice([-1, 1])), c), at, ["w", "c"])
    at = (B.pos("c") + 1) if c else at
    if ro == "state":
        B.add(gbox("sr", [], [e]), at, ["e"])
    elif ro == "cap":
        B.add(cap_box(e, adj(e, rng.choice([-1, 1]))), at, ["e", "w"])
    B.clutter(rng)
    at = B.pos("c") + 1 if c else B.pos("e") if e else rng.randint(0, len(B.scan))
    B.add(cap_box(a, b), at, ["a", "b"])
    inner = []
    if lk == "inner":
        inner.append((adj(a, rng.choice([-1, 1])), "ia"))
    if rk == "inner":
        inner.append((adj(b, rng.choice([-1, 1])), "ib"))
    if inner:
        B.add(gbox("si", [], [x for x, _ in inner]), B.pos("a") + 1, [t for _, t in inner])
    protect = ("a", "b", "ia", "ib")
    B.clutter(rng, protect)
    if lk == "blocked":
        B.on_wire(rng, B.pos("a"))
    if rk == "blocked":
        B.on_wire(rng, B.pos("b"))
    cups = [("l", lk), ("r", rk)]
    rng.shuffle(cups)
    for side, kind in cups:
        if kind in ("genuine", "mismatch", "blocked"):
            B.add(cup_box(c, a) if side == "l" else cup_box(b, e),
                  B.pos("c") if side == "l" else B.pos("b"))
        elif kind == "inner":
            B.add(cup_box(a, B.scan[B.pos("ia")]) if side == "l" else cup_box(B.scan[B.pos("ib")], b),
                  B.pos("a") if side == "l" else B.pos("ib"))
        B.clutter(rng, protect)
    return B, "%s/%s" % (lk, rk)


def zigzag(rng, depth):
    """Random rigid diagrams over ONE atomic type with winding numbers -2..2: adjacent wires very
    often form a cup, so caps whose two legs both enter cups, chains and nestings of genuine and
    type-mismatched pairs and cup-above-cap stacks all appear."""
    name = "n"
    ob = lambda: (name, rng.choice([-1, 0, 0, 1]))
    dom = [ob() for _ in range(rng.randint(0, 3))]
    B = Build(dom)
    for step in range(depth):
        scan = B.scan
        n = len(scan)
        cups = [i for i in range(n - 1) if abs(scan[i][1] - scan[i + 1][1]) == 1]
        # mostly avoid closing a cap's own two legs into a loop
        open_cups = [i for i in cups if B.tags[i] is None or B.tags[i] != B.tags[i + 1]]
        if rng.random() < 0.95:
            cups = open_cups
        kinds = ["gen", "cap", "cap"] + (["cup"] * 4 if cups else [])
        k = rng.choice(kinds)
        if k == "cup":
            i = rng.choice(cups)
            B.add(cup_box(scan[i], scan[i + 1]), i)
        elif k == "cap":
            if n > 5:
                continue
            x = ob()
            B.add(cap_box(x, adj(x, rng.choice([-1, 1]))), rng.randint(0, n), [step, step])
        else:
            off = rng.randint(0, n)
            a = rng.randint(0, min(2, n - off))
            cod = [ob() for _ in range(rng.randint(0, 2 if n < 6 else 0))]
            if a == 0 and not cod and rng.random() < 0.8:
                cod = [ob()]
            B.add(gbox("f%d" % rng.randint(0, 3), scan[off:off + a], cod), off)
    return B


def effect_over_state(rng):
    """After snake removal a box with empty codomain (cup / effect) sits directly above a box with
    empty domain (cap / state) AT THE SAME OFFSET — the pair can be interchanged either way, so
    `left` decides — and both are connected to the rest through neighbouring wires: a top box
    feeds L @ E @ R, the effect eats E, the state puts S in its place, a bottom box eats L @ S @ R.
    1-2 such stages; between effect and state optionally a snake or a 1 -> 1 box on a neighbouring
    wire (the adjacency then only arises once the snake is gone)."""
    ob = lambda: (rng.choice(["a", "b"]), rng.choice([0, 0, 0, 1, -1]))
    ty = lambda lo, hi: [ob() for _ in range(rng.randint(lo, hi))]

    def two_legs():
        x = ob()
        return [x, adj(x, rng.choice([-1, 1]))]
    def sides():
        L, R = ty(0, 2), ty(0, 2)
        if not L and not R and rng.random() < 0.8:
            (L if rng.random() < 0.5 else R).append(ob())
        E = two_legs() if rng.random() < 0.6 else ty(1, 2)
        return L + E + R, ["L"] * len(L) + ["E"] * len(E) + ["R"] * len(R)
    src, tags = sides()
    if rng.random() < 0.85:
        B = Build(ty(0, 2))
        B.add(gbox("f", B.scan, src), 0, tags)
    else:
        B = Build(src, tags)
    shape = []
    for stage in range(rng.choice([1, 1, 2])):
        if stage:           # a middle box eats everything and feeds the next stage
            src, tags = sides()
            B.add(gbox("m", B.scan, src), 0, tags)
        at = B.pos("E")
        E = B.scan[at:at + B.tags.count("E")]
        if len(E) == 2 and abs(E[0][1] - E[1][1]) == 1 and E[0][0] == E[1][0] and rng.random() < 0.8:
            B.add(cup_box(*E), at)
            shape.append("cup")
        else:
            B.add(gbox("e", E, []), at)
            shape.append("effect")
        side = [p for p, t in enumerate(B.tags) if t in ("L", "R")]
        r = rng.random()
        if side and r < 0.3:
            B.snake_on(rng, rng.choice(side))
            shape.append("snake")
        elif side and r < 0.45:
            B.on_wire(rng, rng.choice(side))
            shape.append("box")
        at = B.tags.index("R") if "R" in B.tags else len(B.scan)
        if rng.random() < 0.6:
            B.add(cap_box(*two_legs()), at, ["E", "E"])
            shape.append("cap")
        else:
            S = ty(1, 2)
            B.add(gbox("s", [], S), at, ["E"] * len(S))
            shape.append("state")
    r = rng.random()
    if r < 0.7:
        B.add(gbox("g", B.scan, ty(0, 2)), 0)
    elif r < 0.9:         # the bottom box eats S and one neighbouring wire only
        at, n = B.pos("E"), B.tags.count("E")
        lo = at - 1 if at > 0 and (rng.random() < 0.5 or at + n >= len(B.scan)) else at
        hi = at + n if lo < at else min(len(B.scan), at + n + 1)
        B.add(gbox("g", B.scan[lo:hi], ty(0, 1)), lo)
    return B, ">".join(shape)


def same_box_snake(rng):
    """ONE snake whose obstructions repeat the same few box specs: x -> x boxes on the incoming and
    on the outgoing wire of the snake and on context wires of the same type, x @ x -> x @ x boxes
    over (context, incoming) / (outgoing, context), placed before the cap, BETWEEN cap and cup
    (2-6 of them: these are the obstructions unsnake slides away, on both sides of the followed
    leg) and after the cup.  Built by a Family that interns its boxes the same spec is the same
    Python object (`f >> f`, f before and f after, f on both sides of the snake); without interning
    they are equal-but-distinct copies.  Left- and right-handed; copies on one wire do not commute."""
    x = (rng.choice(["a", "b"]), rng.choice([0, 0, 0, 1, -1]))
    nl, nr = rng.choice([0, 0, 1, 1, 2]), rng.choice([0, 0, 1, 1, 2])
    other = lambda: x if rng.random() < 0.75 else ("c", 0)
    pad_l, pad_r = [other() for _ in range(nl)], [other() for _ in range(nr)]
    B = Build(pad_l + [x] + pad_r, ["p"] * nl + ["w"] + ["p"] * nr)
    pool = [gbox("h%d" % i, [x], [x]) for i in range(rng.choice([1, 1, 2, 3]))]
    pool2 = [gbox("k%d" % i, [x, x], [x, x]) for i in range(rng.choice([0, 1, 1, 2]))]

    def place(tags, bias):
        """One box from the pools on wires carrying one of `tags` (type x), `bias` preferred."""
        spots = [p for p, t in enumerate(B.tags) if t in tags and B.scan[p] == x]
        pref = [p for p in spots if B.tags[p] in bias]
        if not spots:
            return None
        p = rng.choice(pref if pref and rng.random() < 0.65 else spots)
        wide = [q for q in (p - 1, p) if q >= 0 and q + 1 < len(B.scan) and B.scan[q] == x
                and B.scan[q + 1] == x and B.tags[q] in tags and B.tags[q + 1] in tags]
        if pool2 and wide and rng.random() < 0.25:
            q = rng.choice(wide)
            B.add(rng.choice(pool2), q, [B.tags[q], B.tags[q + 1]])
            return "k"
        B.add(rng.choice(pool), p, [B.tags[p]])
        return B.tags[p]
    for _ in range(rng.choice([0, 0, 1, 2])):
        place(("w", "p"), ("w",))
    p = B.pos("w")
    hand = rng.choice(["left", "right"])
    if hand == "left":        # Id(x) @ Cap(x.r, x): the wire comes in on the left, leaves on the right
        B.add(cap_box(adj(x, 1), x), p + 1, ["leg", "out"])
        B.tags[p] = "in"
    else:                     # Cap(x, x.l) @ Id(x)
        B.add(cap_box(x, adj(x, -1)), p, ["out", "leg"])
        B.tags[p + 2] = "in"
    where = []
    for _ in range(rng.choice([2, 2, 3, 3, 4, 5, 6])):
        where.append(place(("in", "out", "p"), ("in", "out")))
    if hand == "left":
        B.add(cup_box(x, adj(x, 1)), B.pos("in"))
    else:
        B.add(cup_box(adj(x, -1), x), B.pos("leg"))
    B.tags[B.tags.index("out")] = "w"
    for _ in range(rng.choice([0, 0, 1, 2])):
        place(("w", "p"), ("w",))
    shape = "%s:in=%d,out=%d,side=%d,wide=%d" % (
        hand, min(where.count("in"), 2), min(where.count("out"), 2), min(where.count("p"), 2),
        min(where.count("k"), 2))
    return B, shape


def snake_spans(d):
    """(cap, cup) index pairs of the snakes of d (independent wire labelling, as leftover_snake)."""
    from discopy.rigid import Cup, Cap
    consumed, _ = wire_labels(d)
    out = []
    for j, cons in enumerate(consumed):
        if not isinstance(d.boxes[j], Cup):
            continue
        for port, lab in enumerate(cons):
            if lab[0] == "in" or not isinstance(d.boxes[lab[0]], Cap):
                continue
            cap, cup = d.boxes[lab[0]], d.boxes[j]
            if (lab[1] == 0 and port == 1 and cup.dom[:1] == cap.cod[1:]) \
                    or (lab[1] == 1 and port == 0 and cup.dom[1:] == cap.cod[:1]):
                out.append((lab[0], j))
    return out


def same_object_groups(d):
    """Groups of positions of d.boxes holding the very same Python object (length >= 2)."""
    seen = {}
    for i, b in enumerate(d.boxes):
        seen.setdefault(id(b), []).append(i)
    return sorted(g for g in seen.values() if len(g) > 1)


def leftover_snake(d):
    """A cap whose leg runs straight into the opposite leg of a cup forming a snake equation."""
    from discopy.rigid import Cup, Cap
    consumed, _ = wire_labels(d)
    for j, cons in enumerate(consumed):
        if not isinstance(d.boxes[j], Cup):
            continue
        for port, lab in enumerate(cons):
            if lab[0] == "in" or not isinstance(d.boxes[lab[0]], Cap):
                continue
            cap, cup = d.boxes[lab[0]], d.boxes[j]
            if lab[1] == 0 and port == 1 and cup.dom[:1] == cap.cod[1:]:
                return "left snake cap %d cup %d" % (lab[0], j)
            if lab[1] == 1 and port == 0 and cup.dom[1:] == cap.cod[:1]:
                return "right snake cap %d cup %d" % (lab[0], j)
    return None


def leg_status(d):
    """For every cap of d BOTH of whose legs run straight into cups: how each leg meets its cup
    (independent wire labelling): genuine | mismatch (right place, no snake equation) | same-side."""
    from discopy.rigid import Cup, Cap
    consumed, _ = wire_labels(d)
    where = {}
    for j, cons in enumerate(consumed):
        for port, lab in enumerate(cons):
            if lab[0] != "in":
                where[lab] = (j, port)
    out = []
    for i, cap in enumerate(d.boxes):
        if not isinstance(cap, Cap):
            continue
        st = []
        for leg in (0, 1):
            j, port = where.get((i, leg), (None, None))
            if j is None or not isinstance(d.boxes[j], Cup):
                break
            cup = d.boxes[j]
            if port == leg:
                st.append("same-side")
            elif leg == 0:
                st.append("genuine" if cup.dom[:1] == cap.cod[1:] else "mismatch")
            else:
                st.append("genuine" if cup.dom[1:] == cap.cod[:1] else "mismatch")
        if len(st) == 2:
            out.append("L=%s,R=%s" % tuple(st))
    return out


def both_way_redex(d):
    """Adjacent boxes i, i+1 with box i's codomain and box i+1's domain empty at the same offset."""
    return any(len(d.boxes[i].cod) == 0 and len(d.boxes[i + 1].dom) == 0
               and d.offsets[i] == d.offsets[i + 1] for i in range(len(d.boxes) - 1))


def pinned(fam):
    """A few fixed witnesses of the two regions (the generators above visit them at random)."""
    m = fam.m
    Id, Cap, Cup, Box, Ty = m.Id, m.Cap, m.Cup, m.Box, m.Ty
    n, x, y, z = Ty("n"), Ty("x"), Ty("y"), Ty("z")
    f, g = Box("f", x, n @ n.r @ y), Box("g", n @ n.l @ y, z)
    e, st = Box("e", n @ n, Ty()), Box("s", Ty(), n @ n.l)
    h = Box("h", n, n)
    return [
        # cap with a type-mismatched cup on its left leg and a genuine right-handed snake
        Id(n.r) @ Cap(n, n.l) @ Id(n) >> Cup(n.r, n) @ Id(n.l @ n) >> Cup(n.l, n),
        # mirror image: genuine left-handed snake, type-mismatched cup on the right leg
        Id(n) @ Cap(n.r, n) @ Id(n.l) >> Id(n @ n.r) @ Cup(n, n.l) >> Cup(n, n.r),
        # cup directly above a cap at the same offset, connected through the wire y
        f >> Cup(n, n.r) @ Id(y) >> Cap(n, n.l) @ Id(y) >> g,
        # the same on the right of the connecting wire, with an effect and a state
        Box("f", x, y @ n @ n) >> Id(y) @ e >> Id(y) @ st >> Box("g", y @ n @ n.l, z),
        # ONE box object h obstructing a snake twice: twice on the outgoing wire; on the incoming
        # and on the outgoing wire; the same for the right-handed mirror images
        Id(n) @ Cap(n.r, n) >> Id(n @ n.r) @ h >> Id(n @ n.r) @ h >> Cup(n, n.r) @ Id(n),
        Id(n) @ Cap(n.r, n) >> Id(n @ n.r) @ h >> h @ Id(n.r @ n) >> Cup(n, n.r) @ Id(n),
        Cap(n, n.l) @ Id(n) >> h @ Id(n.l @ n) >> h @ Id(n.l @ n) >> Id(n) @ Cup(n.l, n),
        Cap(n, n.l) @ Id(n) >> Id(n @ n.l) @ h >> h @ Id(n.l @ n) >> Id(n) @ Cup(n.l, n),
    ]


def run(tier, seed, replay=None):
    from discopy import rigid
    rep = Report(PROP, tier, seed)
    rep.rule = ("random rigid diagrams (boxes, swaps, cups, caps, winding numbers -2..2) with 1-2 "
                "inserted left/right snakes, 15% wrong-handed straight cap/cup pairs; nested (spiral) "
                "snakes; PRO diagrams with loops; caps BOTH of whose legs enter cups (genuine / "
                "type-mismatched / blocked / same-side on each leg, outer wires from boundary, state "
                "or outer cap); one-atom zigzag diagrams; effect-directly-above-state stacks at one "
                "offset inside connected diagrams; all shuffled by random legal exchanges to create "
                "obstructions on either side; BOTH `left` settings for normalize and normal_form on "
                "every diagram; non-trivial = at least one cap/cup pair removed or a step in which "
                "two adjacent boxes can be interchanged either way")
    rep.partial = ["termination of the monoidal normal form that follows the snake loop is not "
                   "proved (C06's gap): it is TESTED here on every connected diagram for both "
                   "`left` values (trace within 4(n+1)^3+32 steps, no step repeated, normal_form "
                   "raises nothing); the snake loop itself (find_snake/unsnake with its index "
                   "re-numbering over whole obstruction lists) is proved total, accepted step by "
                   "step and snake-free at exit for the model, and the functional comparison with "
                   "the model's transcription ties that model to the code on every run"]
    rep.lean = lean_obligations(PROP, thorough=(tier == "thorough"))
    n_diagrams = 600 if tier == "quick" else 9000
    n_same = 130 if tier == "quick" else 1500      # extra diagrams of the family `same_box_snake`
    n_long = 14 if tier == "quick" else 60         # SCALING family `long_spiral` (traces > n**2 steps)
    rng = random.Random(seed)
    irng = random.Random("C07-object-identity-%d" % seed)   # its own stream: the others are unchanged
    drv = Driver()
    fam_fresh = fam = Family("rigid")
    fam_pro_fresh = Family("pro")
    try:
        todo_pinned = pinned(fam)
    except Exception as exc:
        todo_pinned = []
        rep.fail("construction_raises:" + err_class(exc), dict(family="pinned"), repr(exc)[:200])
    try:
        for k in range(-len(todo_pinned), n_diagrams + n_same + n_long):
            sub = random.Random(rng.getrandbits(64))
            which = k % 12 if k < n_diagrams else 12 if k < n_diagrams + n_same else 13
            e1 = None
            # object identity: a third of the diagrams (all of family 12 but one in six) are built by
            # a family that hands out the SAME Box object for the same spec
            fam, fam_pro = fam_fresh, fam_pro_fresh
            if k >= 0 and (which == 12 or irng.random() < 0.34):
                p_same = irng.choice([1.0, 1.0, 1.0, 1.0, 0.6, 0.0] if which == 12 else [1.0, 1.0, 0.6])
                fam, fam_pro = fam_fresh.shared(irng, p_same), fam_pro_fresh.shared(irng, p_same)
                rep.count("boxes_interned:p=%s" % p_same)
            try:
                if k < 0:
                    kinds, d = ["pinned"], todo_pinned[k]
                elif which == 13:
                    d, shape = long_spiral(sub, fam_fresh, 7 if tier == "quick" else 9)
                    kinds = ["long_spiral"]
                    for tok in shape.split(":"):
                        rep.count("long_spiral:" + tok)
                elif which == 12:
                    B, shape = same_box_snake(sub)
                    rep.count("same_box_snake:" + shape.split(":")[0])
                    for tok in shape.split(":")[1].split(","):
                        rep.count("same_box_snake:" + tok)
                    e1, kinds = B.expr(), ["same_box_snake"]
                    if rng.random() < 0.25:
                        e1, more = insert_snakes(rng, e1, B.scans)
                        kinds += more
                    e1 = wrap(rng, e1, rep)
                    d = shuffle_exchanges(rng, fam.run(e1), tries=rng.choice([0, 0, 3, 10]))
                elif which == 5:
                    e1, kinds = pro_diagram(sub, rng.randint(2, 6)), ["pro"]
                    d = shuffle_exchanges(rng, fam_pro.run(e1))
                elif which == 4:
                    kinds = ["spiral"]
                    d = spiral_snake(sub, fam)
                    if rng.random() < 0.5:
                        d = shuffle_exchanges(rng, d, tries=6)
                elif which in (6, 9):
                    B, combo = double_leg(sub)
                    rep.count("double_leg:" + combo)
                    e1, kinds = B.expr(), ["double_leg"]
                    if which == 9:
                        e1, more = insert_snakes(rng, e1, B.scans)
                        kinds += more
                    e1 = wrap(rng, e1, rep)
                    d = shuffle_exchanges(rng, fam.run(e1), tries=rng.choice([0, 5, 25]))
                elif which in (7, 11):
                    B = zigzag(sub, rng.randint(3, 9))
                    e1, kinds = B.expr(), ["zigzag"]
                    if which == 11 and rng.random() < 0.5:
                        e1, more = insert_snakes(rng, e1, B.scans)
                        kinds += more
                    e1 = wrap(rng, e1, rep)
                    d = shuffle_exchanges(rng, fam.run(e1), tries=rng.choice([0, 5, 25]))
                elif which in (8, 10):
                    B, shape = effect_over_state(sub)
                    for tok in shape.split(">"):
                        rep.count("effect_over_state:" + tok)
                    e1, kinds = B.expr(), ["effect_over_state"]
                    if which == 10:
                        e1, more = insert_snakes(rng, e1, B.scans)
                        kinds += more
                    e1 = wrap(rng, e1, rep)
                    d = shuffle_exchanges(rng, fam.run(e1), tries=rng.choice([0, 0, 3, 10]))
                else:
                    g = Gen(sub, rigid=True, maxw=5)
                    e0, scans = g.diagram(depth=rng.choice([0, 1, 2, 2, 3, 3, 4, 5]))
                    e1, kinds = insert_snakes(rng, e0, scans) if rng.random() < 0.8 else (e0, [])
                    e1 = wrap(rng, e1, rep)
                    d = shuffle_exchanges(rng, fam.run(e1))
                e = spec_diagram(d)
            except AssertionError:        # a bug of the generators above, not of the library
                raise
            except Exception as exc:      # the constructors of a well-typed diagram must not raise
                rep.fail("construction_raises:" + err_class(exc), dict(family=which, k=k, expr=repr(e1)),
                         repr(exc)[:200])
                continue
            for kd in kinds or ["none"]:
                rep.count("inserted:" + kd)
            for st in leg_status(d):
                rep.count("cap_both_legs_in_cups:" + st)
            conn = is_connected(d)
            rep.count("connected" if conn else "disconnected")
            n = len(d.boxes)
            same = same_object_groups(d)
            if same:
                rep.count("diagrams_with_one_object_twice")
                twice = [g for g in same for c, u in snake_spans(d) if sum(c < i < u for i in g) >= 2]
                if twice:
                    rep.count("snake_obstructed_twice_by_one_object" + (":connected" if conn else ""))
                    if any(len(g) >= 3 for g in twice):
                        rep.count("snake_obstructed_3_times_by_one_object")
            limit = trace_bound(n) if conn else CAP
            for left in (False, True):
                case = dict(expr=repr(e), left=left, connected=conn)
                if same:
                    case["same_object_at"] = same   # positions of `boxes` holding ONE Python object
                steps, seen, revisit, err = [], set(), None, None
                try:
                    for s in itertools.islice(d.normalize(left=left), limit):
                        steps.append(s)
                        # a repeated step is what makes normal_form give up; on a disconnected
                        # diagram read a few more steps of the cycle, then stop
                        key = (tuple(map(repr, s.boxes)), tuple(s.offsets))
                        if key in seen and revisit is None:
                            revisit = len(steps) - 1
                        seen.add(key)
                        if revisit is not None and (conn or len(steps) > revisit + 4):
                            break
                except Exception as exc:
                    err = err_class(exc)
                finished = err is None and revisit is None and len(steps) < limit
                if err is not None:
                    rep.fail("normalize_raises:" + err, case, "normalize raised %s after %d steps"
                             % (err, len(steps)))
                    rep.case("err %d " % left + tok_expr(e), False)
                    continue
                if conn and revisit is not None:
                    rep.fail("connected_does_not_terminate", case,
                             "normalize(left=%s) on a connected diagram with %d boxes: step %d repeats "
                             "an earlier step, the trace cycles for ever" % (left, n, revisit))
                elif conn and not finished:
                    rep.fail("connected_does_not_terminate", case,
                             "normalize(left=%s) on a connected diagram with %d boxes yields more "
                             "than %d steps" % (left, n, limit))
                removed = (len(d.boxes) - len(steps[-1].boxes)) // 2 if steps else 0
                rep.count("pairs_removed:%d" % min(removed, 4))
                if which == 13:
                    rep.count("long_spiral:trace_%s_n_squared" % ("over" if len(steps) > n * n else "under"))
                both_way = any(both_way_redex(s) for s in [d] + steps[:CAP])
                if both_way:
                    rep.count("both_way_redex_seen:left=%d" % left)
                sent = steps if finished else steps[:CAP]     # a finished trace is judged whole
                line = "strace %d %s %s" % (
                    1 if left else 0, tok_expr(e),
                    " ".join([str(len(sent))] + [tok_expr(spec_diagram(s)) for s in sent]))
                ans = drv.ask(line)
                if finished:
                    if ans != "accepted terminal=1 snakefree=1":
                        rep.disagree("strace", case, "accepted terminal=1 snakefree=1", ans)
                elif not ans.startswith("accepted"):
                    rep.disagree("strace", case, "accepted ...", ans)
                if finished:
                    mine = drv.ask("snake %d %d %s" % (1 if left else 0, len(steps) + 2, tok_expr(e)))
                    real = "ok 1 " + " ".join([str(len(steps))] + [ser_diagram(s) for s in steps])
                    if mine != real:
                        rep.disagree("snake", case, real[:400], mine[:400])
                elif conn:
                    # the code does not terminate: the model's transcription must not either
                    mine = drv.ask("snake %d %d %s" % (1 if left else 0, 40, tok_expr(e)))
                    if not mine.startswith("ok 0 "):
                        rep.disagree("snake", case, "no termination (%d steps read)" % len(steps),
                                     mine[:400])
                rep.case(line, removed >= 1 or both_way)
                rep.sample(dict(request=line[:300], answer=ans))
                # the spirals are up to 2 * 9 + 3 wires wide: one-dimensional wires there (the
                # family is about termination; the semantics of its steps is covered elsewhere)
                F = IntFunctor(random.Random(rng.getrandbits(32)), maxdim=1 if which == 13 else 2)
                ref = F.eval(d)
                for idx, s in enumerate(steps[:60]):
                    why = wf_failure(s)
                    if why:
                        rep.fail("illtyped_step", case, "step %d: %s" % (idx, why))
                        break
                    if s.dom != d.dom or s.cod != d.cod:
                        rep.fail("step_type_changed", case, "step %d" % idx)
                    if not np.array_equal(F.eval(s), ref):
                        rep.fail("step_semantics_changed", case, "step %d" % idx)
                        break
                if finished:
                    last = steps[-1] if steps else d
                    left_over = leftover_snake(last)
                    if left_over:
                        rep.fail("snake_left_in_result", case, left_over)
                # normal_form: only NotImplementedError may escape, and only if disconnected
                try:
                    nf = d.normal_form(left=left)
                    if finished and nf != (steps[-1] if steps else d):
                        rep.fail("normal_form_not_last_step", case, "normal_form != last yielded step")
                    if not finished:
                        why = wf_failure(nf)
                        if why or nf.dom != d.dom or nf.cod != d.cod:
                            rep.fail("illtyped_step", case, "normal_form: %s" % (why or "dom/cod changed"))
                        elif not np.array_equal(F.eval(nf), ref):
                            rep.fail("step_semantics_changed", case, "normal_form")
                        elif leftover_snake(nf):
                            rep.fail("snake_left_in_result", case, "normal_form: " + leftover_snake(nf))
                except NotImplementedError:
                    rep.count("nf:notimpl")
                    if conn:
                        rep.fail("connected_not_normalised", case,
                                 "normal_form(left=%s) raised NotImplementedError on a connected "
                                 "diagram (%d boxes)" % (left, n))
                except Exception as exc:
                    rep.fail("normal_form_raises:" + err_class(exc), case, repr(exc)[:200])
    finally:
        drv.close()
    return rep.finish()
