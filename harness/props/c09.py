"""C09 — evaluating a diagram computes its compositional meaning.

Streams:
* `functor-eval`  random rigid diagrams under `tensor.Functor(ob, ar)` and random
                  `tensor.Diagram`s under `.eval()`, against the model's single-pass loop
                  (`feval`), exact, including error classes;
* `layers-model`  the model's layer-by-layer composite (`flayers`) must give the same answer
                  (the equality the Lean theorem proves, observed on every generated case);
* `hypotheses`    `fgenuine`: every generated diagram meets the hypothesis of the theorem;
* the oracle      on the real-code results only, with independent numpy code (np.kron of
                  identities and box matrices, matrix products): the compositional meaning,
                  invariance under interchange / normal forms (also with snakes inserted on
                  purpose), `Diagram.eval` = identity-on-arrays functor, sums, bubbles.
* `bubble-eval`   random tensor.Diagrams whose boxes may be `tensor.Bubble`s (nested; several
                  bubbles around EQUAL insides with different functions; functions whose Python
                  return type depends on the argument; same-name boxes with different arrays;
                  shared / equal-but-not-identical objects; arrays that print alike) under
                  `.eval()`, against the model's `BFunctor.call` (`bfeval`), exact over Z[i];
* `bubble-layers-model` / `bubble-hypotheses`   `bflayers` (= `BFunctor.ref`, the equality of
                  `functor_eval_eq_layers_bubbles`) and `bfgood` (its hypotheses) on every case;
* `history-eval`  histories with MUTABLE box data (thistlib.py): first uses, rounds of in-place updates, then
                  the same diagram object / rebuilt / new diagrams from the same box objects / explicit
                  functors / boxes alone, against the model asked with the CURRENT data and the oracle on it;
                  tensor diagrams with bubbles, rigid diagrams under one Functor object, circuits of custom
                  gates, rotations with ndarray phases (float, oracle only).
* `dtype-eval`    (tdtypelib) diagrams with daggered generators whose arrays are object-dtype (sympy numbers, mixed
                  Python numbers, symbols substituted afterwards), int/uint/float/complex/bool ndarrays, mixed lists;
                  oracle `dtypes:*` (layer composite, adjoint of daggered boxes), model `feval` where integral;
* `sum-eval`      formal sums with 0-3 terms: F(sum) is a Tensor of the image types (oracle `sum_typed:*`, also
                  sum >> sum, sum @ sum, diagram >> empty sum, bubbles around sums, Sum.eval) and equals the model's
                  Sum branch `fsum` (TFunctor.callSum);
* `bare-box`, `bare-box-one-box-diagram`   functor(box) / box.eval() on bare box objects of every class vs the
                  defining tensor, the one-box diagram, the model's `fbox` and `feval` of the one-box diagram;
* float stream    the same generator with real float arrays and relu / sigmoid / tanh / ...:
                  outside the model, oracle only (independent numpy-kron layer composite,
                  functions re-implemented with `math`), tolerance `tbubblelib.FLOAT_RTOL`.
"""
import os
import random

os.environ.setdefault("OPENBLAS_NUM_THREADS", "1")
os.environ.setdefault("OMP_NUM_THREADS", "1")

import numpy as np  # noqa: E402

from common import Report, lean_obligations, err_class  # noqa: E402
from core import tok_expr  # noqa: E402
import tensorlib as tl  # noqa: E402
import tbubblelib as bl  # noqa: E402
import thistlib as th  # noqa: E402
import tdtypelib as dt  # noqa: E402
from tensorlib import eff, size, exact_eq  # noqa: E402

PROP = "C09"


# ------------------------------------------------------------------ case helpers

def mkbox(kind, dom, cod):
    return dict(kind=kind, name=None, dom=list(dom), cod=list(cod), dagger=False, data=None)


def scans_of(e):
    _, dom, _cod, boxes, offsets = e
    scan, out = list(dom), [list(dom)]
    for b, off in zip(boxes, offsets):
        scan = scan[:off] + list(b["cod"]) + scan[off + len(b["dom"]):]
        out.append(list(scan))
    return out


def insert_snake(rng, e, rigid):
    """The same diagram with a snake (cap then cup, yankable) inserted on one wire, with up to
    two of the original boxes left between the cap and the cup as obstructions."""
    _, dom, cod, boxes, offsets = e
    scans = scans_of(e)
    k = rng.randint(0, len(boxes))
    if not scans[k]:
        return None
    p = rng.randrange(len(scans[k]))
    n, z = scans[k][p]
    left = rng.random() < 0.5
    if left:        # Id(t) @ Cap(t.r, t) >> Cup(t, t.r) @ Id(t)
        zz = z + 1 if rigid else 0
        cap, cap_off = mkbox("a", [], [(n, zz), (n, z)]), p + 1
        cup = mkbox("u", [(n, z), (n, zz)], [])
    else:           # Cap(t, t.l) @ Id(t) >> Id(t) @ Cup(t.l, t)
        zz = z - 1 if rigid else 0
        cap, cap_off = mkbox("a", [], [(n, z), (n, zz)]), p
        cup = mkbox("u", [(n, zz), (n, z)], [])
    between, boffs, m = [], [], 0
    for b, off in zip(boxes[k:k + rng.randint(0, 2)], offsets[k:]):
        if off + len(b["dom"]) <= p:            # entirely left of the wire
            between.append(b), boffs.append(off)
            p += len(b["cod"]) - len(b["dom"])
        elif off > p:                           # entirely right of it: two more wires before
            between.append(b), boffs.append(off + 2)
        else:
            break
        m += 1
    cup_off = p if left else p + 1
    nb = boxes[:k] + [cap] + between + [cup] + boxes[k + m:]
    no = list(offsets[:k]) + [cap_off] + boffs + [cup_off] + list(offsets[k + m:])
    return ("mk", list(dom), list(cod), nb, no), ("left" if left else "right"), m


def box_kind(case, b):
    if b["kind"] == "g":
        spec = dict(case.ars_by_key()).get(tl.box_key(tl.undagger(b)))
        if isinstance(spec, tuple):
            return "spider"
        return "daggered_gen" if b["dagger"] else "gen"
    return {"s": "swap", "u": "cup", "a": "cap"}[b["kind"]]


def ob_style(v):
    if isinstance(v, int):
        return "int:1" if v == 1 else "int"
    e = eff(v)
    return "Dim(1)" if not e else "Dim:single" if len(e) == 1 else \
        "Dim:multi_palindromic" if e == e[::-1] else "Dim:multi"


def used_names(e):
    _, dom, cod, boxes, _ = e
    out = {n for n, _ in list(dom) + list(cod)}
    for b in boxes:
        out |= {n for n, _ in list(b["dom"]) + list(b["cod"])}
    return out


def nontrivial(case):
    """>= 2 boxes, some box with a wire of dimension >= 2, running width (tensor axes) >= 2."""
    _, dom, cod, boxes, offsets = case.e
    if len(boxes) < 2:
        return False
    if not any(any(d >= 2 for d in case.fdims(list(b["dom"]) + list(b["cod"]))) for b in boxes):
        return False
    return max(len(case.fdims(s)) for s in scans_of(case.e)) >= 2


def layers_cost(case):
    """Multiply-adds of the layer-by-layer composite (what `flayers` computes)."""
    sc = [size(case.fdims(x)) for x in scans_of(case.e)]
    return sum((sc[0] + 2) * a * b for a, b in zip(sc, sc[1:]))


def make_case(rng, k, quick):
    maxdim = 3 if quick else 4
    kw = dict(maxdim=maxdim, maxw=4 if quick else 5, maxdepth=6 if quick else 9,
              limit=3000 if quick else 8000, work=150000 if quick else 500000)
    if k % 2:
        case = tl.rigid_case(rng, multi=0.35, **kw)
    else:
        case = tl.tensor_case(rng, **kw)
    info = dict(snake=None)
    if rng.random() < 0.3:
        got = insert_snake(rng, case.e, case.family == "rigid")
        if got is not None:
            e2, side, m = got
            c2 = tl.FCase(case.family, e2, case.ob, case.ars, case.ob_style, case.ar_style)
            worst, total = tl.case_cost(c2)
            if worst <= kw["limit"] and total <= kw["work"]:
                case, info = c2, dict(snake=side, obstructions=m)
    return case, info


# ------------------------------------------------------------------ the oracle

class Oracle:
    def __init__(self, rep, case, desc):
        self.rep, self.case, self.desc = rep, case, desc

    def fail(self, name, text):
        self.rep.fail("c09:" + name, self.desc, text)

    def same(self, name, t, dom, cod, m):
        """The real Tensor `t` has the expected type, shape and matrix."""
        self.rep.count("oracle.check:" + name)
        dom, cod = eff(dom), eff(cod)
        if tl.dims_of(t.dom) != dom or tl.dims_of(t.cod) != cod:
            return self.fail(name, "dom/cod %r -> %r, expected %r -> %r" % (t.dom, t.cod, dom, cod))
        a = np.asarray(t.array)
        if tuple(a.shape) != (tuple(dom + cod) or (1,)):
            return self.fail(name, "array.shape %r, expected %r" % (a.shape, tuple(dom + cod)))
        if max(tl.absbound(a), tl.absbound(m)) >= tl.EXACT_LIMIT:
            self.rep.count("oracle.skipped:inexact")
            return None
        got = a.reshape(size(dom), size(cod))
        if not exact_eq(got, m):
            bad = np.argwhere(got != m)
            self.fail(name, "matrix differs at %d of %d entries, first at %r: got %r, expected %r"
                      % (len(bad), got.size, tuple(bad[0]), got[tuple(bad[0])], m[tuple(bad[0])]))
        return None


    def close(self, name, t, dom, cod, m):
        """Float stream: type and shape as in `same`, entries within `bl.FLOAT_RTOL` of the
        expected matrix relative to its largest entry (at least 1).  Never `==`."""
        self.rep.count("oracle.check:" + name)
        dom, cod = eff(dom), eff(cod)
        if tl.dims_of(t.dom) != dom or tl.dims_of(t.cod) != cod:
            return self.fail(name, "dom/cod %r -> %r, expected %r -> %r" % (t.dom, t.cod, dom, cod))
        a = np.asarray(t.array)
        if tuple(a.shape) != (tuple(dom + cod) or (1,)):
            return self.fail(name, "array.shape %r, expected %r" % (a.shape, tuple(dom + cod)))
        try:
            got = a.astype(complex).reshape(size(dom), size(cod))
        except (TypeError, ValueError) as exc:
            return self.fail(name, "array of dtype %s is not numeric: %r" % (a.dtype, exc))
        m = np.asarray(m, dtype=complex)
        if not np.all(np.isfinite(m)):
            self.rep.count("oracle.skipped:non_finite_reference")
            return None
        tol = bl.FLOAT_RTOL * max(1.0, float(np.max(np.abs(m))) if m.size else 1.0)
        diff = np.abs(got - m)
        if not np.all(diff <= tol):        # also catches nan in `got`
            bad = np.argwhere(~(diff <= tol))
            self.fail(name, "matrix differs (tolerance %.3g) at %d of %d entries, first at %r: "
                      "got %r, expected %r" % (tol, len(bad), got.size, tuple(bad[0]),
                                               got[tuple(bad[0])], m[tuple(bad[0])]))
        return None


def new_arrays(rng, case, rename):
    """The same diagram spec with fresh arrays (rigid: boxes renamed so that one functor can
    interpret both)."""
    ars2, ren = [], {}
    for b, a in case.ars:
        if isinstance(a, tuple):
            ars2.append((b, a))
            continue
        nb = dict(b, name=b["name"] + "'") if rename else b
        ren[tl.box_key(b)] = nb
        ars2.append((nb, tl.rand_array(rng, np.asarray(a).shape)))
    if not rename:
        return case.e, ars2
    _, dom, cod, boxes, offsets = case.e
    nboxes = []
    for b in boxes:
        if b["kind"] == "g" and tl.box_key(tl.undagger(b)) in ren:     # (spiders keep their name)
            ub = ren[tl.box_key(tl.undagger(b))]
            b = dict(b, name=ub["name"])
        nboxes.append(b)
    return ("mk", dom, cod, nboxes, offsets), ars2


def oracle(rep, rng, case, desc, real_value, real_answer, extra=None):
    from discopy import monoidal, tensor
    from discopy.rewriting import InterchangerError
    orc = Oracle(rep, case, desc)
    fam = case.family
    _, dom, cod, boxes, offsets = case.e
    try:
        ref = case.ref_layers()
        ref_err = None
    except ValueError as exc:     # non-adjoint cup/cap image, or an array of the wrong size
        ref, ref_err = None, str(exc)[:60]
    if real_value is None:
        # the real code refused: the statement only applies if the interpretation is valid
        if ref_err is None:
            orc.fail("raises_on_valid_interpretation:" + real_answer,
                     "real code answered %r but every box has a well-defined tensor" % real_answer)
        else:
            rep.count("oracle.not_applicable:" + real_answer.replace(" ", "_"))
        return
    if ref is None:
        rep.count("oracle.reference_undefined_but_real_ok")
        return
    fdom, fcod = case.fdims(dom), case.fdims(cod)
    # (a) compositional meaning
    orc.same("layer_composite:" + fam, real_value, fdom, fcod, ref)
    d = case.real_diagram()
    if fam == "rigid":
        F = case.real_functor()
    else:
        F = tensor.Functor(ob=lambda x: x, ar=lambda f: f.array)
        # (c) Diagram.eval is the identity-on-arrays functor
        orc.same("eval_is_identity_functor", F(d), fdom, fcod, ref)
    # (b) invariance under normal forms and interchange
    def shape_of(x):
        return [(id(b), o) for b, o in zip(x.boxes, x.offsets)]
    seen = [shape_of(d)]
    for name, fn in (("monoidal_normal_form", lambda: monoidal.Diagram.normal_form(d)),
                     ("rigid_normal_form", lambda: d.normal_form())):
        try:
            nf = fn()
        except Exception as exc:      # not connected, or snake removal gave up: not applicable
            rep.count("oracle.%s:skipped:%s" % (name, err_class(exc)))
            continue
        rep.count("oracle.%s:%s" % (name, "shorter" if len(nf) < len(d) else
                                    "unchanged" if shape_of(nf) == seen[0] else "rewritten"))
        if shape_of(nf) in seen:      # literally the diagram already evaluated
            continue
        seen.append(shape_of(nf))
        try:
            orc.same("invariant:" + name, F(nf), fdom, fcod, ref)
        except Exception as exc:
            orc.fail("invariant:%s:raises" % name, "F(normal form) raised %r" % (exc,))
    for _ in range(2):
        if len(boxes) < 2:
            break
        i = rng.randrange(len(boxes) - 1)
        left = rng.random() < 0.5
        try:
            d2 = d.interchange(i, i + 1, left=left)
        except InterchangerError:
            rep.count("oracle.interchange:refused")
            continue
        rep.count("oracle.interchange:done")
        try:
            orc.same("invariant:interchange", F(d2), fdom, fcod, ref)
        except Exception as exc:
            orc.fail("invariant:interchange:raises", "F(interchanged) raised %r" % (exc,))
    # (d) sums
    try:
        e2, ars2 = new_arrays(rng, case, rename=(fam == "rigid"))
        c2 = tl.FCase(fam, e2, case.ob, ars2, case.ob_style, case.ar_style)
        d2, ref2 = c2.real_diagram(), c2.ref_layers()
        terms, want = [d, d2], ref + ref2
        if rng.random() < 0.4:
            terms, want = [d, d2, d], ref + ref2 + ref
        total = terms[0]
        for t in terms[1:]:
            total = total + t
        if fam == "rigid":
            both = tl.FCase(fam, case.e, case.ob, list(case.ars) + [
                x for x in ars2 if not isinstance(x[1], tuple)], case.ob_style, case.ar_style)
            F2 = both.real_functor()
            whole = F2(total)
            orc.same("sum:functor", whole, fdom, fcod, want)
            parts = [np.asarray(real_value.array), np.asarray(F2(d2).array)]
            parts += parts[:1] * (len(terms) - 2)
            if not exact_eq(np.asarray(whole.array), sum(parts[1:], parts[0])):
                orc.fail("sum:additive", "F(d1 + d2).array != F(d1).array + F(d2).array")
        else:
            orc.same("sum:Sum.eval", total.eval(), fdom, fcod, want)
            orc.same("sum:functor", F(total), fdom, fcod, want)
        rep.count("oracle.sum_terms:%d" % len(terms))
    except tl.Inexact:
        rep.count("oracle.skipped:inexact")
    except Exception as exc:
        orc.fail("sum:raises", "%r" % (exc,))
    # (e) bubbles: elementwise function of the inside's tensor; alone and inside a diagram
    try:
        func = rng.choice([("square", lambda x: x * x), ("plus_one", lambda x: x + 1),
                           ("conj_double", lambda x: 2 * np.conjugate(x))])
        fm = np.vectorize(func[1], otypes=[complex])(ref) if ref.size else ref
        if fam == "rigid":
            bub = tensor.Bubble(d, func=func[1])
            ev = lambda x: F(x)  # noqa: E731
        else:
            bub = d.bubble(func=func[1])
            ev = lambda x: x.eval()  # noqa: E731
            if not isinstance(bub, tensor.Bubble):
                orc.fail("bubble:factory", "d.bubble() is a %s" % type(bub).__name__)
        orc.same("bubble:alone:" + fam, ev(bub), fdom, fcod, fm)
        if fam == "tensor" and size(fdom) * size(fcod) <= 600:
            # pre >> Id(l) @ bubble @ Id(r) >> post with fresh tensor boxes
            l, r = tl.rand_dims(rng, 3, 0, 1), tl.rand_dims(rng, 3, 0, 1)
            x, y = tl.rand_dims(rng, 3, 0, 2), tl.rand_dims(rng, 3, 0, 2)
            D = lambda v: tensor.Dim(*v)  # noqa: E731
            mid_in, mid_out = l + fdom + r, l + fcod + r
            pa = tl.rand_array(rng, [size(x), size(mid_in)])
            qa = tl.rand_array(rng, [size(mid_out), size(y)])
            pre = tensor.Box("pre", D(x), D(mid_in), list(pa.reshape(-1)))
            post = tensor.Box("post", D(mid_out), D(y), list(qa.reshape(-1)))
            big = pre >> tensor.Id(D(l)) @ bub @ tensor.Id(D(r)) >> post
            want = pa @ np.kron(np.kron(np.identity(size(l)), fm), np.identity(size(r))) @ qa
            orc.same("bubble:inside_diagram", big.eval(), x, y, want)
    except tl.Inexact:
        rep.count("oracle.skipped:inexact")
    except Exception as exc:
        orc.fail("bubble:raises", "%r" % (exc,))
    # (f) two bubbles around this SAME diagram with different functions, side by side, with
    #     functions whose Python return type depends on the argument; both families
    try:
        if ref.size and ref.size <= 36 and rng.random() < 0.5:
            f1, f2 = bl.exact_fun(rng), bl.exact_fun(rng)
            spec = lambda f: np.array([complex(f.spec(complex(v))) for v in ref.reshape(-1)],  # noqa: E731
                                      dtype=complex).reshape(ref.shape)
            m1, m2 = spec(f1), spec(f2)
            kw = lambda f: {} if f.py is None else {"func": f.py}  # noqa: E731
            b1, b2 = tensor.Bubble(d, **kw(f1)), tensor.Bubble(d, **kw(f2))
            ev = (lambda x: F(x)) if fam == "rigid" else (lambda x: x.eval())  # noqa: E731
            rep.count("oracle.bubble_pair:%s:%s" % (fam, "other_func" if f1.token != f2.token
                                                     else "same_func"))
            orc.same("bubble:alone_nonuniform:" + fam, ev(b1), fdom, fcod, m1)
            orc.same("bubble:pair_equal_inside:" + fam, ev(b1 @ b2), fdom + fdom, fcod + fcod,
                     np.kron(m1, m2))
            if list(dom) == list(cod):
                orc.same("bubble:sequence_equal_inside:" + fam, ev(b1 >> b2), fdom, fcod, m1 @ m2)
    except tl.Inexact:
        rep.count("oracle.skipped:inexact")
    except Exception as exc:
        orc.fail("bubble_pair:raises", "%r" % (exc,))
    if extra is None:
        return
    # (g) the functor / eval applied to bare box OBJECTS; (h) formal sums with 0..3 terms, typed
    rng2, reqs, answers, plan, sum_answer = extra
    try:
        dt.bare_box_checks(rep, case, desc, d, F, reqs, answers)
    except tl.Inexact:
        rep.count("oracle.skipped:inexact")
    except Exception as exc:
        orc.fail("bare_box:raises", "%r" % (exc,))
    try:
        dt.sum_checks(rep, rng2, case, desc, sum_variants(plan), plan["n"], plan["line"], sum_answer)
    except tl.Inexact:
        rep.count("oracle.skipped:inexact")
    except Exception as exc:
        orc.fail("sum_typed:raises", "%r" % (exc,))


def sum_variant_cases(rng, case):
    """The case and two copies with fresh arrays and renamed boxes (specs only), and the case whose
    functor interprets them all."""
    fam = case.family
    cs, cur = [case], case
    for _ in range(2):
        e2, ars2 = new_arrays(rng, cur, rename=True)
        cur = tl.FCase(fam, e2, case.ob, ars2, case.ob_style, case.ar_style)
        cs.append(cur)
    allars = list(case.ars) + [x for c in cs[1:] for x in c.ars if not isinstance(x[1], tuple)]
    return cs, tl.FCase(fam, case.e, case.ob, allars, case.ob_style, case.ar_style)


def sum_plan(rng, case):
    """What the sum stream does with this case, decided before the driver is asked: the variants, the
    number of terms, and the model request `fsum` (TFunctor.callSum) for the sum of that many terms."""
    from core import tok_ty
    cs, both = sum_variant_cases(rng, case)
    n = rng.choice([0, 0, 0, 1, 1, 2, 3])
    _, dom, cod, _, _ = case.e
    line = "fsum %s %s %s %d %s" % (both.tok_functor(), tok_ty(dom), tok_ty(cod), n,
                                    " ".join(tok_expr(cs[i % len(cs)].e) for i in range(n)))
    return dict(cases=cs, both=both, n=n, line=line.rstrip())


def sum_variants(plan):
    """The real diagrams and references of the planned variants and ONE functor for them all."""
    from discopy import tensor
    cs, both = plan["cases"], plan["both"]
    if both.family == "rigid":
        F = both.real_functor()
    else:
        F = tensor.Functor(ob=lambda x: x, ar=lambda f: f.array)
    return [(c, c.real_diagram(), c.ref_layers(), F) for c in cs]


def make_dtype_cases(seed, quick):
    rng = random.Random((seed << 8) ^ 0xD7E9E5)
    out = []
    for k in range(50 if quick else 300):
        subseed = rng.getrandbits(64)
        sub = random.Random(subseed)
        case = dt.dtype_case(sub, k, quick)
        if case is not None:
            out.append((case, subseed, sub))
    return out


def run_dtypes(rep, dcases, answers):
    for (case, subseed, sub), model in zip(dcases, answers):
        try:
            dt.run_dtype_case(rep, sub, case, subseed, model)
        except tl.Inexact:
            rep.count("dtypes:skipped:inexact")
        except Exception as exc:
            rep.fail("c09:dtypes:raises", dt.describe(case, subseed), "%r" % (exc,))


# ------------------------------------------------------------------ diagrams with bubbles

def bubble_nontrivial(case):
    """At least one bubble whose inside has a box, and at least two box occurrences in all."""
    return bool(case.bubbles) and len(case.all_boxes()) >= 2 and \
        any(len(ie[3]) >= 1 for _, _, ie in case.bubbles)


def make_bubble_cases(seed, quick):
    rng = random.Random((seed << 8) ^ 0xB0BB1E)
    n_exact, n_float = (90, 90) if quick else (1000, 1000)
    n_pa_exact, n_pa_float = (2, 6) if quick else (8, 30)
    out = []
    for k in range(n_exact + n_float + n_pa_exact + n_pa_float):
        subseed = rng.getrandbits(64)
        sub = random.Random(subseed)
        if k < n_exact:
            case = bl.bubble_case(sub, True, quick)
        elif k < n_exact + n_float:
            case = bl.bubble_case(sub, False, quick)
        else:
            case = bl.printalike_case(sub, k < n_exact + n_float + n_pa_exact)
        out.append((case, subseed, sub))
    return out


def bubble_oracle(rep, rng, case, desc, real_value, real_answer):
    from discopy import monoidal, tensor
    from discopy.rewriting import InterchangerError
    orc = Oracle(rep, case, desc)
    cmp = orc.same if case.exact else orc.close
    _, dom, cod, boxes, offsets = case.e
    fdom, fcod = case.fdims(dom), case.fdims(cod)
    try:
        ref = np.asarray(case.ref_layers(), dtype=complex)
    except (OverflowError, ValueError) as exc:
        rep.count("oracle.bubbles:reference_undefined:" + type(exc).__name__)
        return
    if real_value is None:
        # every generated diagram is well typed and every function total on the values met
        orc.fail("bubbles:raises_on_valid_diagram:" + real_answer,
                 "evaluation answered %r; the layer-by-layer composite is defined" % real_answer)
        return
    # (a) the compositional meaning, bubbles by their defining tensors (recursively)
    cmp("bubbles:layer_composite", real_value, fdom, fcod, ref)
    # (b) Diagram.eval is the identity-on-arrays functor; a second build of the diagram
    F = tensor.Functor(ob=lambda x: x, ar=lambda f: f.array)
    try:
        case.fresh()
        d = case.real_diagram()
        cmp("bubbles:eval_is_identity_functor", F(d), fdom, fcod, ref)
    except tl.Inexact:
        rep.count("oracle.skipped:inexact")
        return
    except Exception as exc:
        orc.fail("bubbles:identity_functor:raises", "%r" % (exc,))
        return
    # (c) eval (bubble f inside) = (eval inside).map f, for the bubbles of the case
    picked = list(case.bubbles)
    rng.shuffle(picked)
    for n_b, (b, f, ie) in enumerate(picked[:2]):
        try:
            bd, bc = case.fdims(b["dom"]), case.fdims(b["cod"])
            want = case.apply_spec(f, np.asarray(case.ref_layers(ie), dtype=complex))
            bub = case.real_box(b)
            got = bub.eval()
            cmp("bubbles:eval_bubble", got, bd, bc, want)
            cmp("bubbles:functor_on_bubble_object", F(bub), bd, bc, want)
            if n_b:
                continue
            ins = case.real_diagram(ie).eval()
            cmp("bubbles:map_of_evaluated_inside", got, bd, bc,
                case.apply_spec(f, np.asarray(tl.mat(ins), dtype=complex)))
            cmp("bubbles:Tensor.map", ins.map(f.py if f.py is not None else (lambda x: int(not x))),
                bd, bc, case.apply_spec(f, np.asarray(tl.mat(ins), dtype=complex)))
        except tl.Inexact:
            rep.count("oracle.skipped:inexact")
        except OverflowError:
            rep.count("oracle.bubbles:reference_undefined:OverflowError")
        except Exception as exc:
            orc.fail("bubbles:eval_bubble:raises", "bubble %s: %r" % (b["data"], exc))
    # (c') a second evaluation of the same diagram object gives the same tensor
    if rng.random() < 0.3:
        try:
            cmp("bubbles:second_eval_of_same_object", d.eval(), fdom, fcod, ref)
        except tl.Inexact:
            rep.count("oracle.skipped:inexact")
        except Exception as exc:
            orc.fail("bubbles:second_eval:raises", "%r" % (exc,))
    # (d) bubbles are boxes: invariance under interchange and the monoidal normal form
    for _ in range(1):
        if len(boxes) < 2:
            break
        i = rng.randrange(len(boxes) - 1)
        try:
            d2 = d.interchange(i, i + 1, left=rng.random() < 0.5)
        except InterchangerError:
            rep.count("oracle.bubbles:interchange:refused")
            continue
        except Exception as exc:
            orc.fail("bubbles:interchange:raises", "%r" % (exc,))
            continue
        rep.count("oracle.bubbles:interchange:done")
        try:
            cmp("bubbles:invariant:interchange", d2.eval(), fdom, fcod, ref)
        except tl.Inexact:
            rep.count("oracle.skipped:inexact")
        except Exception as exc:
            orc.fail("bubbles:invariant:interchange:raises", "%r" % (exc,))
    try:
        nf = monoidal.Diagram.normal_form(d) if rng.random() < 0.5 else None
    except Exception as exc:        # not connected: not applicable
        rep.count("oracle.bubbles:normal_form:skipped:%s" % err_class(exc))
        nf = None
    if nf is not None:
        try:
            cmp("bubbles:invariant:monoidal_normal_form", F(nf), fdom, fcod, ref)
        except tl.Inexact:
            rep.count("oracle.skipped:inexact")
        except Exception as exc:
            orc.fail("bubbles:invariant:normal_form:raises", "%r" % (exc,))
    # (e) sums of diagrams with bubbles, and a bubble around a sum
    if rng.random() < 0.5:
        return
    try:
        total = d + d
        cmp("bubbles:sum:Sum.eval", total.eval(), fdom, fcod, ref + ref)
        cmp("bubbles:sum:functor", F(total), fdom, fcod, ref + ref)
        if case.exact and ref.size <= 400:
            f = bl.exact_fun(rng)
            kw = {} if f.py is None else {"func": f.py}
            cmp("bubbles:bubble_around_sum", total.bubble(**kw).eval(), fdom, fcod,
                case.apply_spec(f, ref + ref))
    except tl.Inexact:
        rep.count("oracle.skipped:inexact")
    except Exception as exc:
        orc.fail("bubbles:sum:raises", "%r" % (exc,))


def run_bubbles(rep, bcases, answers):
    """Streams over diagrams with bubbles.  `answers`: per case (bfeval, bflayers, bfgood)
    from the driver for the exact cases, None for the float (oracle-only) ones."""
    agree = 0
    for (case, subseed, sub), ans in zip(bcases, answers):
        mode = "exact" if case.exact else "float"
        desc = dict(case.describe(), subseed=subseed, mode=mode)
        value = [None]

        def thunk():
            value[0] = case.real_eval()
            return value[0]
        if case.exact:
            try:
                real = tl.real_line(thunk, tl.canon_tensor)
            except tl.Inexact:
                rep.count("bubbles:skipped:inexact")
                continue
        else:
            try:
                thunk()
                real = "ok"
            except Exception as exc:
                real = "err " + err_class(exc)
        # ---- distributions
        rep.count("family:tensor+bubbles:" + mode)
        rep.count("bubbles:result:" + (real if real.startswith("err") else "ok"))
        rep.count("bubbles:count:%s" % (len(case.bubbles) if len(case.bubbles) < 6 else "6+"))
        rep.count("bubbles:depth:%d" % case.depth())
        for ft in sorted(bl.features(case) | (case.feat & {"printalike_summarised_array"})):
            rep.count("bubbles:%s:%s" % (mode, ft))
        if "printalike_summarised_array" in case.feat:
            rep.count("bubbles:printalike:reprs_equal=%s" % bl.reprs_equal(case))
        for _, f, _ in case.bubbles:
            rep.count("bubbles:func:%s:%s" % (mode, f.name))
        rep.count("bubbles:objects:%s" % ("shared" if case.share else "equal_not_identical"))
        rep.count("bubbles:data_style:" + case.data_style)
        line = case.line("bfeval") if case.exact else "float:%d" % subseed
        rep.case(line, bubble_nontrivial(case))
        rep.sample(dict(family="tensor+bubbles:" + mode, request=line[:300], answer=real[:200]))
        # ---- correspondence (exact cases)
        if ans is not None:
            model, lay, good = ans
            if real != model:
                rep.disagree("bubble-eval", dict(desc, line=line[:3000]), real[:3000], model[:3000])
            if lay == model:
                agree += 1
            else:
                rep.disagree("bubble-layers-model", dict(desc, line=line[:3000], bfeval=model[:1500]),
                             real[:3000], lay[:3000])
            rep.count("bubbles:hyp:" + good[:20].replace(" ", "="))
            if good != "ok 1":
                rep.disagree("bubble-hypotheses", dict(desc, line=case.good_line()[:3000]),
                             "accepted by discopy: " + real[:200], good[:300])
        # ---- oracle
        try:
            bubble_oracle(rep, sub, case, desc, value[0], real)
        except tl.Inexact:
            rep.count("oracle.skipped:inexact")
    rep.extra["bubble_layers_model_agreements"] = agree


# ------------------------------------------------------------------ histories with mutable box data

def make_histories(seed, quick):
    rng = random.Random((seed << 8) ^ 0x415707)
    n_t, n_r, n_c, n_rot = (48, 14, 18, 6) if quick else (400, 120, 120, 50)
    hists, rots = [], []
    for k in range(n_t + n_r + n_c):
        subseed = rng.getrandbits(64)
        sub = random.Random(subseed)
        if k < n_t:
            hists.append(th.tensor_history(sub, subseed, quick))
        elif k < n_t + n_r:
            hists.append(th.rigid_history(sub, subseed))
        else:
            hists.append(th.circuit_history(sub, subseed))
    for _ in range(n_rot):
        subseed = rng.getrandbits(64)
        rots.append((subseed, th.rotation_history(random.Random(subseed))))
    return hists, rots


def history_lines(hists):
    """The driver requests of all histories, flat, and where each answer goes."""
    lines, where = [], []
    for i, h in enumerate(hists):
        for t, s in enumerate(h.steps):
            for key in ("line", "term_line"):
                if s.get(key):
                    lines.append(s[key])
                    where.append((i, t, key))
    return lines, where


class HistRun:
    """Replays one planned history on the real code."""

    def __init__(self, rep, h):
        self.rep, self.h, self.case, self.desc = rep, h, h.case, h.describe()

    def guard(self, name, step, fn):
        """A call on the real code: an unexpected exception is a failure with the history as input."""
        try:
            return fn()
        except (th.HarnessBug, tl.Inexact):
            raise
        except Exception as exc:
            self.rep.fail("c09:history:%s:raises" % name, dict(self.desc, step=step),
                          "%s at step %d raised %r" % (name, step, exc))
            return None

    def check(self, name, step, thunk, view, ref=None, model=None, line=None):
        """Evaluate on the real code; compare with the layer-by-layer composite of the CURRENT data
        (independent numpy) and, where a model answer is given, with the model exactly."""
        rep = self.rep
        rep.count("history:check:%s:%s" % (self.h.kind, name))
        value = self.guard(name, step, thunk)
        if value is None:
            return None
        _, dom, cod, _, _ = view.e
        if ref is None:
            ref = np.asarray(view.ref_layers(), dtype=complex)
        sig = "history:%s:%s" % (self.h.kind, name)
        Oracle(rep, view, dict(self.desc, step=step, check=name)).same(
            sig, value, view.fdims(dom), view.fdims(cod), ref)
        if model is not None:
            real = tl.real_line(lambda: value, tl.canon_tensor)
            rep.count("history:model_compared")
            if real != model:
                rep.disagree("history-eval", dict(self.desc, step=step, check=name, line=line[:3000]),
                             real[:3000], model[:3000])
        return value

    def box_checks(self, step, ukeys):
        """The boxes alone: `.array` is the array the box holds now; so are .eval() and the dagger."""
        case, rep = self.case, self.rep
        specs = dict(case.ars_by_key())
        for ukey in ukeys:
            obj, spec = case._objs.get(ukey), specs[ukey]
            if obj is None:
                continue
            ub = [b for b, _ in case.ars if tl.box_key(b) == ukey][0]
            fd, fc = case.fdims(ub["dom"]), case.fdims(ub["cod"])
            want = np.asarray(spec, dtype=complex).reshape(size(fd), size(fc))
            arr = self.guard("box_array", step, lambda: np.asarray(obj.array))
            rep.count("history:check:%s:box_array" % self.h.kind)
            if arr is not None and (tuple(arr.shape) != (tuple(fd + fc) or (1,)) or
                                    not exact_eq(arr.reshape(want.shape), want)):
                rep.fail("c09:history:%s:box_array" % self.h.kind,
                         dict(self.desc, step=step, box=ub["name"]),
                         "box.array is %r, the box holds %r" % (arr.tolist(), want.tolist()))
            if ukey != ukeys[(step + self.h.subseed) % len(ukeys)]:
                continue                        # the evaluations for one of the updated boxes
            bview = case.view(("mk", ub["dom"], ub["cod"], [ub], [0]))
            self.check("box_eval", step, lambda: obj.eval(), bview, ref=want)
            dview = case.view(("mk", ub["cod"], ub["dom"], [th.dag_box(ub)], [0]))
            self.check("box_dagger_eval", step, lambda: obj.dagger().eval(), dview, ref=want.conj().T)

    def first_uses(self, d0):
        """What happens to the boxes before the first update (any of these may read `.array`)."""
        case, rep = self.case, self.rep
        objs = [case._objs[tl.box_key(b)] for b in case.gens() if tl.box_key(b) in case._objs]
        for use in self.h.first_uses:
            rep.count("history:first_use:%s:%s" % (self.h.kind, use))

            def run():
                for o in objs:
                    if (use == "hash" or use == "eq_hash") and type(o).__hash__ is not None:
                        hash(o)                 # (ClassicalGate defines == without hash)
                    if use == "eq" or use == "eq_hash":
                        assert o == o and o == o.dagger().dagger()
                    if use == "dict_key":
                        assert {o: 1}[o] == 1
                    if use == "in_list":
                        assert o in [o.dagger().dagger()]
                    if use == "array":
                        o.array
                    if use == "eval_box":
                        o.eval()
                    if use == "repr":
                        repr(o), str(o)
                    if use == "make_dagger":
                        o.dagger()
                    if use == "eval_dagger_box":
                        o.dagger().eval()
                if use == "functor":
                    th.explicit_functor(case, d0, "callable", "dict_list")(d0)
                return True
            if use not in ("eval", "none"):
                self.guard("first_use:" + use, 0, run)

    def run(self, ans):
        h, case, rep = self.h, self.case, self.rep
        kind = h.kind
        steps = h.steps
        case.install(steps[0]["snapshot"])
        case._objs.clear()
        case.cont.clear()
        d0 = self.guard("build", 0, case.real_diagram)
        if d0 is None:
            return
        rep.count("history:cases:" + kind)
        rep.count("history:rounds:%s:%d" % (kind, len(steps) - 1))
        rep.count("history:dagger_objects:%s:%s" % (kind, case.dag_mode))
        for st in sorted(set(case.style.values())):
            rep.count("history:container:%s:%s" % (kind, st))
        self.first_uses(d0)
        prev = None
        for t, s in enumerate(steps):
            if t:
                case.mutate(s["muts"], s["snapshot"])
                for _, op, _, _ in s["muts"]:
                    rep.count("history:update:%s:%s" % (kind, op))
            a = ans.get((t, "line"))
            ref = np.asarray(case.ref_layers(), dtype=complex)
            changed = prev is not None and not exact_eq(prev, ref)
            prev = ref
            rep.case("history|%s|%d|%d" % (kind, h.subseed, t), t > 0 and changed and len(case.e[3]) >= 2)
            if t:
                rep.count("history:result_changed_by_update:%s:%s" % (kind, changed))
            if t == 0:
                if "eval" in h.first_uses:
                    self.check("first_eval", 0, lambda: d0.eval(), case, ref, a, s["line"])
                    if s.get("term") and h.subseed % 2:
                        v = th.term_view(case, s["term"])
                        self.check("new_diagram_before_update", 0,
                                   lambda: th.term_real(case, s["term"]).eval(), v, None,
                                   ans.get((0, "term_line")), s["term_line"])
                continue
            # (a) the same diagram object, evaluated again
            self.check("same_diagram_object", t, lambda: d0.eval(), case, ref, a, s["line"])
            # (b) new diagrams from the same box objects
            case.keep_bubbles = s["keep_bubbles"]
            d1 = self.guard("rebuild", t, case.real_diagram)
            if d1 is not None:
                rep.count("history:rebuilt:%s:bubbles_%s" % (kind, "kept" if s["keep_bubbles"] else "rewrapped"))
                self.check("rebuilt_from_same_boxes", t, lambda: d1.eval(), case, ref, a, s["line"])
            dT, v = None, None
            if s.get("term"):
                v = th.term_view(case, s["term"])
                dT = self.guard("new_diagram:build", t, lambda: th.term_real(case, s["term"]))
                for o in sorted(th.term_ops(s["term"])):
                    rep.count("history:new_diagram_has:%s:%s" % (kind, o))
                if dT is not None:
                    self.check("new_diagram_from_same_boxes", t, lambda: dT.eval(), v, None,
                               ans.get((t, "term_line")), s["term_line"])
            # (c) explicit functors, dict and callable
            if kind == "tensor":
                for ob_style, ar_style, target in s["functors"]:
                    d, vw = (dT, v) if target == "term" and dT is not None else (d0, case)
                    rep.count("history:functor:ob=%s:ar=%s" % (ob_style, ar_style))
                    self.check("explicit_functor:" + ar_style.split("_")[0], t,
                               lambda: th.explicit_functor(case, d, ob_style, ar_style)(d), vw,
                               ref if vw is case else None)
            # (d) the updated boxes alone
            self.box_checks(t, [k for k, _, _, _ in s["muts"]])

    def run_rigid(self, ans):
        h, case, rep = self.h, self.case, self.rep
        steps = h.steps
        case.install(steps[0]["snapshot"])
        case.cont.clear()
        F = self.guard("build_functor", 0, case.build_functor)
        d = self.guard("build", 0, case.real_diagram)
        if F is None or d is None:
            return
        rep.count("history:cases:rigid")
        rep.count("history:rounds:rigid:%d" % (len(steps) - 1))
        rep.count("history:rigid:ob=%s:ar=%s" % (case.ob_style, case.ar_style))
        for st in sorted(set(case.style.values())):
            rep.count("history:container:rigid:%s" % st)
        rep.count("history:first_use:rigid:" + h.first_uses[0])
        prev = None
        for t, s in enumerate(steps):
            if t:
                case.mutate(s["muts"], s["snapshot"])
                for _, op, _, _ in s["muts"]:
                    rep.count("history:update:rigid:%s" % op)
            ref = np.asarray(case.ref_layers(), dtype=complex)
            changed = prev is not None and not exact_eq(prev, ref)
            prev = ref
            rep.case("history|rigid|%d|%d" % (h.subseed, t), t > 0 and changed and len(case.e[3]) >= 2)
            if t == 0:
                if h.first_uses[0] == "call":
                    self.check("first_call", 0, lambda: F(d), case, ref, ans.get((0, "line")), s["line"])
                continue
            rep.count("history:result_changed_by_update:rigid:%s" % changed)
            self.check("same_functor_same_diagram", t, lambda: F(d), case, ref, ans.get((t, "line")),
                       s["line"])
            _, dom, cod, _, _ = case.e
            dag = case.view_plain(("mk", cod, dom, [], []))
            self.check("same_functor_dagger", t, lambda: F(d.dagger()), dag, ref.conj().T)
            if ref.size <= 400:
                two = case.view_plain(("mk", list(dom) + list(dom), list(cod) + list(cod), [], []))
                self.check("same_functor_tensor", t, lambda: F(d @ d), two, np.kron(ref, ref))
            self.check("new_functor_same_containers", t, lambda: case.build_functor()(d), case, ref,
                       ans.get((t, "line")), s["line"])


def run_rotation_history(rep, subseed, plan):
    """Rotations whose phase is a 0-d ndarray updated in place: float, oracle only."""
    import qgen
    from discopy.quantum import gates, Id
    n, layers, phases0, rounds = plan
    desc = dict(family="history:rotation", subseed=subseed, wires=n,
                layers=[(l, kind, "phase[%d]" % p, r) for l, kind, p, r in layers],
                phases=list(phases0), updates=rounds)
    orc = Oracle(rep, None, desc)
    rep.count("history:cases:rotation")
    cur = list(phases0)
    try:
        cont = [np.array(v) for v in phases0]
        objs = [getattr(gates, kind)(cont[p]) for _, kind, p, _ in layers]
        c = Id(n)
        for (l, _, _, r), g in zip(layers, objs):
            c = c >> Id(l) @ g @ Id(r)
    except Exception as exc:
        rep.fail("c09:history:rotation:raises", desc, "building raised %r" % (exc,))
        return

    def want():
        return qgen.product_io(n, [(l, ("R", kind, None, cur[p]), r) for l, kind, p, r in layers],
                               qgen.std_io)
    for t in range(len(rounds) + 1):
        if t:
            for p, op, v in rounds[t - 1]:
                rep.count("history:update:rotation:" + op)
                if op == "iadd":
                    cont[p] += v
                    cur[p] = cur[p] + v
                elif op == "imul":
                    cont[p] *= 2
                    cur[p] = cur[p] * 2
                elif op == "fill":
                    cont[p].fill(v)
                    cur[p] = v
                elif op == "assign":
                    cont[p][...] = v
                    cur[p] = v
                else:
                    np.copyto(cont[p], v)
                    cur[p] = v
            if [float(x) for x in cont] != [float(x) for x in cur]:
                raise th.HarnessBug("rotation phases %r, planned %r" % (cont, cur))
        rep.case("history|rotation|%d|%d" % (subseed, t), t > 0)
        m = want()
        try:
            orc.desc = dict(desc, step=t)
            orc.close("history:rotation:" + ("same_circuit_object" if t else "first_eval"),
                      c.eval(), [2] * n, [2] * n, m)
            if t:
                rev = Id(n)
                for (l, _, _, r), g in reversed(list(zip(layers, objs))):
                    rev = rev >> Id(l) @ g.dagger() @ Id(r)
                orc.close("history:rotation:new_circuit_from_same_gates", (c >> rev).eval(),
                          [2] * n, [2] * n, m @ m.conj().T)
        except Exception as exc:
            rep.fail("c09:history:rotation:raises", dict(desc, step=t), "evaluation raised %r" % (exc,))


def run_histories(rep, hists, rots, answers, where):
    per = [dict() for _ in hists]
    for (i, t, key), a in zip(where, answers):
        per[i][(t, key)] = a
    for h, ans in zip(hists, per):
        r = HistRun(rep, h)
        try:
            if h.kind == "rigid":
                r.run_rigid(ans)
            else:
                r.run(ans)
        except tl.Inexact:
            rep.count("history:skipped:inexact")
    for subseed, plan in rots:
        run_rotation_history(rep, subseed, plan)


# ------------------------------------------------------------------ run

def run(tier, seed, replay=None):
    rep = Report(PROP, tier, seed)
    rep.rule = ("random rigid diagrams (generators, daggered generators, swaps, cups, caps; "
                "winding numbers) under tensor.Functor with objects mapped to ints or Dims "
                "(incl. 1, Dim(1), multi-wire), dict or callable maps, and random tensor.Diagrams "
                "(boxes, daggers, swaps, spiders, cups, caps) under .eval(); ~30% get a yankable "
                "snake inserted, ~4% of rigid cases an array of the wrong size. non-trivial = "
                ">= 2 boxes, at least one box with a wire of dimension >= 2, running width "
                "(tensor axes of some intermediate type) >= 2; distinct by request line. "
                "PLUS tensor.Diagrams with bubbles (tbubblelib): boxes, daggers, swaps, spiders, "
                "cups, caps and tensor.Bubble boxes, nested up to depth 3, built so that one "
                "diagram contains several bubbles around EQUAL insides with different (or the "
                "same) functions, the same bubble twice, same-name boxes with different arrays, "
                "repeated boxes as one shared object or as equal-but-not-identical objects, data "
                "as ndarray / flat list / nested list, Bubble(...) or .bubble(...), the default "
                "func or functions whose Python return type depends on the argument; an exact "
                "half over Z[i] (compared with the model) and a float half (relu, sigmoid, tanh, "
                "..., oracle only); a few diagrams with two same-name 32x32 boxes whose numpy "
                "arrays differ only where repr prints '...'. non-trivial there = at least one "
                "bubble with a non-empty inside and >= 2 box occurrences. "
                "PLUS histories with mutable box data (thistlib): tensor.Diagrams with bubbles / rigid diagrams "
                "under one Functor object / pure Circuits of custom QuantumGate, ClassicalGate boxes / rotations "
                "with 0-d ndarray phases, whose box data are mutable containers (ndarray flat / shaped / float / "
                "int, list, nested list); random first uses (hash, ==, dict key, .array, eval, functor, none); 1-3 "
                "rounds of in-place updates (element / row / slice assignment, +=, *=, -=, [:]=, fill, flat, "
                "copyto, put, reverse, swap, inner list replaced); after each round the same diagram object, "
                "rebuilt and new diagrams (dagger, @, >>, bubbles) from the same box objects, explicit dict / "
                "callable functors and the boxes alone, against the model and the oracle on the CURRENT data; "
                "non-trivial there = a round after which the reference changed, >= 2 boxes. "
                "PLUS (tdtypelib) DTYPES: small diagrams with daggered generators whose arrays are object-dtype "
                "(sympy numbers with I / Python int, Fraction, float, complex mixed / sympy symbols substituted "
                "afterwards), int8..64, uint8..64, float16/32/64, complex64/128, bool ndarrays or flat / nested lists "
                "of mixed Python types (non-trivial = >= 2 boxes and a daggered generator); TYPED SUMS with 0-3 terms "
                "through several constructors, composed / tensored with (empty) sums, under bubbles, tensor.Sum.eval; "
                "BARE BOX OBJECTS of every class (swap with different images, cup, cap, spider, generator, daggered "
                "generator; taken from the diagram or new) under functor(box), box.eval(), functor(Id() @ box), "
                "functor(Diagram(dom, cod, [box], [0])) for the first 60 (thorough: 400) cases (non-trivial = a "
                "box tensor with >= 4 entries)")
    rep.partial = [
        "sums: the Sum branch of the functor is modelled (Model/TensorSum.lean, callSum) and compared (sum-eval); "
        "proved: the image has the image types for any number of terms and the empty sum goes to the zero tensor "
        "(eval_sum_typed, eval_empty_sum_typed); that the array of a sum with terms is the entrywise sum, sums "
        "composed / tensored / under bubbles and tensor.Sum.eval are oracle only",
        "dtypes: the model runs over Z[i]; object-dtype / symbolic / non-integral cases are oracle only "
        "(independent numpy reference on the ideal dyadic values; object results within 1e-9 relative after "
        "substituting the symbols, numeric dtypes exactly)",
        "invariance under the RIGID normal form (snake removal) and Diagram.eval "
        "== identity-on-arrays functor are checked by the oracle on real code only; invariance under interchange and the monoidal "
        "normal form is a Lean theorem (eval_invariant_interchange / _normal_form) for "
        "bubble-free diagrams and is checked by the oracle for all",
        "bubbles: modelled (Model/TensorBubble.lean, the function is a parameter) and proved "
        "(eval_bubble, functor_eval_eq_layers_bubbles, nested) for tensor.Diagrams over Z[i] "
        "with functions the driver can name (sq, not, conj2, relu, floor-half, x+c, finite "
        "tables); the FLOAT stream (relu on non-integers, sigmoid, tanh, ...), bubbles in RIGID "
        "diagrams under dict/callable functors, bubbles around sums and sums of diagrams with "
        "bubbles are outside the executable model: oracle only (independent numpy-kron "
        "layer-by-layer composite, functions re-implemented on plain Python numbers)",
        "histories with mutable data: the model has no notion of object identity or time - it is a pure "
        "function of the data and is asked with the snapshot of each round (same-object, rebuilt and new-diagram "
        "evaluations; rigid: same functor / new functor on the same diagram); explicit functors, boxes alone, "
        "rigid dagger / tensor, rotation phases (float) are oracle only",
        "cups/caps/spiders are interpreted by their defining tensors (definitional): "
        "the functor calls Tensor.cups/caps and Spider arrays; the oracle checks "
        "them against independently written matrices",
    ]
    rep.assumptions = [
        "exactness: all entries are Gaussian integers below 2^50, so float64/complex128 "
        "arithmetic is exact and results are compared with ==; a case leaving that range is "
        "skipped and counted, never compared with a tolerance",
        "float stream: never compared with ==; tolerance tbubblelib.FLOAT_RTOL = 1e-9 relative "
        "to the largest expected entry (>= 1): arrays are multiples of 1/4 of magnitude <= 2.5 "
        "so the linear algebra is exact or accurate to ~1e-13, sigmoid/tanh differ between "
        "numpy (library) and math (oracle) by ~1 ulp; discontinuous functions (not, step, floor) "
        "are only used in cases without transcendental functions, where every value is an exact "
        "dyadic rational on both sides",
        "histories: `Box.data` may hold a mutable object (cat.py:540) and evaluation reads it when it runs; the "
        "tensor of a box at an evaluation is the array its data holds at that moment. QuantumGate / ClassicalGate "
        "copy their array at construction and at .dagger() by design: there only the gate's own stored array is "
        "updated and daggers are made after the update",
        "the fuel of BFunctor.call is the number of bubbles of the request + 1, above any "
        "nesting depth, so Err.fuel is never produced",
        "numpy itself is trusted; the model's numpy primitives are only cross-validated "
        "against it by the numpy-prims stream of C08",
        "only non-negative axis numbers are modelled (the code under test never passes "
        "negative axes)",
        "Tensor.cups of a non-palindromic multi-wire Dim raises AxiomError because the object "
        "map erases winding numbers; there the statement does not apply and only the error "
        "class is compared with the model",
    ]
    if os.environ.get("DV_SKIP_LEAN"):
        rep.lean = None
    else:
        rep.lean = lean_obligations(PROP, thorough=(tier == "thorough"))
    quick = tier == "quick"
    n_cases = 450 if quick else 2400
    rng = random.Random(seed)
    cases = []
    for k in range(n_cases):
        subseed = rng.getrandbits(64)
        sub = random.Random(subseed)
        case, info = make_case(sub, k, quick)
        cases.append((case, info, subseed, sub))
    bcases = make_bubble_cases(seed, quick)
    hists, rots = make_histories(seed, quick)
    hlines, hwhere = history_lines(hists)
    dcases = make_dtype_cases(seed, quick)
    n_extra = 60 if quick else 400
    bare = []
    for case, _, subseed, _ in cases[:n_extra]:
        r2 = random.Random(subseed ^ 0xBA5EB0C5)
        reqs, blines = dt.bare_box_requests(r2, case)
        bare.append((r2, reqs, blines, sum_plan(r2, case)))
    drv = tl.Asker()
    try:
        didx = [i for i, (c, _, _) in enumerate(dcases) if not c.has_symbols() and c.integral()]
        dans = [None] * len(dcases)
        for i, a in zip(didx, drv.ask_many([dcases[i][0].line("feval") for i in didx])):
            dans[i] = a
        flat = drv.ask_many([ln for _, _, blines, _ in bare for ln in blines])
        sans = drv.ask_many([plan["line"] for _, _, _, plan in bare])
        extras, pos = [], 0
        for (r2, reqs, blines, plan), sa in zip(bare, sans):
            extras.append((r2, reqs, flat[pos:pos + len(blines)], plan, sa))
            pos += len(blines)
        extras += [None] * (len(cases) - len(extras))
        hans = drv.ask_many(hlines)
        bidx = [i for i, (c, _, _) in enumerate(bcases) if c.exact]
        bans = [None] * len(bcases)
        for cmd in ("bfeval", "bflayers", "bfgood"):
            got = drv.ask_many([bcases[i][0].good_line() if cmd == "bfgood"
                                else bcases[i][0].line(cmd) for i in bidx])
            for i, a in zip(bidx, got):
                bans[i] = (bans[i] or ()) + (a,)
        lines = [c.line("feval") for c, _, _, _ in cases]
        answers = drv.ask_many(lines)
        # the composite multiplies full layer matrices: only where that is affordable
        lay_budget = 150000 if quick else 400000
        lay_idx = [i for i, (c, _, _, _) in enumerate(cases) if layers_cost(c) <= lay_budget]
        lay_ans = drv.ask_many([cases[i][0].line("flayers") for i in lay_idx])
        layers = [None] * len(cases)
        for i, a in zip(lay_idx, lay_ans):
            layers[i] = a
        genuine = drv.ask_many(["fgenuine " + tok_expr(c.e) for c, _, _, _ in cases])
    finally:
        drv.close()
        rep.extra["driver_restarts"] = drv.restarts
    hyp = {"met": 0, "not_met": 0, "other": 0}
    layers_agree = 0
    for (case, info, subseed, sub), line, model, lay, gen, extra in zip(
            cases, lines, answers, layers, genuine, extras):
        fam = case.family
        value = [None]

        def thunk():
            value[0] = case.real_eval()
            return value[0]
        try:
            real = tl.real_line(thunk, tl.canon_tensor)
        except tl.Inexact:
            rep.count("skipped:inexact")
            continue
        desc = dict(family=fam, subseed=subseed, expr=repr(case.e)[:2500], ob=repr(case.ob),
                    ob_style=case.ob_style, ar_style=case.ar_style, snake=info["snake"])
        # ---- distributions
        rep.count("family:" + fam)
        rep.count("result:" + (real if real.startswith("err") else "ok"))
        boxes = case.e[3]
        rep.count("boxes:%s" % (len(boxes) if len(boxes) < 10 else "10+"))
        for kd in {box_kind(case, b) for b in boxes}:
            rep.count("has_box:" + kd)
        width = max(len(case.fdims(s)) for s in scans_of(case.e))
        rep.count("running_width:%s" % (width if width < 8 else "8+"))
        if info["snake"]:
            rep.count("snake_inserted:%s:obstructions=%d" % (info["snake"], info["obstructions"]))
        if fam == "rigid":
            rep.count("ob_map:" + case.ob_style)
            rep.count("ar_map:" + case.ar_style)
            for nme in sorted(used_names(case.e)):
                rep.count("ob_value:" + ob_style(case.ob[nme]))
            if any(z != 0 for b in boxes for _, z in list(b["dom"]) + list(b["cod"])):
                rep.count("has_winding_numbers")
        else:
            rep.count("ob_map:identity_callable(eval)")
        rep.case(line, nontrivial(case))
        rep.sample(dict(family=fam, request=line[:300], answer=real[:200]))
        # ---- correspondence
        if real != model:
            rep.disagree("functor-eval", dict(desc, line=line[:3000]), real[:3000], model[:3000])
        if lay is None:
            rep.count("layers-model:skipped_for_cost")
        elif lay == model:
            layers_agree += 1
        else:
            rep.disagree("layers-model", dict(desc, line=line[:3000], feval=model[:1500]),
                         real[:3000], lay[:3000])
        if gen == "ok 1":
            hyp["met"] += 1
            rep.count("hyp:genuine=1")
        elif gen == "ok 0":
            hyp["not_met"] += 1
            rep.count("hyp:genuine=0")
            rep.disagree("hypotheses", dict(desc, line="fgenuine " + tok_expr(case.e)[:3000]),
                         "accepted by discopy: " + real[:200], gen)
        else:
            hyp["other"] += 1
            rep.count("hyp:" + gen[:30])
            rep.disagree("hypotheses", dict(desc, line="fgenuine " + tok_expr(case.e)[:3000]),
                         "accepted by discopy: " + real[:200], gen[:300])
        # ---- oracle
        try:
            oracle(rep, sub, case, desc, value[0], real, extra)
        except tl.Inexact:
            rep.count("oracle.skipped:inexact")
    rep.extra["theorem_hypotheses_met"] = hyp
    rep.extra["layers_model_agreements"] = layers_agree
    run_dtypes(rep, dcases, dans)
    rep.extra["dtype_model_comparisons"] = rep.dist.get("dtypes:model_compared", 0)
    rep.extra["bare_box_model_comparisons"] = rep.dist.get("bare_box:model_compared", 0)
    run_bubbles(rep, bcases, bans)
    run_histories(rep, hists, rots, hans, hwhere)
    rep.extra["history_model_comparisons"] = rep.dist.get("history:model_compared", 0)
    # ---- related terms in sums, spiders on small / trivial dimensions (round 7; oracle: numpy)
    rrng = random.Random("C09-related-sums-%d" % seed)
    for _ in range(160 if quick else 2500):
        subseed = rrng.getrandbits(48)
        try:
            what = dt.related_sum_case(rep, random.Random(subseed), subseed)
            rep.case("related-sums " + what, True)
        except tl.Inexact:
            rep.count("oracle.skipped:inexact")
        except Exception as exc:
            rep.fail("c09:related_sums:raises", dict(stream="related-sums", subseed=subseed), "%r" % (exc,))
    return rep.finish()
