"""C09 — evaluating a diagram computes its compositional meaning.

Streams:
* `functor-eval`  random rigid diagrams under `tensor.Functor(ob, ar)` and random
                  `tensor.Diagram`s under `.eval()`, against the model's single-pass loop
                  (`feval`), exact, including error classes;
* `layers-model`  the model's layer-by-layer composite (`flayers`) must give the same answer
                  (the equality the Lean theorem proves, observed on every generated case);
* `hypotheses`    `fgenuine`: every generated diagram meets the hypothesis of the theorem;
* the oracle      on the real-code results only, with independent numpy code (np.kron of
                  identities and box matrices, matrix products): the compositional meaning,
                  invariance under interchange / normal forms (also with snakes inserted on
                  purpose), `Diagram.eval` = identity-on-arrays functor, sums, bubbles.
"""
import os
import random

os.environ.setdefault("OPENBLAS_NUM_THREADS", "1")
os.environ.setdefault("OMP_NUM_THREADS", "1")

import numpy as np  # noqa: E402

from common import Report, lean_obligations, err_class  # noqa: E402
from core import tok_expr  # noqa: E402
import tensorlib as tl  # noqa: E402
from tensorlib import eff, size, exact_eq  # noqa: E402

PROP = "C09"


# ------------------------------------------------------------------ case helpers

def mkbox(kind, dom, cod):
    return dict(kind=kind, name=None, dom=list(dom), cod=list(cod), dagger=False, data=None)


def scans_of(e):
    _, dom, _cod, boxes, offsets = e
    scan, out = list(dom), [list(dom)]
    for b, off in zip(boxes, offsets):
        scan = scan[:off] + list(b["cod"]) + scan[off + len(b["dom"]):]
        out.append(list(scan))
    return out


def insert_snake(rng, e, rigid):
    """The same diagram with a snake (cap then cup, yankable) inserted on one wire, with up to
    two of the original boxes left between the cap and the cup as obstructions."""
    _, dom, cod, boxes, offsets = e
    scans = scans_of(e)
    k = rng.randint(0, len(boxes))
    if not scans[k]:
        return None
    p = rng.randrange(len(scans[k]))
    n, z = scans[k][p]
    left = rng.random() < 0.5
    if left:        # Id(t) @ Cap(t.r, t) >> Cup(t, t.r) @ Id(t)
        zz = z + 1 if rigid else 0
        cap, cap_off = mkbox("a", [], [(n, zz), (n, z)]), p + 1
        cup = mkbox("u", [(n, z), (n, zz)], [])
    else:           # Cap(t, t.l) @ Id(t) >> Id(t) @ Cup(t.l, t)
        zz = z - 1 if rigid else 0
        cap, cap_off = mkbox("a", [], [(n, z), (n, zz)]), p
        cup = mkbox("u", [(n, zz), (n, z)], [])
    between, boffs, m = [], [], 0
    for b, off in zip(boxes[k:k + rng.randint(0, 2)], offsets[k:]):
        if off + len(b["dom"]) <= p:            # entirely left of the wire
            between.append(b), boffs.append(off)
            p += len(b["cod"]) - len(b["dom"])
        elif off > p:                           # entirely right of it: two more wires before
            between.append(b), boffs.append(off + 2)
        else:
            break
        m += 1
    cup_off = p if left else p + 1
    nb = boxes[:k] + [cap] + between + [cup] + boxes[k + m:]
    no = list(offsets[:k]) + [cap_off] + boffs + [cup_off] + list(offsets[k + m:])
    return ("mk", list(dom), list(cod), nb, no), ("left" if left else "right"), m


def box_kind(case, b):
    if b["kind"] == "g":
        spec = dict(case.ars_by_key()).get(tl.box_key(tl.undagger(b)))
        if isinstance(spec, tuple):
            return "spider"
        return "daggered_gen" if b["dagger"] else "gen"
    return {"s": "swap", "u": "cup", "a": "cap"}[b["kind"]]


def ob_style(v):
    if isinstance(v, int):
        return "int:1" if v == 1 else "int"
    e = eff(v)
    return "Dim(1)" if not e else "Dim:single" if len(e) == 1 else \
        "Dim:multi_palindromic" if e == e[::-1] else "Dim:multi"


def used_names(e):
    _, dom, cod, boxes, _ = e
    out = {n for n, _ in list(dom) + list(cod)}
    for b in boxes:
        out |= {n for n, _ in list(b["dom"]) + list(b["cod"])}
    return out


def nontrivial(case):
    """>= 2 boxes, some box with a wire of dimension >= 2, running width (tensor axes) >= 2."""
    _, dom, cod, boxes, offsets = case.e
    if len(boxes) < 2:
        return False
    if not any(any(d >= 2 for d in case.fdims(list(b["dom"]) + list(b["cod"]))) for b in boxes):
        return False
    return max(len(case.fdims(s)) for s in scans_of(case.e)) >= 2


def layers_cost(case):
    """Multiply-adds of the layer-by-layer composite (what `flayers` computes)."""
    sc = [size(case.fdims(x)) for x in scans_of(case.e)]
    return sum((sc[0] + 2) * a * b for a, b in zip(sc, sc[1:]))


def make_case(rng, k, quick):
    maxdim = 3 if quick else 4
    kw = dict(maxdim=maxdim, maxw=4 if quick else 5, maxdepth=6 if quick else 9,
              limit=3000 if quick else 8000, work=150000 if quick else 500000)
    if k % 2:
        case = tl.rigid_case(rng, multi=0.35, **kw)
    else:
        case = tl.tensor_case(rng, **kw)
    info = dict(snake=None)
    if rng.random() < 0.3:
        got = insert_snake(rng, case.e, case.family == "rigid")
        if got is not None:
            e2, side, m = got
            c2 = tl.FCase(case.family, e2, case.ob, case.ars, case.ob_style, case.ar_style)
            worst, total = tl.case_cost(c2)
            if worst <= kw["limit"] and total <= kw["work"]:
                case, info = c2, dict(snake=side, obstructions=m)
    return case, info


# ------------------------------------------------------------------ the oracle

class Oracle:
    def __init__(self, rep, case, desc):
        self.rep, self.case, self.desc = rep, case, desc

    def fail(self, name, text):
        self.rep.fail("c09:" + name, self.desc, text)

    def same(self, name, t, dom, cod, m):
        """The real Tensor `t` has the expected type, shape and matrix."""
        self.rep.count("oracle.check:" + name)
        dom, cod = eff(dom), eff(cod)
        if tl.dims_of(t.dom) != dom or tl.dims_of(t.cod) != cod:
            return self.fail(name, "dom/cod %r -> %r, expected %r -> %r" % (t.dom, t.cod, dom, cod))
        a = np.asarray(t.array)
        if tuple(a.shape) != (tuple(dom + cod) or (1,)):
            return self.fail(name, "array.shape %r, expected %r" % (a.shape, tuple(dom + cod)))
        if max(tl.absbound(a), tl.absbound(m)) >= tl.EXACT_LIMIT:
            self.rep.count("oracle.skipped:inexact")
            return None
        got = a.reshape(size(dom), size(cod))
        if not exact_eq(got, m):
            bad = np.argwhere(got != m)
            self.fail(name, "matrix differs at %d of %d entries, first at %r: got %r, expected %r"
                      % (len(bad), got.size, tuple(bad[0]), got[tuple(bad[0])], m[tuple(bad[0])]))
        return None


def new_arrays(rng, case, rename):
    """The same diagram spec with fresh arrays (rigid: boxes renamed so that one functor can
    interpret both)."""
    ars2, ren = [], {}
    for b, a in case.ars:
        if isinstance(a, tuple):
            ars2.append((b, a))
            continue
        nb = dict(b, name=b["name"] + "'") if rename else b
        ren[tl.box_key(b)] = nb
        ars2.append((nb, tl.rand_array(rng, np.asarray(a).shape)))
    if not rename:
        return case.e, ars2
    _, dom, cod, boxes, offsets = case.e
    nboxes = []
    for b in boxes:
        if b["kind"] == "g":
            ub = ren[tl.box_key(tl.undagger(b))]
            b = dict(b, name=ub["name"])
        nboxes.append(b)
    return ("mk", dom, cod, nboxes, offsets), ars2


def oracle(rep, rng, case, desc, real_value, real_answer):
    from discopy import monoidal, tensor
    from discopy.rewriting import InterchangerError
    orc = Oracle(rep, case, desc)
    fam = case.family
    _, dom, cod, boxes, offsets = case.e
    try:
        ref = case.ref_layers()
        ref_err = None
    except ValueError as exc:     # non-adjoint cup/cap image, or an array of the wrong size
        ref, ref_err = None, str(exc)[:60]
    if real_value is None:
        # the real code refused: the statement only applies if the interpretation is valid
        if ref_err is None:
            orc.fail("raises_on_valid_interpretation:" + real_answer,
                     "real code answered %r but every box has a well-defined tensor" % real_answer)
        else:
            rep.count("oracle.not_applicable:" + real_answer.replace(" ", "_"))
        return
    if ref is None:
        rep.count("oracle.reference_undefined_but_real_ok")
        return
    fdom, fcod = case.fdims(dom), case.fdims(cod)
    # (a) compositional meaning
    orc.same("layer_composite:" + fam, real_value, fdom, fcod, ref)
    d = case.real_diagram()
    if fam == "rigid":
        F = case.real_functor()
    else:
        F = tensor.Functor(ob=lambda x: x, ar=lambda f: f.array)
        # (c) Diagram.eval is the identity-on-arrays functor
        orc.same("eval_is_identity_functor", F(d), fdom, fcod, ref)
    # (b) invariance under normal forms and interchange
    def shape_of(x):
        return [(id(b), o) for b, o in zip(x.boxes, x.offsets)]
    seen = [shape_of(d)]
    for name, fn in (("monoidal_normal_form", lambda: monoidal.Diagram.normal_form(d)),
                     ("rigid_normal_form", lambda: d.normal_form())):
        try:
            nf = fn()
        except Exception as exc:      # not connected, or snake removal gave up: not applicable
            rep.count("oracle.%s:skipped:%s" % (name, err_class(exc)))
            continue
        rep.count("oracle.%s:%s" % (name, "shorter" if len(nf) < len(d) else
                                    "unchanged" if shape_of(nf) == seen[0] else "rewritten"))
        if shape_of(nf) in seen:      # literally the diagram already evaluated
            continue
        seen.append(shape_of(nf))
        try:
            orc.same("invariant:" + name, F(nf), fdom, fcod, ref)
        except Exception as exc:
            orc.fail("invariant:%s:raises" % name, "F(normal form) raised %r" % (exc,))
    for _ in range(2):
        if len(boxes) < 2:
            break
        i = rng.randrange(len(boxes) - 1)
        left = rng.random() < 0.5
        try:
            d2 = d.interchange(i, i + 1, left=left)
        except InterchangerError:
            rep.count("oracle.interchange:refused")
            continue
        rep.count("oracle.interchange:done")
        try:
            orc.same("invariant:interchange", F(d2), fdom, fcod, ref)
        except Exception as exc:
            orc.fail("invariant:interchange:raises", "F(interchanged) raised %r" % (exc,))
    # (d) sums
    try:
        e2, ars2 = new_arrays(rng, case, rename=(fam == "rigid"))
        c2 = tl.FCase(fam, e2, case.ob, ars2, case.ob_style, case.ar_style)
        d2, ref2 = c2.real_diagram(), c2.ref_layers()
        terms, want = [d, d2], ref + ref2
        if rng.random() < 0.4:
            terms, want = [d, d2, d], ref + ref2 + ref
        total = terms[0]
        for t in terms[1:]:
            total = total + t
        if fam == "rigid":
            both = tl.FCase(fam, case.e, case.ob, list(case.ars) + [
                x for x in ars2 if not isinstance(x[1], tuple)], case.ob_style, case.ar_style)
            F2 = both.real_functor()
            whole = F2(total)
            orc.same("sum:functor", whole, fdom, fcod, want)
            parts = [np.asarray(real_value.array), np.asarray(F2(d2).array)]
            parts += parts[:1] * (len(terms) - 2)
            if not exact_eq(np.asarray(whole.array), sum(parts[1:], parts[0])):
                orc.fail("sum:additive", "F(d1 + d2).array != F(d1).array + F(d2).array")
        else:
            orc.same("sum:Sum.eval", total.eval(), fdom, fcod, want)
            orc.same("sum:functor", F(total), fdom, fcod, want)
        rep.count("oracle.sum_terms:%d" % len(terms))
    except tl.Inexact:
        rep.count("oracle.skipped:inexact")
    except Exception as exc:
        orc.fail("sum:raises", "%r" % (exc,))
    # (e) bubbles: elementwise function of the inside's tensor; alone and inside a diagram
    try:
        func = rng.choice([("square", lambda x: x * x), ("plus_one", lambda x: x + 1),
                           ("conj_double", lambda x: 2 * np.conjugate(x))])
        fm = np.vectorize(func[1], otypes=[complex])(ref) if ref.size else ref
        if fam == "rigid":
            bub = tensor.Bubble(d, func=func[1])
            ev = lambda x: F(x)  # noqa: E731
        else:
            bub = d.bubble(func=func[1])
            ev = lambda x: x.eval()  # noqa: E731
            if not isinstance(bub, tensor.Bubble):
                orc.fail("bubble:factory", "d.bubble() is a %s" % type(bub).__name__)
        orc.same("bubble:alone:" + fam, ev(bub), fdom, fcod, fm)
        if fam == "tensor" and size(fdom) * size(fcod) <= 600:
            # pre >> Id(l) @ bubble @ Id(r) >> post with fresh tensor boxes
            l, r = tl.rand_dims(rng, 3, 0, 1), tl.rand_dims(rng, 3, 0, 1)
            x, y = tl.rand_dims(rng, 3, 0, 2), tl.rand_dims(rng, 3, 0, 2)
            D = lambda v: tensor.Dim(*v)  # noqa: E731
            mid_in, mid_out = l + fdom + r, l + fcod + r
            pa = tl.rand_array(rng, [size(x), size(mid_in)])
            qa = tl.rand_array(rng, [size(mid_out), size(y)])
            pre = tensor.Box("pre", D(x), D(mid_in), list(pa.reshape(-1)))
            post = tensor.Box("post", D(mid_out), D(y), list(qa.reshape(-1)))
            big = pre >> tensor.Id(D(l)) @ bub @ tensor.Id(D(r)) >> post
            want = pa @ np.kron(np.kron(np.identity(size(l)), fm), np.identity(size(r))) @ qa
            orc.same("bubble:inside_diagram", big.eval(), x, y, want)
    except tl.Inexact:
        rep.count("oracle.skipped:inexact")
    except Exception as exc:
        orc.fail("bubble:raises", "%r" % (exc,))


# ------------------------------------------------------------------ run

def run(tier, seed, replay=None):
    rep = Report(PROP, tier, seed)
    rep.rule = ("random rigid diagrams (generators, daggered generators, swaps, cups, caps; "
                "winding numbers) under tensor.Functor with objects mapped to ints or Dims "
                "(incl. 1, Dim(1), multi-wire), dict or callable maps, and random tensor.Diagrams "
                "(boxes, daggers, swaps, spiders, cups, caps) under .eval(); ~30% get a yankable "
                "snake inserted, ~4% of rigid cases an array of the wrong size. non-trivial = "
                ">= 2 boxes, at least one box with a wire of dimension >= 2, running width "
                "(tensor axes of some intermediate type) >= 2; distinct by request line")
    rep.partial = [
        "bubbles, sums, invariance under the RIGID normal form (snake removal) and Diagram.eval "
        "== identity-on-arrays functor are checked by the oracle on real code only (bubbles/sums "
        "are not part of the modelled loop); invariance under interchange and the monoidal "
        "normal form is a Lean theorem (eval_invariant_interchange / _normal_form) and is also "
        "checked by the oracle",
        "cups/caps/spiders/bubbles are interpreted by their defining tensors (definitional): "
        "the functor calls Tensor.cups/caps, Spider arrays and Tensor.map; the oracle checks "
        "them against independently written matrices",
    ]
    rep.assumptions = [
        "exactness: all entries are Gaussian integers below 2^50, so float64/complex128 "
        "arithmetic is exact and results are compared with ==; a case leaving that range is "
        "skipped and counted, never compared with a tolerance",
        "numpy itself is trusted; the model's numpy primitives are only cross-validated "
        "against it by the numpy-prims stream of C08",
        "only non-negative axis numbers are modelled (the code under test never passes "
        "negative axes)",
        "Tensor.cups of a non-palindromic multi-wire Dim raises AxiomError because the object "
        "map erases winding numbers; there the statement does not apply and only the error "
        "class is compared with the model",
    ]
    if os.environ.get("DV_SKIP_LEAN"):
        rep.lean = None
    else:
        rep.lean = lean_obligations(PROP, thorough=(tier == "thorough"))
    quick = tier == "quick"
    n_cases = 450 if quick else 2400
    rng = random.Random(seed)
    cases = []
    for k in range(n_cases):
        subseed = rng.getrandbits(64)
        sub = random.Random(subseed)
        case, info = make_case(sub, k, quick)
        cases.append((case, info, subseed, sub))
    drv = tl.Asker()
    try:
        lines = [c.line("feval") for c, _, _, _ in cases]
        answers = drv.ask_many(lines)
        # the composite multiplies full layer matrices: only where that is affordable
        lay_budget = 150000 if quick else 400000
        lay_idx = [i for i, (c, _, _, _) in enumerate(cases) if layers_cost(c) <= lay_budget]
        lay_ans = drv.ask_many([cases[i][0].line("flayers") for i in lay_idx])
        layers = [None] * len(cases)
        for i, a in zip(lay_idx, lay_ans):
            layers[i] = a
        genuine = drv.ask_many(["fgenuine " + tok_expr(c.e) for c, _, _, _ in cases])
    finally:
        drv.close()
        rep.extra["driver_restarts"] = drv.restarts
    hyp = {"met": 0, "not_met": 0, "other": 0}
    layers_agree = 0
    for (case, info, subseed, sub), line, model, lay, gen in zip(
            cases, lines, answers, layers, genuine):
        fam = case.family
        value = [None]

        def thunk():
            value[0] = case.real_eval()
            return value[0]
        try:
            real = tl.real_line(thunk, tl.canon_tensor)
        except tl.Inexact:
            rep.count("skipped:inexact")
            continue
        desc = dict(family=fam, subseed=subseed, expr=repr(case.e)[:2500], ob=repr(case.ob),
                    ob_style=case.ob_style, ar_style=case.ar_style, snake=info["snake"])
        # ---- distributions
        rep.count("family:" + fam)
        rep.count("result:" + (real if real.startswith("err") else "ok"))
        boxes = case.e[3]
        rep.count("boxes:%s" % (len(boxes) if len(boxes) < 10 else "10+"))
        for kd in {box_kind(case, b) for b in boxes}:
            rep.count("has_box:" + kd)
        width = max(len(case.fdims(s)) for s in scans_of(case.e))
        rep.count("running_width:%s" % (width if width < 8 else "8+"))
        if info["snake"]:
            rep.count("snake_inserted:%s:obstructions=%d" % (info["snake"], info["obstructions"]))
        if fam == "rigid":
            rep.count("ob_map:" + case.ob_style)
            rep.count("ar_map:" + case.ar_style)
            for nme in sorted(used_names(case.e)):
                rep.count("ob_value:" + ob_style(case.ob[nme]))
            if any(z != 0 for b in boxes for _, z in list(b["dom"]) + list(b["cod"])):
                rep.count("has_winding_numbers")
        else:
            rep.count("ob_map:identity_callable(eval)")
        rep.case(line, nontrivial(case))
        rep.sample(dict(family=fam, request=line[:300], answer=real[:200]))
        # ---- correspondence
        if real != model:
            rep.disagree("functor-eval", dict(desc, line=line[:3000]), real[:3000], model[:3000])
        if lay is None:
            rep.count("layers-model:skipped_for_cost")
        elif lay == model:
            layers_agree += 1
        else:
            rep.disagree("layers-model", dict(desc, line=line[:3000], feval=model[:1500]),
                         real[:3000], lay[:3000])
        if gen == "ok 1":
            hyp["met"] += 1
            rep.count("hyp:genuine=1")
        elif gen == "ok 0":
            hyp["not_met"] += 1
            rep.count("hyp:genuine=0")
            rep.disagree("hypotheses", dict(desc, line="fgenuine " + tok_expr(case.e)[:3000]),
                         "accepted by discopy: " + real[:200], gen)
        else:
            hyp["other"] += 1
            rep.count("hyp:" + gen[:30])
            rep.disagree("hypotheses", dict(desc, line="fgenuine " + tok_expr(case.e)[:3000]),
                         "accepted by discopy: " + real[:200], gen[:300])
        # ---- oracle
        try:
            oracle(rep, sub, case, desc, value[0], real)
        except tl.Inexact:
            rep.count("oracle.skipped:inexact")
    rep.extra["theorem_hypotheses_met"] = hyp
    rep.extra["layers_model_agreements"] = layers_agree
    return rep.finish()
