"""C05 — interchange moves exactly one box past a disconnected neighbour."""
import random

import numpy as np

from common import Driver, Report, ser_diagram, wf_failure, lean_obligations, err_class
from core import Family, Gen, tok_expr, enumerate_diagrams, small_signature
from semantics import IntFunctor, wire_labels
import recvlib

PROP = "C05"


def simulate(d, i, j, left):
    """Independent simulation of the documented behaviour on (box, offset) lists only.
    Returns ('ok', boxes, offsets) | ('interchanger',) | ('index',)."""
    n = len(d.boxes)
    if not 0 <= i < n or not 0 <= j < n:
        return ("index",)
    boxes, offs = list(d.boxes), list(d.offsets)
    pos = i
    while pos != j:
        k = pos if j > pos else pos - 1          # exchange positions k, k+1
        b0, b1, o0, o1 = boxes[k], boxes[k + 1], offs[k], offs[k + 1]
        b0_left = o1 >= o0 + len(b0.cod)         # upper box entirely left of the lower box
        b0_right = o0 >= o1 + len(b1.dom)        # upper box entirely right of the lower box
        if not b0_left and not b0_right:
            return ("interchanger",)
        if b0_left and (left or not b0_right):
            o1 = o1 - len(b0.cod) + len(b0.dom)
        else:
            o0 = o0 - len(b1.dom) + len(b1.cod)
        boxes[k], boxes[k + 1], offs[k], offs[k + 1] = b1, b0, o1, o0
        pos = pos + 1 if j > pos else pos - 1
    return ("ok", boxes, offs)


def relabel(consumed, outputs, perm):
    """Rename producer indices through perm (old index -> new index)."""
    def f(lab):
        return lab if lab[0] == "in" else (perm[lab[0]], lab[1])
    return [tuple(f(x) for x in c) for c in consumed], tuple(f(x) for x in outputs)


def same_boxes(xs, ys):
    """The same boxes in the same order: the very same objects, or equal for the library's `==`
    (falling back to the (name, z) token where `==` itself raises, e.g. on array data)."""
    xs, ys = list(xs), list(ys)
    if len(xs) != len(ys):
        return False
    for a, b in zip(xs, ys):
        if a is b:
            continue
        try:
            if bool(a == b):
                continue
            return False
        except Exception:
            if recvlib.rser_box(a) != recvlib.rser_box(b):
                return False
    return True


def wide(F, d, limit=128):
    """Largest dimension of a layer boundary of d under F exceeds `limit`."""
    return max([F.tydim(d.dom)] + [F.tydim(l.cod) for l in d.layers.boxes]) > limit


def etext(e, limit=200):
    """Class and text of an exception for a failure message; never raises."""
    try:
        return ("%s: %s" % (type(e).__name__, e))[:limit]
    except Exception as e2:
        return "%s (printing it raises %s)" % (type(e).__name__, type(e2).__name__)


def error_text_failure(e):
    """The refusal is an error object the caller can print: str(), repr() and format() of it are
    built without raising (a message assembled lazily from the boxes must cope with every kind of
    object that can sit in `boxes`)."""
    try:
        texts = [str(e), repr(e), "%s" % (e,), "{}".format(e)]
        if not all(isinstance(t, str) for t in texts):
            return "str()/repr() of the error is not a string"
    except Exception as e2:
        return "printing the raised %s raises %s: %s" % (type(e).__name__, type(e2).__name__, str(e2)[:120])
    return None


def check_move(rep, stream, case, d, i, j, left, model, rng, ser=None, free=False, ev=None,
               evcache=None, back=True, deep=False, semantics=True):
    """One interchange request on the real diagram `d`: correspondence with the model's answer and
    the property's own predicate.  `ser` = serialiser of the real result (answer-line format),
    `free` = evaluate under recvlib.FreeIntFunctor instead of semantics.IntFunctor (any box class),
    `ev` = the class's own evaluation (tensor eval / cartesian call), `back` = also move back."""
    value = [None]
    exc = [None]

    def thunk():
        value[0] = d.interchange(i, j, left=left)
        return value[0]
    if ser is None:
        ser = ser_diagram
    try:
        real = "ok " + ser(thunk())
    except Exception as e:  # noqa: the class is the observation
        real, exc[0] = "err " + err_class(e), e
    if exc[0] is not None and value[0] is None:
        why = error_text_failure(exc[0])
        if why:
            rep.fail("error_text_raises", case, why)
        rep.count("error_text_built")
    sim = simulate(d, i, j, left)
    rep.count("outcome:" + (real.split(" ")[0] if real.startswith("ok") else real.split(" ")[1]))
    r = value[0]
    n = len(d.boxes)
    got = None if real.startswith("ok") else real.split(" ")[1]
    # a formal sum answers len() with its number of terms, and interchange checks its indices against
    # len(): finding F45, reported under its own narrow signature (i == j on a Sum whose number of
    # terms is not 1: the answer is `self` for an index beyond its single box / IndexError for box 0)
    if hasattr(d, "terms") and len(d) != n and i == j and (
            (sim[0] == "index" and r is d) or (sim[0] == "ok" and got == "index")):
        rep.fail("sum_index_range_by_terms", case,
                 "a Sum of %d terms (one box): interchange(%d, %d) %s" % (
                     len(d), i, j, "returns the sum" if r is d else "raises IndexError"))
        return False
    if real != model:
        rep.disagree(stream, case, real, model)
    if r is None or got is not None:
        detail = "" if exc[0] is None else " (%s)" % etext(exc[0])
        if r is not None:
            rep.fail("result_unreadable", case, "the returned object cannot be read as a diagram" + detail)
        elif sim[0] == "ok":
            if got in ("interchanger", "index"):
                rep.fail("refused_but_free", case, "raised %s although every box on the way is free" % got)
            else:
                rep.fail("legal_move_raises", case, "a legal move raised %s%s" % (got, detail))
        elif sim[0] != got:
            rep.fail("wrong_error_class", case, "raised %s, expected %s%s" % (got, sim[0], detail))
        return False
    if sim[0] != "ok":
        rep.fail("accepted_but_" + sim[0], case, "returned a diagram, expected %s error" % sim[0])
        return True
    wf = recvlib.wf_failure_any if free else wf_failure
    why = wf(r)
    if why:
        rep.fail("illtyped_result", case, why)
        return True
    if r.dom != d.dom or r.cod != d.cod:
        rep.fail("dom_cod_changed", case, "dom/cod differ")
    order = list(range(n))
    order.insert(j, order.pop(i))                  # new position p holds old box order[p]
    c0, out0 = wire_labels(d)
    if not same_boxes([d.boxes[k] for k in order], r.boxes):
        rep.fail("boxes_not_moved", case, "boxes are not the input's with box i moved to j")
    else:
        perm = {old: new for new, old in enumerate(order)}
        c1, out1 = wire_labels(r)
        c0r, out0r = relabel(c0, out0, perm)
        expect = [None] * n
        for old, cons in enumerate(c0r):
            expect[perm[old]] = cons
        if expect != c1 or out0r != out1:
            rep.fail("attachment_changed", case, "some box is attached to different wires")
    frng = random.Random(rng.getrandbits(32))
    F = recvlib.FreeIntFunctor(frng) if free else IntFunctor(frng)
    try:
        if not semantics:
            rep.count("functor_skipped_long")      # > 450 boxes (scaling stream): boxes, offsets,
        elif free and wide(F, d):                  # attachment and the model's answer are compared
            rep.count("free_functor_skipped_wide")
        elif not np.array_equal(F.eval(d), F.eval(r)):
            rep.fail("semantics_changed", case, "evaluation under a random integer functor differs")
    except Exception as e:
        rep.fail("semantics_not_evaluable", case, "integer functor on the result: %s" % etext(e))
    if list(r.offsets) != list(sim[2]) or not same_boxes(r.boxes, sim[1]):
        rep.fail("offsets_unexpected", case, "offsets differ from the documented exchange rule")
    # a diagram of diagrams: the move must not change what the diagram denotes once its composite
    # boxes are opened (the harness's own recursive evaluation), and the library's flatten() of the
    # result must denote the receiver (where flatten() is usable at all, see below)
    if deep and i != j:
        F2 = recvlib.FreeIntFunctor(random.Random(rng.getrandbits(32)))
        cache = evcache if evcache is not None else {}
        try:
            want = recvlib.eval_deep(F2, d)
            if not np.array_equal(want, recvlib.eval_deep(F2, r)):
                rep.fail("nested_semantics_changed", case, "with the composite boxes opened, the result "
                         "evaluates differently under a random integer functor")
            rep.count("nested_opened_compared")
            # flatten() is not C05's business: it is used only where it is seen to denote the
            # receiver under this class-blind functor (it raises for some classes, and it
            # distributes formal sums, which turns the whole diagram into one opaque Sum)
            if "flat" not in cache:
                try:
                    cache["flat"] = recvlib.flatten_comparable(d) and bool(
                        np.array_equal(want, recvlib.eval_deep(F2, d.flatten())))
                    if not cache["flat"]:
                        rep.count("flatten_not_comparable")
                except recvlib.Wide:
                    raise
                except Exception:
                    cache["flat"] = False
                    rep.count("flatten_unavailable")
            if cache["flat"] and cache.get("flat_budget", 1) > 0:
                if "flat_budget" in cache:
                    cache["flat_budget"] -= 1
                try:
                    flat_r = r.flatten()
                except Exception as e:
                    # flatten() refuses some well-formed diagrams (e.g. biclosed ones with an Over /
                    # Under codomain next to a box): a failure only if the diagram built directly
                    # from the result's dom, cod, boxes, offsets does flatten
                    flat_r = None
                    if recvlib.rebuilt_flattens(d, r):
                        rep.fail("flatten_of_result_raises", case, "Diagram(dom, cod, boxes, offsets) of "
                                 "the result flattens, the result itself raises %s" % etext(e))
                    else:
                        rep.count("flatten_of_result_unavailable")
                if flat_r is not None:
                    if not np.array_equal(want, recvlib.eval_deep(F2, flat_r)):
                        rep.fail("flatten_of_result_changed", case, "flatten() of the result does not "
                                 "denote what the receiver denotes")
                    rep.count("flatten_compared")
        except recvlib.Wide:
            rep.count("nested_skipped_wide")
        except Exception as e:
            rep.fail("nested_not_evaluable", case, "integer functor on the opened result: %s" % etext(e))
    # the class's own evaluation (tensor contraction / python call) of receiver and result, both
    # under the same functor: a circuit's eval() picks the pure or the mixed one from the LAYOUT
    # (is_mixed looks at every layer boundary), so the mixed one is asked for as soon as either is
    if ev is not None and evcache is not None and i != j and evcache.get("budget", 1) > 0:
        if "budget" in evcache:
            evcache["budget"] -= 1
        try:
            mixed = bool(getattr(d, "is_mixed", False)) or bool(getattr(r, "is_mixed", False))
        except Exception:
            mixed = False
        key = ("d", mixed)
        if mixed and key not in evcache and recvlib.max_width(d) > 4:
            evcache[key] = None                    # 4^width: too wide for the mixed evaluation
            rep.count("class_eval_skipped_wide_mixed")
        if key not in evcache:
            try:
                evcache[key] = ev(d, mixed=mixed)
            except Exception:
                evcache[key] = None
                rep.count("class_eval_unavailable")
        if evcache[key] is not None:
            try:
                if not recvlib.same_value(evcache[key], ev(r, mixed=mixed)):
                    rep.fail("class_evaluation_changed", case, "the class's own evaluation of the result "
                             "differs from the receiver's")
                rep.count("class_eval_compared")
            except Exception as e:
                rep.fail("result_not_evaluable", case, "the receiver evaluates, the result raises %s" % etext(e))
    # moving the box back.  After an ADJACENT move the neighbour is still unwired to the box, so the
    # opposite move is legal for both preferences, gives back the receiver's boxes and attachment,
    # and one of the two preferences undoes the offset bookkeeping exactly.  After a longer move a
    # single preference may take another planar route past boxes without inputs or outputs and be
    # refused half way (an interchanger error is then not a failure), but whatever comes back must
    # again have the receiver's boxes and attachment; any other exception is a failure.
    if back and i != j:
        exact = False
        adjacent = abs(i - j) == 1
        for l2 in (False, True):
            try:
                b = r.interchange(j, i, left=l2)
            except Exception as e:
                if not adjacent and err_class(e) == "interchanger":
                    rep.count("move_back_other_route_refused")
                    continue
                rep.fail("move_back_raises", case, "interchange(%d, %d, left=%s) of the result raised %s"
                         % (j, i, l2, etext(e)))
                continue
            try:
                if not same_boxes(d.boxes, b.boxes) or b.dom != d.dom or b.cod != d.cod \
                        or wire_labels(b) != (c0, out0) or wf(b):
                    rep.fail("move_back_differs", case, "moving the box back (left=%s) does not restore "
                             "the boxes and their attachment" % l2)
                exact = exact or list(b.offsets) == list(d.offsets)
            except Exception as e:
                rep.fail("move_back_unreadable", case, etext(e))
        if adjacent and not exact:
            rep.fail("move_back_not_exact", case, "neither preference restores the receiver's offsets "
                     "after an adjacent move")
        rep.count("moved_back")
    return True


def check_one(rep, fam, fams, e, d, i, j, left, model, rng):
    line_case = dict(family=fam, expr=repr(e), i=i, j=j, left=left)
    # the move back is checked on every request in the quick tier, on a third in the thorough tier
    back = rep.tier == "quick" or rng.random() < 0.34
    return check_move(rep, "interchange", line_case, d, i, j, left, model, rng, back=back)


def triples_of(n, rng, tier):
    """(i, j, left) requests for a receiver of n boxes: all of [-1, n]^2 x both preferences when
    small (quick: n <= 4, thorough: n <= 9), otherwise every adjacent in-range pair, the long moves
    from both ends and a random rest."""
    full = [(i, j, l) for i in range(-1, n + 1) for j in range(-1, n + 1) for l in (False, True)]
    if n <= (4 if tier == "quick" else 9):
        return full
    adj = [(i, i + s, l) for i in range(n) for s in (-1, 1) if 0 <= i + s < n for l in (False, True)]
    if tier == "quick" and len(adj) > 24:
        adj = rng.sample(adj, 24)
    rest = rng.sample(full, 16 if tier == "quick" else 120)
    ends = [(0, n - 1, False), (n - 1, 0, True), (0, n, False), (-1, 0, False)]
    seen, out = set(), []
    for t in adj + ends + rest:
        if t not in seen:
            seen.add(t)
            out.append(t)
    return out


def receivers_stream(rep, drv, rng, tier):
    """Interchange on receivers of every diagram class and of subclasses with their own constructor
    (recvlib), all through the same model: the request is the receiver's (name, z) serialisation."""
    rcs, skipped = recvlib.receivers(random.Random(rng.getrandbits(64)), tier)
    rep.extra["receivers_not_constructible"] = [list(s) for s in skipped[:10]]
    for rc in rcs:
        d = rc.d
        try:
            n = len(d.boxes)
            spec = recvlib.rspec_diagram(d)
            before = recvlib.rser_diagram(d)
        except Exception as e:
            rep.fail("receiver_unreadable", dict(receiver=rc.label), etext(e))
            continue
        cls = type(d).__module__.replace("discopy.", "") + "." + type(d).__qualname__
        rep.count("recv_region:" + rc.region)
        rep.count("recv_family:" + rc.family)
        rep.count("recv_class:" + cls)
        rep.count("recv_boxes:%s" % (n if n < 10 else "10+"))
        deep = any(recvlib.is_composite(b) for b in d.boxes)
        if rc.shape:
            rep.count("recv_shape:%s:%s" % (rc.region, rc.shape))
            for b in d.boxes:
                rep.count("box_object:" + ("composite diagram" if recvlib.is_composite(b)
                                           else type(b).__module__.replace("discopy.", "") + "." + type(b).__name__))
        triples = triples_of(n, rng, tier)
        if hasattr(d, "terms"):            # a formal sum: also the indices its len() admits
            m = max(n, len(d))
            triples = [(i, j, l) for i in range(-1, m + 1) for j in range(-1, m + 1) for l in (False, True)]
        rng.shuffle(triples)               # the class evaluation is spent on the first legal moves
        lines = ["eval " + tok_expr(("interchange", spec, i, j, l)) for i, j, l in triples]
        answers = drv.ask_many(lines)
        evcache = {"budget": 5 if tier == "quick" else 16, "flat_budget": 4 if tier == "quick" else 24}
        if rc.shape and tier == "quick":
            evcache["budget"] = 1 if rc.family == "circuit" else 2
        ev = rc.ev if recvlib.max_width(d) <= 6 else None
        good = []
        for (i, j, l), line, model in zip(triples, lines, answers):
            case = dict(stream="receivers", receiver=rc.label, cls=cls, region=rc.region, i=i, j=j,
                        left=l, repr=recvlib.safe_repr(d)[:400], request=line[:1500])
            ok = check_move(rep, "receivers", case, d, i, j, l, model, rng, ser=recvlib.rser_diagram,
                            free=True, ev=ev, evcache=evcache, deep=deep)
            nontrivial = n >= 2 and i != j and 0 <= i < n and 0 <= j < n
            if nontrivial and simulate(d, i, j, l)[0] == "interchanger":
                rep.count("recv_must_refuse:" + rc.region)
                if abs(i - j) > 1 and simulate(d, i, i + (1 if j > i else -1), l)[0] == "ok":
                    rep.count("recv_must_refuse_part_way:" + rc.region)
            rep.case(cls + " " + line, nontrivial)
            if nontrivial:
                rep.count("recv_moves:" + rc.region)
                if ok:
                    rep.count("recv_moved:" + rc.region)
            if ok and i != j:
                good.append((i, j, l))
        if rc.region != "one-box" and len(rep.extra.setdefault("receiver_samples", [])) < 6:
            rep.extra["receiver_samples"].append(dict(receiver=rc.label, cls=cls, boxes=n,
                                                      requests=len(triples)))
        # histories: a sequence of moves starting from the receiver (each result is the next receiver)
        if good and n >= 3:
            cur = d
            for (i, j, l) in [rng.choice(good)] + [
                    (rng.randrange(n), rng.randrange(n), rng.random() < 0.5) for _ in range(2)]:
                try:
                    line = "eval " + tok_expr(("interchange", recvlib.rspec_diagram(cur), i, j, l))
                except Exception as e:
                    rep.fail("receiver_unreadable", dict(receiver=rc.label, step=(i, j, l)), etext(e))
                    break
                model = drv.ask(line)
                case = dict(stream="receivers", receiver="a result of moves on " + rc.label, cls=cls, region=rc.region,
                            i=i, j=j, left=l, repr=recvlib.safe_repr(cur)[:400], request=line[:1500])
                ok = check_move(rep, "receivers", case, cur, i, j, l, model, rng,
                                ser=recvlib.rser_diagram, free=True, ev=ev,
                                evcache={"budget": 1, "flat_budget": 1}, deep=deep)
                rep.case(cls + " " + line, i != j)
                rep.count("recv_sequence_step")
                if not ok:
                    break
                cur = cur.interchange(i, j, left=l)
        # the receiver is a value: it must be what it was after all these calls
        try:
            if recvlib.rser_diagram(d) != before:
                rep.fail("receiver_mutated", dict(receiver=rc.label, cls=cls),
                         "the receiver changed under interchange calls")
        except Exception as e:
            rep.fail("receiver_mutated", dict(receiver=rc.label, cls=cls), etext(e))


def run(tier, seed, replay=None):
    rep = Report(PROP, tier, seed)
    rep.rule = ("random well-typed monoidal/rigid diagrams (0-8 boxes, incl. scalars, states, effects, "
                "swaps, cups, caps); (i, j, left) triples: quick = 10 random per diagram incl. out of "
                "range, thorough = all; plus sequences of 2-3 interchanges; stream `receivers`: diagrams "
                "of every class (monoidal, rigid, pregroup, biclosed, cartesian, tensor, circuit, zx) as "
                "receivers - library subclasses with their own constructor (IQPansatz, cartesian Copy / "
                "Discard / Swap / Id), user subclasses Own_<class> built the same way, plain diagrams "
                "grown with >> and @ / rebuilt by the constructor / daggered / sliced / tensored, helper "
                "outputs (swap, permutation, cups, caps, spiders, ansatz functions), functor results, "
                "one-box receivers (every box class, Sum, Bubble, Id), and - regions nested / "
                "sum-bubble-box / odd-name / odd-str / foreign-box / mixed-kinds - diagrams of every class "
                "whose `boxes` hold composite diagrams (1 and 2 levels, identities, foliation()), formal "
                "sums (0-3 terms, of composites) and bubbles, boxes of another class than the diagram, "
                "boxes with non-string or format-hazardous names, boxes of user subclasses with their own "
                "__str__/__repr__/__format__, laid out grown / chain (wired) / blocked-left,-right,-2 "
                "(refused part-way) / side - with all (i, j, left) in [-1, n] "
                "(sampled above 4 / 9 boxes) and 3-step histories; stream `scaling` (c05_scale.py): LONG "
                "moves - a mover box between 0-2 rail wires on either side and n boxes on the rails "
                "(1 -> 1 boxes, scalars and state/effect pairs at the outer edges), n = 5 .. ~1600 in "
                "process at the default recursion limit (thorough: 2200), moved down and up past all of "
                "them with both preferences, with a box wired to the mover at the far end / half way / "
                "next to it (the request past it must be refused with InterchangerError, the one stopping "
                "before it is legal), targets beyond the end (IndexError); and the same at distances "
                "150-300 (thorough: 1200) in a subprocess under sys.setrecursionlimit(100); non-trivial = i != j in range on a "
                "diagram of >= 2 boxes; distinct by receiver class + request line")
    rep.partial = ["the class of the receiver (self.upgrade, subclass constructors) is outside the Lean "
                   "model: the receivers stream compares the five fields of the real result with the "
                   "class-blind model and applies the property's oracle (incl. the class's own "
                   "evaluation: tensor/circuit eval, cartesian call; zx/biclosed/grammar receivers are "
                   "evaluated under the free integer functor only)",
                   "taking a move back is a theorem (and an oracle clause) for adjacent moves only",
                   "the TEXT of the refusal (InterchangerError's message, built from str() of whatever "
                   "sits in `boxes`) is outside the Lean model: that the refusal is exactly an "
                   "InterchangerError / IndexError for every kind of box object, and that str()/repr() "
                   "of the raised error can be built, is an oracle clause (the model side is "
                   "interchange_box_blind: outcome and error class do not depend on what the boxes are)",
                   "the interpreter's recursion limit is outside the Lean model (the model's long-range "
                   "interchange is a structural recursion on the distance and is compared on every long "
                   "request, but that the code needs no stack proportional to the distance is an "
                   "oracle-only clause: scaling stream, in process to ~1600 boxes and low-stack subprocess)",
                   "flatten() of a result is compared with the receiver only where flatten() is usable "
                   "(no Sum/Bubble inside, the receiver's own flatten() denotes the receiver); the "
                   "harness's own recursive opening of composite boxes is compared always"]
    rep.lean = lean_obligations(PROP, thorough=(tier == "thorough"))
    n_diagrams = 120 if tier == "quick" else 2500
    rng = random.Random(seed)
    drv = Driver()
    fams = {"monoidal": Family("monoidal"), "rigid": Family("rigid")}
    try:
        for k in range(n_diagrams):
            fam = "rigid" if k % 3 == 2 else "monoidal"
            g = Gen(random.Random(rng.getrandbits(64)), rigid=(fam == "rigid"))
            e, _ = g.diagram(depth=rng.choice([1, 2, 2, 3, 3, 4, 5, 6, 8]))
            d = fams[fam].run(e)
            n = len(d.boxes)
            rep.count("boxes:%d" % n)
            triples = [(i, j, l) for i in range(-1, n + 1) for j in range(-1, n + 1)
                       for l in (False, True)]
            if tier == "quick":
                triples = rng.sample(triples, min(10, len(triples)))
            lines = ["eval " + tok_expr(("interchange", e, i, j, l)) for i, j, l in triples]
            answers = drv.ask_many(lines)
            results = []
            for (i, j, l), line, model in zip(triples, lines, answers):
                ok = check_one(rep, fam, fams, e, d, i, j, l, model, rng)
                rep.case(line, n >= 2 and i != j and 0 <= i < n and 0 <= j < n)
                rep.sample(dict(family=fam, request=line[:300], answer=model[:120]))
                if ok:
                    results.append((i, j, l))
            # sequences of interchanges
            if results and n >= 3:
                seq = e
                cur = d
                for _ in range(rng.randint(2, 3)):
                    i, j, l = rng.randrange(n), rng.randrange(n), rng.random() < 0.5
                    line = "eval " + tok_expr(("interchange", seq, i, j, l))
                    model = drv.ask(line)
                    ok = check_one(rep, fam, fams, seq, cur, i, j, l, model, rng)
                    rep.case(line, i != j)
                    rep.count("sequence_step")
                    if not ok:
                        break
                    cur = cur.interchange(i, j, left=l)
                    seq = ("interchange", seq, i, j, l)
        # ---- receivers of every diagram class / of subclasses with their own constructor
        receivers_stream(rep, drv, rng, tier)
        # ---- long moves (distances beyond the default recursion limit; low-stack subprocess)
        from props import c05_scale
        c05_scale.scaling_stream(rep, drv, random.Random(rng.getrandbits(64)), tier, check_move, simulate)
        # ---- exhaustive small scope: ALL diagrams over a fixed 8-box signature (scalar, state,
        # effect, unary, 1->2, 2->1, daggered endo, swap), domains (), a, a@b, width <= 4,
        # up to 2 (quick) / 3 (thorough) boxes, with ALL (i, j, left) triples incl. out of range
        a_, b_ = ("a", 0), ("b", 0)
        small = enumerate_diagrams(small_signature(), [[], [a_], [a_, b_]], 2 if tier == "quick" else 3, 4)
        n_small = 0
        for e in small:
            d = fams["monoidal"].run(e)
            n = len(d.boxes)
            triples = [(i, j, l) for i in range(-1, n + 1) for j in range(-1, n + 1)
                       for l in (False, True)]
            lines = ["eval " + tok_expr(("interchange", e, i, j, l)) for i, j, l in triples]
            answers = drv.ask_many(lines)
            for (i, j, l), line, model in zip(triples, lines, answers):
                check_one(rep, "monoidal", fams, e, d, i, j, l, model, rng)
                rep.case(line, n >= 2 and i != j and 0 <= i < n and 0 <= j < n)
                n_small += 1
        rep.extra["exhaustive_small_scope"] = dict(
            diagrams=len(small), requests=n_small, exhaustive=True,
            scope="all diagrams over the 8-box signature of core.small_signature, domains (), a, "
                  "a@b, width <= 4, depth <= %d; all (i, j, left) with i, j in [-1, n]"
                  % (2 if tier == "quick" else 3))
    finally:
        drv.close()
    return rep.finish()
