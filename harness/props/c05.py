"""C05 — interchange moves exactly one box past a disconnected neighbour."""
import random

import numpy as np

from common import Driver, Report, ser_result, wf_failure, lean_obligations, err_class
from core import Family, Gen, tok_expr, enumerate_diagrams, small_signature
from semantics import IntFunctor, wire_labels

PROP = "C05"


def simulate(d, i, j, left):
    """Independent simulation of the documented behaviour on (box, offset) lists only.
    Returns ('ok', boxes, offsets) | ('interchanger',) | ('index',)."""
    n = len(d.boxes)
    if not 0 <= i < n or not 0 <= j < n:
        return ("index",)
    boxes, offs = list(d.boxes), list(d.offsets)
    pos = i
    while pos != j:
        k = pos if j > pos else pos - 1          # exchange positions k, k+1
        b0, b1, o0, o1 = boxes[k], boxes[k + 1], offs[k], offs[k + 1]
        b0_left = o1 >= o0 + len(b0.cod)         # upper box entirely left of the lower box
        b0_right = o0 >= o1 + len(b1.dom)        # upper box entirely right of the lower box
        if not b0_left and not b0_right:
            return ("interchanger",)
        if b0_left and (left or not b0_right):
            o1 = o1 - len(b0.cod) + len(b0.dom)
        else:
            o0 = o0 - len(b1.dom) + len(b1.cod)
        boxes[k], boxes[k + 1], offs[k], offs[k + 1] = b1, b0, o1, o0
        pos = pos + 1 if j > pos else pos - 1
    return ("ok", boxes, offs)


def relabel(consumed, outputs, perm):
    """Rename producer indices through perm (old index -> new index)."""
    def f(lab):
        return lab if lab[0] == "in" else (perm[lab[0]], lab[1])
    return [tuple(f(x) for x in c) for c in consumed], tuple(f(x) for x in outputs)


def check_one(rep, fam, fams, e, d, i, j, left, model, rng):
    line_case = dict(family=fam, expr=repr(e), i=i, j=j, left=left)
    value = [None]

    def thunk():
        value[0] = d.interchange(i, j, left=left)
        return value[0]
    real = ser_result(thunk)
    if real != model:
        rep.disagree("interchange", line_case, real, model)
    sim = simulate(d, i, j, left)
    rep.count("outcome:" + (real.split(" ")[0] if real.startswith("ok") else real.split(" ")[1]))
    r = value[0]
    if r is None:
        got = real.split(" ")[1]
        if sim[0] == "ok":
            rep.fail("refused_but_free", line_case, "raised %s although every box on the way is free" % got)
        elif sim[0] != got:
            rep.fail("wrong_error_class", line_case, "raised %s, expected %s" % (got, sim[0]))
        return False
    if sim[0] != "ok":
        rep.fail("accepted_but_" + sim[0], line_case, "returned a diagram, expected %s error" % sim[0])
        return True
    why = wf_failure(r)
    if why:
        rep.fail("illtyped_result", line_case, why)
        return True
    if r.dom != d.dom or r.cod != d.cod:
        rep.fail("dom_cod_changed", line_case, "dom/cod differ")
    n = len(d.boxes)
    order = list(range(n))
    order.insert(j, order.pop(i))                  # new position p holds old box order[p]
    if [d.boxes[k] for k in order] != list(r.boxes):
        rep.fail("boxes_not_moved", line_case, "boxes are not the input's with box i moved to j")
    else:
        perm = {old: new for new, old in enumerate(order)}
        c0, out0 = wire_labels(d)
        c1, out1 = wire_labels(r)
        c0r, out0r = relabel(c0, out0, perm)
        expect = [None] * n
        for old, cons in enumerate(c0r):
            expect[perm[old]] = cons
        if expect != c1 or out0r != out1:
            rep.fail("attachment_changed", line_case, "some box is attached to different wires")
    F = IntFunctor(random.Random(rng.getrandbits(32)))
    if not np.array_equal(F.eval(d), F.eval(r)):
        rep.fail("semantics_changed", line_case, "evaluation under a random integer functor differs")
    if list(r.boxes) != list(sim[1]) or list(r.offsets) != list(sim[2]):
        rep.fail("offsets_unexpected", line_case, "offsets differ from the documented exchange rule")
    return True


def run(tier, seed, replay=None):
    rep = Report(PROP, tier, seed)
    rep.rule = ("random well-typed monoidal/rigid diagrams (0-8 boxes, incl. scalars, states, effects, "
                "swaps, cups, caps); (i, j, left) triples: quick = 10 random per diagram incl. out of "
                "range, thorough = all; plus sequences of 2-3 interchanges; non-trivial = i != j in "
                "range on a diagram of >= 2 boxes; distinct by request line")
    rep.partial = []
    rep.lean = lean_obligations(PROP, thorough=(tier == "thorough"))
    n_diagrams = 120 if tier == "quick" else 2500
    rng = random.Random(seed)
    drv = Driver()
    fams = {"monoidal": Family("monoidal"), "rigid": Family("rigid")}
    try:
        for k in range(n_diagrams):
            fam = "rigid" if k % 3 == 2 else "monoidal"
            g = Gen(random.Random(rng.getrandbits(64)), rigid=(fam == "rigid"))
            e, _ = g.diagram(depth=rng.choice([1, 2, 2, 3, 3, 4, 5, 6, 8]))
            d = fams[fam].run(e)
            n = len(d.boxes)
            rep.count("boxes:%d" % n)
            triples = [(i, j, l) for i in range(-1, n + 1) for j in range(-1, n + 1)
                       for l in (False, True)]
            if tier == "quick":
                triples = rng.sample(triples, min(10, len(triples)))
            lines = ["eval " + tok_expr(("interchange", e, i, j, l)) for i, j, l in triples]
            answers = drv.ask_many(lines)
            results = []
            for (i, j, l), line, model in zip(triples, lines, answers):
                ok = check_one(rep, fam, fams, e, d, i, j, l, model, rng)
                rep.case(line, n >= 2 and i != j and 0 <= i < n and 0 <= j < n)
                rep.sample(dict(family=fam, request=line[:300], answer=model[:120]))
                if ok:
                    results.append((i, j, l))
            # sequences of interchanges
            if results and n >= 3:
                seq = e
                cur = d
                for _ in range(rng.randint(2, 3)):
                    i, j, l = rng.randrange(n), rng.randrange(n), rng.random() < 0.5
                    line = "eval " + tok_expr(("interchange", seq, i, j, l))
                    model = drv.ask(line)
                    ok = check_one(rep, fam, fams, seq, cur, i, j, l, model, rng)
                    rep.case(line, i != j)
                    rep.count("sequence_step")
                    if not ok:
                        break
                    cur = cur.interchange(i, j, left=l)
                    seq = ("interchange", seq, i, j, l)
        # ---- exhaustive small scope: ALL diagrams over a fixed 8-box signature (scalar, state,
        # effect, unary, 1->2, 2->1, daggered endo, swap), domains (), a, a@b, width <= 4,
        # up to 2 (quick) / 3 (thorough) boxes, with ALL (i, j, left) triples incl. out of range
        a_, b_ = ("a", 0), ("b", 0)
        small = enumerate_diagrams(small_signature(), [[], [a_], [a_, b_]], 2 if tier == "quick" else 3, 4)
        n_small = 0
        for e in small:
            d = fams["monoidal"].run(e)
            n = len(d.boxes)
            triples = [(i, j, l) for i in range(-1, n + 1) for j in range(-1, n + 1)
                       for l in (False, True)]
            lines = ["eval " + tok_expr(("interchange", e, i, j, l)) for i, j, l in triples]
            answers = drv.ask_many(lines)
            for (i, j, l), line, model in zip(triples, lines, answers):
                check_one(rep, "monoidal", fams, e, d, i, j, l, model, rng)
                rep.case(line, n >= 2 and i != j and 0 <= i < n and 0 <= j < n)
                n_small += 1
        rep.extra["exhaustive_small_scope"] = dict(
            diagrams=len(small), requests=n_small, exhaustive=True,
            scope="all diagrams over the 8-box signature of core.small_signature, domains (), a, "
                  "a@b, width <= 4, depth <= %d; all (i, j, left) with i, j in [-1, n]"
                  % (2 if tier == "quick" else 3))
    finally:
        drv.close()
    return rep.finish()
