"""C20 — the drawing layout is a faithful planar embedding of the diagram.

Streams
  layout      diagram2nx(d) on the real code (nodes, exact positions, edges) against the Lean
              model (`layout <expr>`); open wires per height from an independent wire follower
  raw         diagram VALUES that bypassed the scanning constructor (`layers=` given): the
              `downgrade()` re-scan at drawing.py:100 refuses them (`layoutraw`)
  diagramize  random function bodies as data (calls in program order + returned tuple; planar ones
              from well-typed diagrams, ~12 % with one malformation: non-planar / repeated / unused
              wires, missing or out-of-range `offset=`, wrong arity or types, boxes outside the
              signature, fabricated nodes, ...) run through the real `drawing.diagramize` by
              building the Python function dynamically, against the model (`dz`): all five fields
              of the result or the exception class, and the planarity judgement of the body
  nx2d        nx2diagram(diagram2nx(d)) with the `offset` attribute absent / supplied for dom-less
              boxes / random, against the model (`nx2d`)
  nxgraph     the graph of diagram2nx(d) with node data, nodes in `graph.nodes` order, edges per
              source in insertion order, against the model (`nxgraph`)
  nxg         nx2diagram on mutated graphs (edge / node removed or added) against the model (`nxg`)
  bubble      (oracle only) diagrams with bubbles whose dom/cod are overridden in every way: node census
              on open_bubbles(), every port wired, edges down, open wires increasing, both back-ends
  attr        drawing ATTRIBUTES (harness/attrlib.py): diagrams grown from every box class that sets one
              (generic boxes with draw_as_spider / shape / color / drawing_name / tikzstyle_name /
              draw_as_wires, zx Z X Y H scalar SWAP, quantum gates, Controlled, Ket Bra Bits Measure
              Encode Discard MixedState Copy Match, tensor Spider, Swap Cup Cap, pregroup Words,
              cartesian Copy Swap Discard) mixed in one diagram, spiders with 0-3 legs on each side,
              several shapes and colours side by side; drawn by BOTH back-ends under a schedule of
              keyword arguments (defaults, every non-default value on its own, random combinations);
              plus drawing.equation / Equation.draw / Sum.draw and grammar.draw (pregroup_draw).
              Oracle: no exception; TikZ text and matplotlib artists contain every spider once, at its
              layout position, with its documented shape / colour / label, every box drawn as a box
              with its polygon and label.  The GRAPH of these diagrams is compared with the model
              (`layout` on the arity shadow) and passes the layout oracle.
  attr_spiders  the calls of nx.draw_networkx_nodes made by MatBackend.draw_spiders (read off the scatter
              collections on the axis) against Model/Spiders.lean (`spiders`)
  draw_history  (oracle only) HISTORIES of drawing (attrlib.History): the SAME diagram and box objects drawn
              2-4 times - Diagram.draw with TikZ / matplotlib in every order, diagram2nx alone, the diagram
              tensored with itself, drawing.equation - with the user changing drawing attributes of its
              boxes in between (draw_as_spider toggled, shape / color / drawing_name / tikzstyle_name set,
              any of them deleted, draw_as_wires toggled).  Every draw must succeed and produce exactly
              the output (TikZ text; every matplotlib artist; graph with the attributes its boxes carry) of
              an EQUAL diagram built from FRESH box objects on which the user's operations are replayed;
              and drawing must not change the user's objects
  unchanged   in EVERY stream that draws (layout, bubble, attr, attr_equation, attr_pregroup, draw_history):
              after diagram2nx / draw / equation / Equation.draw / Sum.draw / grammar.draw each box of the
              argument (also the box under a Controlled gate and the boxes inside a bubble) is the same
              object with exactly the `__dict__` it had before (keys, values by repr)
Oracle (the property's own statement, on the real graph and exact coordinates)
  node census, edges = wiring, strictly increasing open wires at every height, vertical wires,
  every edge points down, every box (centre, ports and drawn polygon) strictly between its
  neighbouring wires; both back-ends render without raising - also the second and later time the same
  objects are drawn, with the picture of an equal fresh diagram (a drawing is a function of the diagram:
  it neither depends on nor leaves traces in the user's objects); every planar function body declared
  with diagramize (fresh or re-used signature object) yields a well-typed diagram whose wiring -
  found by walking up the returned diagram - is the one the body describes;
  nx2diagram(diagram2nx(d)) == d.
"""
import os
os.environ["MPLBACKEND"] = "Agg"

import random
import shutil
import tempfile
from fractions import Fraction

from common import Driver, Report, lean_obligations, err_class, ser_diagram
import dzlib
import bubblelib
import attrlib
from core import Family, Gen, tok_expr, tok_ty, tok_box
from exprgen import ExprGen

PROP = "C20"
RANK = {"input": 0, "box": 1, "dom": 2, "cod": 3, "output": 4}


# ------------------------------------------------------------------ canonical form

def node_key(n):
    """(kind, depth, i) of a real `drawing.Node`."""
    if n.kind in ("input", "output"):
        return (n.kind, 0, n.i)
    if n.kind == "box":
        return ("box", n.depth, 0)
    return (n.kind, n.depth, n.i)


def sort_key(k):
    return (RANK[k[0]], k[1], k[2])


def tok_node(k):
    return "%s:%d:%d" % k


def exact(v):
    """Exact value of a coordinate (int or float); never rounds."""
    f = Fraction(v)
    assert f.denominator & (f.denominator - 1) == 0, "coordinate %r is not dyadic" % (v,)
    return f


def tok_frac(f):
    return "%d/%d" % (f.numerator, f.denominator)


def canon(pos, edges, scans):
    """The driver's answer format: half-units, sorted nodes, sorted edges, scans in order."""
    nodes = sorted(pos, key=sort_key)
    out = ["ok", "N", str(len(nodes))]
    for k in nodes:
        x, y = pos[k]
        out += [tok_node(k), tok_frac(2 * x), tok_frac(2 * y)]
    es = sorted(edges, key=lambda e: (sort_key(e[0]), sort_key(e[1])))
    out += ["E", str(len(es))]
    for a, b in es:
        out += [tok_node(a), tok_node(b)]
    out += ["S", str(len(scans))]
    for s in scans:
        out += [str(len(s))] + [tok_node(k) for k in s]
    return " ".join(out)


# ------------------------------------------------------------------ independent wire follower

def widths(d):
    w = [len(d.dom)]
    for b in d.boxes:
        w.append(w[-1] - len(b.dom) + len(b.cod))
    return w


def source(d, k, p):
    """The node whose output is the wire at type position `p` after `k` boxes, found by
    walking UP through the layers (no scan list is maintained)."""
    while k > 0:
        box, off = d.boxes[k - 1], d.offsets[k - 1]
        m, c = len(box.dom), len(box.cod)
        if p >= off + c:
            p = p - c + m
        elif p >= off:
            return ("cod", k - 1, p - off)
        k -= 1
    return ("input", 0, p)


def wiring(d):
    """(open wires per height, expected nodes, expected edges) of a diagram."""
    n, w = len(d.boxes), widths(d)
    scans = [[source(d, k, p) for p in range(w[k])] for k in range(n + 1)]
    nodes = [("input", 0, i) for i in range(len(d.dom))]
    edges = []
    for k, (box, off) in enumerate(zip(d.boxes, d.offsets)):
        nodes.append(("box", k, 0))
        for i in range(len(box.dom)):
            nodes.append(("dom", k, i))
            edges.append((source(d, k, off + i), ("dom", k, i)))
            edges.append((("dom", k, i), ("box", k, 0)))
        for i in range(len(box.cod)):
            nodes.append(("cod", k, i))
            edges.append((("box", k, 0), ("cod", k, i)))
    for i in range(len(d.cod)):
        nodes.append(("output", 0, i))
        edges.append((source(d, n, i), ("output", 0, i)))
    return scans, nodes, edges


# ------------------------------------------------------------------ the property's predicate

def oracle(d, keys, pos, edges):
    """Failures of C20's layout clauses on the real graph.  `keys` = list of node keys as the
    graph holds them (with repetitions, if any), `pos` exact positions, `edges` list."""
    out = []
    scans, want_nodes, want_edges = wiring(d)
    if sorted(keys, key=sort_key) != sorted(want_nodes, key=sort_key) \
            or set(pos) != set(want_nodes):
        out.append(("node_census", "nodes %r expected %r" % (sorted(keys)[:6], want_nodes[:6])))
        return out
    if sorted(edges) != sorted(want_edges):
        out.append(("edges_not_wiring", "edges differ: %r" % (
            sorted(set(edges) ^ set(want_edges))[:4],)))
    for k, s in enumerate(scans):
        xs = [pos[v][0] for v in s]
        if any(a >= b for a, b in zip(xs, xs[1:])):
            out.append(("open_wires_not_increasing", "height %d: %r" % (k, xs)))
    for a, b in edges:
        if pos[a][1] <= pos[b][1]:
            out.append(("edge_not_downwards", "%r -> %r" % (a, b)))
        if a[0] in ("input", "cod") and pos[a][0] != pos[b][0]:
            out.append(("wire_not_vertical", "%r -> %r: %s vs %s" % (a, b, pos[a][0], pos[b][0])))
    q = Fraction(1, 4)
    for k, (box, off) in enumerate(zip(d.boxes, d.offsets)):
        m, c, s = len(box.dom), len(box.cod), scans[k]
        mine = [("box", k, 0)] + [("dom", k, i) for i in range(m)] + [("cod", k, i) for i in range(c)]
        xs = [pos[v][0] for v in mine]
        # the polygon draw_box draws (drawing.py:598-623): ports -/+ .25, plus the dagger slant
        ports = xs[1:] or xs[:1]
        lo, hi = min(ports) - q, max(ports) + q + (q if box.is_dagger else 0)
        if off > 0:
            left = pos[s[off - 1]][0]
            if not all(left < x for x in xs):
                out.append(("box_not_between", "box %d: left wire %s, box xs %r" % (k, left, xs)))
            elif not left < lo:
                out.append(("box_polygon_overlaps_wire", "box %d: left wire %s, polygon from %s" % (k, left, lo)))
        if off + m < len(s):
            right = pos[s[off + m]][0]
            if not all(x < right for x in xs):
                out.append(("box_not_between", "box %d: right wire %s, box xs %r" % (k, right, xs)))
            elif not hi < right:
                out.append(("box_polygon_overlaps_wire", "box %d: right wire %s, polygon to %s" % (k, right, hi)))
    return out


# ------------------------------------------------------------------ real-code runs

def real_layout(d):
    from discopy.drawing import diagram2nx
    graph, positions = diagram2nx(d)
    keys = [node_key(n) for n in graph.nodes]
    pos = {node_key(n): (exact(p[0]), exact(p[1])) for n, p in positions.items()}
    assert len(pos) == len(positions), "two graph nodes share (kind, depth, i)"
    edges = [(node_key(a), node_key(b)) for a, b in graph.edges()]
    return graph, keys, pos, edges


def body_of(d):
    """A Python function body (planar order: wires are used in scan order) that describes `d`
    in the function-call syntax of `diagramize`."""
    def func(*wires):
        wires = list(wires)
        for box, off in zip(d.boxes, d.offsets):
            m = len(box.dom)
            out = box(*wires[off:off + m], offset=off)
            out = list(out) if isinstance(out, tuple) else [out]
            wires[off:off + m] = out
        return tuple(wires) if len(wires) != 1 else wires[0]
    return func


def grow_shape(g, dom, depth, maxw, mode):
    """Layout-directed growth: the box's arity is chosen first (every m, c in 0..4), then an
    offset where it fits; `mode` biases towards merges (fine dyadic midpoints), wide codomains
    above narrow gaps (padding), or uniform."""
    r = g.rng
    scan, boxes, offsets = list(dom), [], []
    for _ in range(depth):
        n = len(scan)
        if mode == "merge":
            m, c = r.choice([(2, 1), (2, 1), (3, 1), (1, 1), (2, 2), (1, 2), (0, 1)])
        elif mode == "wide":
            m, c = r.choice([(0, 3), (1, 3), (0, 4), (1, 4), (2, 4), (0, 0), (1, 0), (2, 0), (0, 2)])
        else:
            m, c = r.randint(0, 4), r.randint(0, 4)
        m = min(m, n)
        c = max(0, min(c, maxw - (n - m)))
        off = r.randint(0, n - m)
        box = g.gbox(scan[off:off + m], [g.ob() for _ in range(c)])
        boxes.append(box)
        offsets.append(off)
        scan = scan[:off] + list(box["cod"]) + scan[off + m:]
    return ("mk", list(dom), list(scan), boxes, offsets)


# ------------------------------------------------------------------ drawing attributes (oracle only)

def attr_stream(rep, rng, thorough, tmpdir, plt):
    """Diagrams from every box class that sets a drawing attribute, drawn by both back-ends under a
    sample of keyword arguments (see attrlib).  The graph is still compared with the model."""
    import warnings
    from discopy import drawing
    from discopy import grammar
    n_attr = 180 if not thorough else 1000
    n_eq = 24 if not thorough else 150
    n_pg = 20 if not thorough else 120
    raster_every = 8 if not thorough else 2

    def clean():
        for f in os.listdir(tmpdir):
            os.remove(os.path.join(tmpdir, f))

    spider_jobs = []        # (case, driver line, real answer) for the `spiders` command

    def both_backends(case, kw, draw, on_tikz, on_fig, raster, diagrams=(), on_mpl_error=None):
        """Run `draw(**kw)` with the TikZ back-end (file read back) and the matplotlib back-end
        (artists inspected on the open figure; rasterised to a PNG when `raster`)."""
        for backend in ("tikz", "matplotlib"):
            before = attrlib.state(diagrams)
            try:
                if backend == "tikz":
                    path = os.path.join(tmpdir, "a.tikz")
                    draw(to_tikz=True, path=path, **kw)
                    fails = on_tikz(open(path).read())
                    if kw.get("use_tikzstyles") and kw.get("output_tikzstyle", True) \
                            and not os.path.exists(os.path.join(tmpdir, "a.tikzstyles")):
                        fails.append(("attr_tikz_output_malformed", "no .tikzstyles file written"))
                    rep.count("attr_render:tikz")
                else:
                    with warnings.catch_warnings():
                        warnings.simplefilter("ignore")
                        draw(**kw)
                        fails = on_fig(plt.gcf())
                        rep.count("attr_render:matplotlib_artists")
                        if raster:
                            plt.close("all")
                            path = os.path.join(tmpdir, "a.png")
                            draw(path=path, **dict(kw, figsize=kw.get("figsize", (2, 1.5))))
                            if os.path.getsize(path) == 0:
                                fails.append(("attr_matplotlib_output_empty", path))
                            rep.count("attr_render:matplotlib_png")
                for sig, text in fails:
                    rep.fail(sig, dict(case, backend=backend), text)
            except Exception as exc:
                if backend == "matplotlib" and on_mpl_error is not None:
                    on_mpl_error(exc)
                rep.fail(attrlib.known_signature(diagrams, exc) or "attr_%s_backend_raises" % backend,
                         dict(case, backend=backend), "%s: %s" % (type(exc).__name__, str(exc)[:300]))
            finally:
                plt.close("all")
                clean()
            diff = attrlib.state_diff(before, attrlib.state(diagrams))
            rep.count("unchanged_boxes_checked:attr_" + backend)
            if diff:
                rep.count("changed_boxes:attr_" + backend)
                if rep.dist.get("changed_boxes:attr_" + backend, 0) <= 3:
                    rep.fail("attr_%s_changes_user_boxes" % backend, dict(case, backend=backend),
                             "; ".join(diff[:6]))

    # ---------------- generate
    cases = list(attrlib.pinned())
    for k in range(n_attr):
        sub = random.Random(rng.getrandbits(64))
        cases.append(attrlib.gen(sub))
    sentences = []
    for k in range(n_pg):
        sub = random.Random(rng.getrandbits(64))
        d, words, n_cups = attrlib.gen_sentence(sub)
        sentences.append((d, words, n_cups, attrlib.pregroup_kw(sub, k)))
        cases.append(("pregroup", d, ["word"] * len(words) + ["cup"] * n_cups))
    kws = attrlib.kw_schedule(random.Random(rng.getrandbits(64)), len(cases))
    lines = ["layout " + tok_expr(attrlib.shadow(d)) for _, d, _ in cases]
    drv = Driver()
    try:
        answers = drv.ask_many(lines)
    finally:
        drv.close()

    # ---------------- Diagram.draw
    censuses = []
    for k, ((fam, d, tags), kw, line, model) in enumerate(zip(cases, kws, lines, answers)):
        case = dict(stream="attr", family=fam, diagram=attrlib.safe_repr(d),
                    boxes=attrlib.describe(d)[:40], kwargs=repr(kw))
        rep.count("attr_family:" + fam)
        for t in tags:
            rep.count("attr_box:" + t)
        for name, v in kw.items():
            rep.count("attr_kw:%s=%r" % (name, v))
        if not kw:
            rep.count("attr_kw:defaults")
        before = attrlib.state([d])
        try:
            graph, keys, pos, edges = real_layout(d)
        except AssertionError:
            raise
        except Exception as exc:
            rep.fail("attr_diagram2nx_raises", case, repr(exc))
            censuses.append(None)
            continue
        diff = attrlib.state_diff(before, attrlib.state([d]))
        rep.count("unchanged_boxes_checked:attr_diagram2nx")
        if diff:
            rep.count("changed_boxes:attr_diagram2nx")
            if rep.dist.get("changed_boxes:attr_diagram2nx", 0) <= 3:
                rep.fail("attr_diagram2nx_changes_user_boxes", case, "; ".join(diff[:6]))
        real = canon(pos, edges, wiring(d)[0])
        if real != model:
            rep.disagree("attr_layout", dict(case, line=line[:2000]), real[:3000], model[:3000])
        for sig, text in oracle(d, keys, pos, edges):
            rep.fail(sig, case, text)
        npos = attrlib.normalise(pos)
        cen = attrlib.census(d, {i: npos[("box", i, 0)] for i in range(len(d.boxes))})
        censuses.append(cen)
        shapes = {s_["shape"] for s_ in cen["spiders"]}
        rep.count("attr_spider_shapes_in_diagram:%d" % len(shapes))
        rep.count("attr_spider_colours_in_diagram:%d" % len({s_["color"] for s_ in cen["spiders"]}))
        rep.count("attr_spiders", len(cen["spiders"]))
        for b in d.boxes:
            if getattr(b, "draw_as_spider", False):
                rep.count("attr_spider_legs:%d_%d" % (len(b.dom), len(b.cod)))
        rep.case("attr %s %r" % (attrlib.safe_repr(d, 4000), kw), len(d.boxes) >= 2 and len(attrlib.classes(cen)) >= 2)
        if k % 40 == 0:
            rep.sample(dict(stream="attr", family=fam, diagram=str(d)[:300], kwargs=repr(kw),
                            drawn_as=attrlib.classes(cen)), cap=8)
        # MatBackend.draw_spiders against Model/Spiders.lean: the scatter collections on the axis are
        # its calls of nx.draw_networkx_nodes (diagrams without controlled gates, which scatter too)
        sline = attrlib.spiders_line(d.boxes) if not cen["special"] else None

        def on_fig(fig, cen=cen, kw=kw, sline=sline, case=case, npos=npos, n=len(d.boxes)):
            if sline is not None and fig.axes:
                spider_jobs.append((case, sline, attrlib.spiders_real(
                    fig, {i: npos[("box", i, 0)] for i in range(n)})))
            return attrlib.check_mpl(fig, cen, kw)

        def on_mpl_error(exc, sline=sline, case=case):
            if sline is not None:
                spider_jobs.append((case, sline, "err " + err_class(exc)))
        both_backends(case, kw, lambda **q: d.draw(show=False, **q),
                      lambda text: attrlib.check_tikz(text, cen, kw), on_fig,
                      raster=(k % raster_every == 0), diagrams=[d], on_mpl_error=on_mpl_error)

    # ---------------- drawing.equation / Equation.draw / Sum.draw (positions are scaled and padded:
    # counts only)
    usable = [(c, cen) for c, cen in zip(cases, censuses) if cen is not None and len(c[1].boxes) <= 6]
    for k in range(n_eq if usable else 0):
        sub = random.Random(rng.getrandbits(64))
        mode = sub.choice(["equation", "equation", "Equation.draw", "sum"])
        if mode == "sum":
            (fam, d, _), cen = sub.choice([u for u in usable if attrlib.family(
                u[0][0] if u[0][0] != "pregroup" else "rigid").addable])
            terms, cens = [d] * sub.choice([2, 3]), None
            cens = [cen] * len(terms)
        else:
            picks = [sub.choice(usable) for _ in range(sub.choice([2, 2, 3]))]
            terms, cens = [c[1] for c, _ in picks], [cen for _, cen in picks]
        cen = attrlib.merge_census(cens)
        kw = sub.choice(kws)
        extra = {}
        if mode != "sum":
            if sub.random() < 0.5:
                extra["symbol"] = sub.choice(["$\\mapsto$", ",", ""])
            if sub.random() < 0.3 and mode == "equation":
                extra["space"] = sub.choice([0.5, 2])
        case = dict(stream="attr_equation", mode=mode, terms=[attrlib.safe_repr(t, 600) for t in terms],
                    kwargs=repr(dict(kw, **extra)))
        rep.count("attr_equation:" + mode)
        rep.case("attr_eq %s %s %r" % (mode, case["terms"], kw), False)
        if mode == "equation":
            draw = lambda **q: drawing.equation(*terms, show=False, **dict(extra, **q))     # noqa: E731
        elif mode == "Equation.draw":
            eq = drawing.Equation(*terms, **({"symbol": extra["symbol"]} if "symbol" in extra else {}))
            draw = lambda **q: eq.draw(show=False, **q)                                      # noqa: E731
        else:
            try:
                total = terms[0]
                for t in terms[1:]:
                    total = total + t
            except Exception as exc:
                rep.fail("attr_sum_raises", case, repr(exc))
                continue
            draw = lambda **q: total.draw(show=False, **q)                                   # noqa: E731
        both_backends(case, kw, draw,
                      lambda text: attrlib.check_tikz(text, cen, kw, exact_positions=False),
                      lambda fig: attrlib.check_mpl(fig, cen, kw, exact_positions=False),
                      raster=(k % 6 == 0), diagrams=terms)

    # ---------------- grammar.draw (pregroup_draw): one triangle and one name per word
    for k, (d, words, n_cups, kw) in enumerate(sentences):
        case = dict(stream="attr_pregroup", diagram=attrlib.safe_repr(d), kwargs=repr(kw))
        rep.count("attr_pregroup:words=%d" % len(words))
        rep.count("attr_pregroup:cups=%d" % min(n_cups, 3))
        for name, v in kw.items():
            rep.count("attr_pregroup_kw:%s=%r" % (name, v))
        rep.case("attr_pregroup %r %r" % (d, kw), False)
        names = sorted(str(w) for w in words)

        def on_tikz(text, names=names):
            nodes, polygons = attrlib.parse_tikz(text)
            out = []
            if polygons != len(names):
                out.append(("attr_pregroup_triangles", "%d polygons for %d words" % (polygons, len(names))))
            got = sorted(n["text"] for n in nodes if n["text"] in names)
            if got != names:
                out.append(("attr_pregroup_word_names", "names %r, expected %r" % (got, names)))
            return out

        def on_fig(fig, names=names):
            cen = dict(spiders=[], plain=[dict(pos=None, name=n, color="white", box=n) for n in names],
                       special=[], wires=0)
            out = attrlib.check_mpl(fig, cen, {}, exact_positions=False)
            got = sorted(t.get_text() for t in fig.axes[0].texts if t.get_text() in names) \
                if fig.axes else []
            if got != names:
                out.append(("attr_pregroup_word_names", "names %r, expected %r" % (got, names)))
            return out
        both_backends(case, kw, lambda **q: grammar.draw(d, **q), on_tikz, on_fig, raster=(k % 5 == 0),
                      diagrams=[d])

    # ---------------- MatBackend.draw_spiders: the calls it made against the model's
    drv = Driver()
    try:
        sp_answers = drv.ask_many([j[1] for j in spider_jobs])
    finally:
        drv.close()
    for (case, line, real), model in zip(spider_jobs, sp_answers):
        rep.count("stream:attr_spiders")
        rep.count("attr_spiders_calls:%s" % (real.split()[1] if real.startswith("ok") else real))
        if real != model:
            rep.disagree("attr_spiders", dict(case, line=line[:1500]), real[:1500], model[:1500])


# ------------------------------------------------------------------ histories of drawing (oracle only)

def history_stream(rep, rng, thorough, tmpdir, plt):
    """The SAME diagram objects drawn several times, drawing attributes changed in between, both
    back-ends in both orders (attrlib.History).  Each draw must succeed, give the output of an EQUAL
    diagram built from fresh objects with the user's attributes, and leave the user's boxes unchanged."""
    n_hist = 30 if not thorough else 250
    raster_every = 8 if not thorough else 4
    todo = []
    try:
        todo += attrlib.pinned_histories()
    except AssertionError:
        raise
    except Exception as exc:
        rep.fail("hist_build_raises", dict(stream="draw_history", pinned=True), repr(exc)[:300])
    for _ in range(n_hist):
        hseed = rng.getrandbits(48)
        try:
            todo.append((attrlib.History(hseed), None))
        except AssertionError:
            raise
        except Exception as exc:    # building the diagram (library constructors, >>, @) twice
            rep.fail("hist_build_raises", dict(stream="draw_history", history_seed=hseed), repr(exc)[:300])
    for k, (h, steps) in enumerate(todo):
        sub = random.Random(h.seed ^ 0x5EED)
        rep.count("hist_family:" + h.family)
        rep.count("hist_histories")
        n_steps = len(steps) if steps is not None else sub.choice([2, 3, 3, 4])
        backends, failed, state_reported = [], False, False
        for j in range(n_steps):
            if steps is not None:
                ops, action, kw = steps[j]
            else:
                ops = h.gen_ops(sub, first=(j == 0))
                action, kw = sub.choice(attrlib.HIST_ACTIONS), dict(sub.choice(attrlib.HIST_KW))
            fails, counts = h.step(ops, action, kw, tmpdir, plt, raster=(k % raster_every == 0),
                                   shadow_done=steps is None)
            for c in counts:
                rep.count(c)
            rep.count("hist_draws")
            backends.append("tikz" if action.endswith("tikz") else "nx" if action == "nx" else "mpl")
            # a change of the user's boxes is reported once per history; the history goes on (the
            # output clause is judged on its own), it stops at the first failed draw
            state_fails = [f for f in fails if f[0].endswith("_changes_user_boxes")]
            other = [f for f in fails if f not in state_fails]
            if state_fails and not state_reported:
                rep.count("changed_boxes:hist")
            report = other + ([] if state_reported or rep.dist.get("changed_boxes:hist", 0) > 3
                              else state_fails[:1])
            state_reported = state_reported or bool(state_fails)
            if report:
                case = h.describe()
                for sig, text in report:
                    rep.fail(sig, case, text)
                failed = True
            if other:
                break
        order = [b for b in backends if b != "nx"]
        for a, b in zip(order, order[1:]):
            rep.count("hist_order:%s_then_%s" % (a, b))
        changed = sum(len(s_["ops"]) for s_ in h.log[1:])
        rep.count("hist_ops_between_draws", changed)
        if k % 12 == 0 and not failed:
            rep.sample(dict(stream="draw_history", family=h.family, diagram=str(h.diagram)[:200],
                            steps=h.log), cap=5)
        rep.case("hist %s %r" % (h.name or h.seed, h.log), changed >= 1 and len(backends) >= 2)


def run(tier, seed, replay=None):
    import matplotlib
    matplotlib.use("Agg")
    import matplotlib.pyplot as plt
    from discopy import monoidal, cat
    from discopy.drawing import nx2diagram, diagramize, diagram2nx

    rep = Report(PROP, tier, seed)
    rep.rule = ("random monoidal (3/4) and rigid (1/4) diagrams grown layer by layer through the "
                "scanning constructor, widths 0-%s, depths 0-%s, boxes of every arity 0-3 -> 0-3 incl. "
                "scalars/states/effects/swaps/cups/caps, plus op-language expressions (then/tensor/...) "
                "and ~10%% diagram values that bypass the scan; non-trivial = >= 2 boxes and make_space "
                "moved at least one earlier node (some input no longer at x = i) or a box was placed at a "
                "non-half-integer; distinct by token form.  diagramize stream: function bodies derived from "
                "such diagrams (planar by construction; `offset=` given where needed and sometimes "
                "redundantly, right or wrong), 1 in 8 with one malformation (half of them misuse wires: "
                "swapped / non-adjacent / repeated / consumed arguments, dropped or permuted return, "
                "missing or out-of-range offset; else arity, types, signature, fabricated nodes, "
                "id_factory); non-trivial = planar, >= 2 calls, some call away from position 0.  "
                "attr stream: diagrams grown with >> and @ from the box classes that set drawing attributes "
                "(7 families: monoidal, rigid, zx, circuit, tensor, cartesian, pregroup; 1-8 boxes, "
                "spiders 0-3 -> 0-3), each drawn by both back-ends with one keyword-argument dict of a "
                "schedule (defaults, each non-default value alone, random 2-6 combinations); non-trivial = "
                ">= 2 boxes drawn in >= 2 different ways (spider shape/colour, plain colour, wires, "
                "brakets/controlled/discard/measure); distinct by repr + kwargs.  draw_history stream: "
                "a diagram of the attr generator (plain monoidal boxes most often, every other family too) "
                "drawn 2-4 times (tikz / matplotlib / diagram2nx / tensored with itself / equation) with "
                "0-1 attribute operations before the first draw and 1-3 between draws on boxes that are "
                "not library singletons; non-trivial = >= 2 draws with >= 1 attribute operation between them")
    rep.partial = [
        "back-ends (MatBackend, TikzBackend, draw, draw_box, quantum.drawing, equation, pregroup_draw): "
        "oracle only (matplotlib and file output are outside the model) - rendered without raising on the "
        "generated diagrams, incl. the drawing-attributes stream where the TikZ text and the matplotlib "
        "artists are inspected (every spider once at its layout position with its shape/colour/label, "
        "every plain box with polygon and label); only MatBackend.draw_spiders' grouping of spiders into "
        "calls is modelled (Model/Spiders.lean, theorems draw_spiders_*, stream attr_spiders)",
        "statelessness of drawing (the same objects drawn again after attribute changes give the picture "
        "of an equal fresh diagram; drawing leaves the user's boxes unchanged) is ORACLE ONLY: the Lean "
        "layout model is a pure function of the diagram value, object identity and attribute dicts of "
        "Python boxes (what monoidal.Box.downgrade copies and drawing.add_drawing_attributes writes to) "
        "are not modelled - stream draw_history plus the unchanged-boxes check in every drawing stream",
        "bubbles (Diagram.open_bubbles, bubble_opening/closing branches of add_box) are not modelled: "
        "oracle only, on generated diagrams with bubbles whose dom/cod are overridden in every way "
        "(node census, every port wired, edges down, open wires increasing, both back-ends)",
        "diagramize: function bodies are modelled by the data their run produces (calls + returned "
        "tuple); non-Node arguments, bodies that catch exceptions, the same box object listed twice "
        "in `boxes` are outside the model",
    ]
    rep.assumptions = [
        "coordinates: the Python floats are compared EXACTLY (fractions.Fraction) with the model's "
        "rationals; depth is capped so that 53-bit floats represent every dyadic coordinate",
        "nx2diagram(diagram2nx(d)) == d is demanded after giving dom-less box nodes the `offset` attribute "
        "that nx2diagram's docstring requires (diagram2nx does not set it; theorem "
        "nx2diagram_diagram2nx has exactly this hypothesis); the raw composite is compared with the "
        "model only",
        "diagramize oracle: applies to bodies the harness's own planarity check accepts (every position "
        "searched; cross-checked with the model's decidable predicate on every case) with boxes or an "
        "id_factory given; Swap/Cup/Cap boxes that diagram2nx downgraded to plain boxes are serialised "
        "up to Python's == with the originals",
    ]
    thorough = tier == "thorough"
    import time
    phase_t = [time.time()]

    def phase(name):
        now = time.time()
        rep.extra.setdefault("phase_seconds", {})[name] = round(now - phase_t[0], 2)
        phase_t[0] = now
    rep.lean = lean_obligations(PROP, thorough=thorough)
    phase("lean_obligations")
    n_cases = 600 if not thorough else 4500
    n_png = 80 if not thorough else 3000           # rasterised; artists are built for all
    maxd = 10 if not thorough else 26
    rng = random.Random(seed)
    fams = {"monoidal": Family("monoidal"), "rigid": Family("rigid")}

    # ---------------- generate
    cases = []
    for k in range(n_cases):
        sub = random.Random(rng.getrandbits(64))
        fam = "rigid" if k % 4 == 3 else "monoidal"
        maxw = sub.choice([3, 5, 6, 8, 12] if thorough else [3, 5, 6, 8])
        g = Gen(sub, rigid=(fam == "rigid"), maxw=maxw)
        if k % 10 == 9:
            e = ExprGen(sub, rigid=(fam == "rigid")).malformed_mk()[0]
            cases.append((fam, "raw", e))
        elif k % 10 == 8:
            e = ExprGen(sub, rigid=(fam == "rigid"), malformed=0.0,
                        ops=["then", "tensor", "dagger", "swap", "perm"]).expr(2)[0]
            cases.append((fam, "expr", e))
        else:
            depth = sub.choice([0, 1, 2, 3, 4, 5, 6, 8, maxd])
            dom = g.ty(0, min(maxw, 6))
            mode = sub.choice(["core", "uniform", "merge", "wide"]) if fam == "monoidal" else "core"
            if mode == "core":
                e = g.diagram(dom=dom, depth=depth)[0]
            else:
                e = grow_shape(g, dom, depth, maxw, mode)
            rep.count("generator:" + mode)
            cases.append((fam, "mk", e))

    def line_of(kind, e):
        if kind == "raw":
            _, dom, cod, boxes, offsets = e
            return "layoutraw %s %s %s %s" % (
                tok_ty(dom), tok_ty(cod),
                " ".join([str(len(boxes))] + [tok_box(b) for b in boxes]),
                " ".join([str(len(offsets))] + [str(o) for o in offsets]))
        return "layout " + tok_expr(e)

    lines = [line_of(kind, e) for _, kind, e in cases]
    drv = Driver()
    try:
        answers = drv.ask_many(lines)
    finally:
        drv.close()

    nx_jobs = []        # (stream, case, driver line, real answer)
    changed_reported = set()

    def unchanged(what, before, d, case):
        """A drawing is a function of the diagram: `what` must leave the user's boxes as they were
        (`before` = attrlib.state([d]) taken before the first drawing call; one report per case)."""
        rep.count("unchanged_boxes_checked:" + what)
        diff = attrlib.state_diff(before, attrlib.state([d]))
        if diff and id(d) not in changed_reported:
            changed_reported.add(id(d))
            rep.count("changed_boxes:" + what)
            if rep.dist.get("changed_boxes:" + what, 0) <= 3:     # the same report 600 times helps nobody
                rep.fail("%s_changes_user_boxes" % what, dict(case, diagram=repr(d)[:1500]),
                         "; ".join(diff[:6]))
    tmpdir = tempfile.mkdtemp(prefix="c20_render_")
    assert not tmpdir.startswith("/repo") and not tmpdir.startswith(os.path.dirname(
        os.path.dirname(os.path.abspath(__file__))))
    rendered_png = rendered_tikz = 0
    try:
        for idx, ((fam, kind, e), line, model) in enumerate(zip(cases, lines, answers)):
            F = fams[fam]
            rep.count("family:" + fam)
            rep.count("kind:" + kind)
            case = dict(family=fam, line=line[:2000])
            # ---- build the diagram value
            try:
                if kind == "raw":
                    _, dom, cod, boxes, offsets = e
                    d = F.m.Diagram(F.ty(dom), F.ty(cod), [F.box(b) for b in boxes],
                                    list(offsets), layers=cat.Id(F.ty(dom)))
                else:
                    d = F.run(e)
            except Exception as exc:
                real = "err " + err_class(exc)
                rep.count("result:" + real)
                rep.case(line, False)
                if real != model:
                    rep.disagree("layout", case, real, model[:300])
                continue
            # ---- layout on the real code
            user_state = attrlib.state([d])
            try:
                graph, keys, pos, edges = real_layout(d)
            except AssertionError:
                raise
            except Exception as exc:
                real = "err " + err_class(exc)
                rep.count("result:" + real)
                rep.case(line, False)
                if real != model:
                    rep.disagree("layout", case, real, model[:300])
                if kind != "raw":
                    rep.fail("diagram2nx_raises", case, repr(exc))
                continue
            unchanged("diagram2nx", user_state, d, case)
            scans, want_nodes, want_edges = wiring(d)
            real = canon(pos, edges, scans)
            rep.count("result:ok")
            if real != model:
                rep.disagree("layout", case, real[:3000], model[:3000])
            # ---- distribution
            n = len(d.boxes)
            rep.count("boxes:%s" % (n if n < 8 else "8-15" if n < 16 else "16+"))
            rep.count("maxwidth:%s" % min(max(widths(d)), 9))
            for b in d.boxes:
                m, c = len(b.dom), len(b.cod)
                rep.count("arity:%s" % ("scalar" if m == c == 0 else "state" if m == 0 else
                                        "effect" if c == 0 else "m=c" if m == c else "m!=c"))
            moved = any(pos[("input", 0, i)][0] != i for i in range(len(d.dom)))
            fine = any(pos[("box", k, 0)][0].denominator > 2 for k in range(n))
            if moved:
                rep.count("make_space_moved_earlier_nodes")
            if fine:
                rep.count("box_at_non_half_integer")
            den = max([p[0].denominator for p in pos.values()] or [1])
            rep.extra["max_x_denominator"] = max(rep.extra.get("max_x_denominator", 1), den)
            rep.case(line, n >= 2 and (moved or fine))
            rep.sample(dict(family=fam, diagram=str(d)[:300], offsets=list(d.offsets),
                            answer=real[:400]))
            # ---- the property's predicate on the real graph
            for sig, text in oracle(d, keys, pos, edges):
                rep.fail(sig, dict(case, diagram=repr(d)[:1500]), text)
            # ---- nx2diagram inverse
            if kind != "raw" and idx % 3 == 0:
                nx_jobs.append(("nxgraph", case, "nxgraph " + tok_expr(e),
                                "ok " + dzlib.graph_tokens(graph, attr="data", pool=d.boxes)))
            try:
                raw = nx2diagram(graph, F.m.Ty, F.m.Id)
                raw_ok = raw == d
                raw_ser = "ok " + dzlib.ser_diagram_like(raw, d.boxes)
            except Exception as exc:
                raw_ok = False
                raw_ser = "err " + err_class(exc)
            if kind != "raw":
                nx_jobs.append(("nx2d", case, "nx2d %s %d" % (tok_expr(e), 0), raw_ser))
            rep.count("nx2diagram_raw:" + ("eq" if raw_ok else "needs_offset_attr"))
            needs = any(len(b.dom) == 0 and o != 0 for b, o in zip(d.boxes, d.offsets))
            if not raw_ok and not needs:
                rep.fail("nx2diagram_not_inverse", case, "nx2diagram(diagram2nx(d)) != d")
            for node in graph.nodes:
                if node.kind == "box" and not len(node.box.dom):
                    node.offset = d.offsets[node.depth]
            try:
                back = nx2diagram(graph, F.m.Ty, F.m.Id)
                back_ser = "ok " + dzlib.ser_diagram_like(back, d.boxes)
                if back != d:
                    rep.fail("nx2diagram_not_inverse", case, "got %s" % str(back)[:300])
            except Exception as exc:
                back_ser = "err " + err_class(exc)
                rep.fail("nx2diagram_not_inverse", case, repr(exc))
            rep.count("nx2diagram_checked")
            if kind != "raw":
                sup = [o if not len(b.dom) else "A" for b, o in zip(d.boxes, d.offsets)]
                nx_jobs.append(("nx2d", case, "nx2d %s %s" % (
                    tok_expr(e), " ".join([str(len(sup))] + [dzlib.tok_attr(a) for a in sup])),
                    back_ser))
                sub2 = random.Random(seed * 1000003 + idx)
                if sub2.random() < 0.2:
                    # random attributes (None, out of range, on boxes with inputs too)
                    w = max(widths(d))
                    att = [sub2.choice(["A", "N", sub2.randint(-w - 2, w + 2), o])
                           for o in d.offsets]
                    g2, _ = diagram2nx(d)
                    dzlib.set_attrs(g2, att)
                    nx_jobs.append(("nx2d", case, "nx2d %s %s" % (
                        tok_expr(e), " ".join([str(len(att))] + [dzlib.tok_attr(a) for a in att])),
                        dzlib.real_nx2diagram(F, g2, d.boxes)[0]))
                    rep.count("nx2d:random_attrs")
                if sub2.random() < 0.2:
                    g3, _ = diagram2nx(d)
                    dzlib.set_attrs(g3, sup)
                    mk_ = sub2.choice(dzlib.GRAPH_MUTATIONS)
                    if dzlib.mutate_graph(sub2, g3, mk_):
                        toks = dzlib.graph_tokens(g3, attr="live", pool=d.boxes)
                        nx_jobs.append(("nxg", dict(case, mutation=mk_), "nxg " + toks,
                                        dzlib.real_nx2diagram(F, g3, d.boxes)[0]))
                        rep.count("nxg:" + mk_)
            # ---- diagramize on the planar body describing d
            try:
                got = diagramize(d.dom, d.cod, list(d.boxes), id_factory=F.m.Id)(body_of(d))
                if got != d:
                    rep.fail("diagramize_wrong_wiring", case, "got %s" % str(got)[:300])
            except Exception as exc:
                rep.fail("diagramize_raises", case, repr(exc))
            rep.count("diagramize_checked")
            # ---- back-ends
            if len(d.dom) + len(d.boxes) == 0:
                rep.count("render:skipped_empty_diagram")
                continue
            try:
                path = os.path.join(tmpdir, "d%d.tikz" % idx)
                d.draw(to_tikz=True, path=path, use_tikzstyles=bool(idx % 3 == 0),
                       draw_type_labels=bool(idx % 2))
                text = open(path).read()
                if "\\begin{tikzpicture}" not in text or "\\end{tikzpicture}" not in text:
                    rep.fail("tikz_output_malformed", case, text[:200])
                rendered_tikz += 1
                for f in os.listdir(tmpdir):
                    os.remove(os.path.join(tmpdir, f))
            except Exception as exc:
                rep.fail("tikz_backend_raises", dict(case, diagram=repr(d)[:1500]), repr(exc))
            unchanged("tikz_backend", user_state, d, case)
            try:
                if n_png is None or rendered_png < n_png:
                    path = os.path.join(tmpdir, "d%d.png" % idx)
                    d.draw(path=path, show=False, draw_type_labels=bool(idx % 2))
                    if os.path.getsize(path) == 0:
                        rep.fail("matplotlib_output_empty", case, path)
                    os.remove(path)
                    rendered_png += 1
                else:
                    d.draw(show=False)      # all artists built, no rasterisation
                    rep.count("render:matplotlib_artists_only")
            except Exception as exc:
                rep.fail("matplotlib_backend_raises", dict(case, diagram=repr(d)[:1500]), repr(exc))
            finally:
                plt.close("all")
            unchanged("matplotlib_backend", user_state, d, case)
        phase("layout_nx_render")
        # ---------------- bubbles (oracle only: the bubble branches of add_box are not modelled)
        n_bub = 140 if not thorough else 900
        n_bub_png = 25 if not thorough else 450
        Fm = fams["monoidal"]
        for k in range(n_bub):
            sub = random.Random(rng.getrandbits(64))
            g = Gen(sub, rigid=False, maxw=5)
            mode, d = bubblelib.gen(sub, g, Fm)
            case = dict(stream="bubble", mode=mode, diagram=repr(d)[:1500])
            rep.count("bubble:" + mode)
            try:
                fails, phantoms = bubblelib.failures(d, wiring, node_key, sort_key, exact)
            except Exception as exc:
                fails, phantoms = [("bubble_diagram2nx_raises", repr(exc))], []
            for sig_, text in fails:
                rep.fail(sig_, case, text)
            known = any(sig_ == bubblelib.F34 for sig_, _ in fails)
            rep.case("bubble " + repr(d), False)
            for backend in ("tikz", "matplotlib"):
                user_state = attrlib.state([d])
                try:
                    if backend == "tikz":
                        path = os.path.join(tmpdir, "b%d.tikz" % k)
                        d.draw(to_tikz=True, path=path)
                        text = open(path).read()
                        if "\\begin{tikzpicture}" not in text:
                            rep.fail("tikz_output_malformed", case, text[:200])
                    elif k < n_bub_png:
                        path = os.path.join(tmpdir, "b%d.png" % k)
                        d.draw(path=path, show=False)
                        if os.path.getsize(path) == 0:
                            rep.fail("matplotlib_output_empty", case, path)
                    else:
                        path = None
                        d.draw(show=False)      # all artists built, no rasterisation
                    if path:
                        os.remove(path)
                    rep.count("bubble_render:" + backend)
                except Exception as exc:
                    # the phantom port of finding F34 has no coordinates: both back-ends raise KeyError
                    f34 = known and isinstance(exc, KeyError)
                    rep.fail(bubblelib.F34 if f34 else "bubble_%s_backend_raises" % backend,
                             case, repr(exc)[:300])
                finally:
                    plt.close("all")
                unchanged("bubble_%s_backend" % backend, user_state, d, case)
        phase("bubbles")
        # its own generator, derived from the seed: the other streams keep their cases
        attr_stream(rep, random.Random((seed << 8) ^ 0xA77), thorough, tmpdir, plt)
        phase("drawing_attributes")
        history_stream(rep, random.Random((seed << 8) ^ 0x4157), thorough, tmpdir, plt)
        phase("drawing_histories")
    finally:
        shutil.rmtree(tmpdir, ignore_errors=True)
    rep.count("render:tikz_files", rendered_tikz)
    rep.count("render:matplotlib_png", rendered_png)

    # ---------------- diagramize: function bodies as data
    n_dz = 600 if not thorough else 5000
    dz_cases = []
    for k in range(n_dz):
        sub = random.Random(rng.getrandbits(64))
        fam = "rigid" if k % 4 == 3 else "monoidal"
        maxw = sub.choice([3, 5, 6, 8])
        g = Gen(sub, rigid=(fam == "rigid"), maxw=maxw)
        depth = sub.choice([0, 1, 2, 3, 4, 5, 6, 8] + ([12] if thorough else []))
        dom = g.ty(0, min(maxw, 5))
        mode = sub.choice(["core", "uniform", "merge", "wide"]) if fam == "monoidal" else "core"
        e = g.diagram(dom=dom, depth=depth)[0] if mode == "core" else grow_shape(g, dom, depth, maxw, mode)
        c = dzlib.make_case(sub, g, e, malformed=(k % 8 == 7))
        c["group"] = None
        dz_cases.append((fam, c))
        if k % 5 == 0:
            # several functions declared with ONE signature object
            more, sig = dzlib.variants(sub, g, c)
            for c2 in [c] + more:
                c2["sig"], c2["group"] = sig, k
            dz_cases += [(fam, c2) for c2 in more]
    for fam, c in dzlib.fixed_cases():
        c["group"] = None
        dz_cases.append((fam, c))
    dz_lines = [dzlib.tok_dz(c["sig"], c["has_id"], c["dom"], c["cod"], c["calls"], c["ret"])
                for _, c in dz_cases]
    drv = Driver()
    try:
        dz_answers = drv.ask_many(dz_lines)
        nx_answers = drv.ask_many([j[2] for j in nx_jobs])
    finally:
        drv.close()
    sessions = {}
    for (fam, c), line, model in zip(dz_cases, dz_lines, dz_answers):
        F = fams[fam]
        case = dict(family=fam, line=line[:2500], mutation=c["mutation"],
                    shared_signature=c["group"] is not None)
        offs = dzlib.py_planar(c)
        if c["group"] is None:
            ses = dzlib.Session(F, c["sig"], c["has_id"], c["dom"], c["cod"])
        else:
            if c["group"] not in sessions:
                sessions[c["group"]] = dzlib.Session(F, c["sig"], c["has_id"], c["dom"], c["cod"])
                rep.count("dz:shared_signature_objects")
            else:
                rep.count("dz:declarations_reusing_a_signature")
            ses = sessions[c["group"]]
        real_res, d, log = ses.declare(c["calls"], c["ret"], c["ret_style"])
        real = dzlib.tok_planar(offs) + " " + real_res
        if real != model:
            rep.disagree("diagramize", case, real[:3000], model[:3000])
        rep.count("dz:" + ("planar" if offs is not None else "not_planar"))
        rep.count("dz_mutation:%s" % (c["mutation"] if not str(c["mutation"]).startswith("fixed:")
                                      else "fixed"))
        rep.count("dz_result:" + (real_res[:2] if d is not None else real_res))
        # apply returns the fresh wires the model assumes: Node("cod", obj, i, depth = call number)
        for k, outs in enumerate(log[1:]):
            if outs != dzlib.outs_of(c["calls"][k][0], k):
                rep.disagree("diagramize", case, "call %d returned %r" % (k, outs),
                             "%r" % (dzlib.outs_of(c["calls"][k][0], k),))
        if log and log[0] != dzlib.inputs_of(c["dom"]):
            rep.disagree("diagramize", case, "parameters %r" % (log[0],), "inputs of dom")
        n = len(c["calls"])
        rep.case("dz " + line, offs is not None and n >= 2 and any(o > 0 for o in offs))
        # ---- the property's last clause, on the real result
        if offs is not None and (c["sig"] or c["has_id"]):
            if d is None:
                rep.fail("diagramize_raises", case, real_res)
            else:
                for sig_, text in dzlib.wiring_failures(F, c, d):
                    rep.fail(sig_, case, text)
            rep.count("dz_oracle_checked")
        if offs is not None:
            rep.sample(dict(stream="diagramize", family=fam, offsets=offs, answer=real[:300]), cap=6)
    for (stream, case, line, real), model in zip(nx_jobs, nx_answers):
        rep.count("stream:" + stream)
        rep.case(stream + " " + line, False)
        if real != model:
            rep.disagree(stream, dict(case, line=line[:2500]), real[:3000], model[:3000])
    phase("diagramize_nx_streams")
    return rep.finish()
