"""C08 — tensors form a dagger compact-closed category of matrices.

Four streams:
* `numpy-prims`  the model's numpy primitives (identity, conj, reshape, transpose, moveaxis,
                 tensordot with an int / with axis lists) against numpy itself, exact;
* `tensor-ops`   random tensor expressions (T, id, swap, cups, caps, spider, zeros, >>, @, +,
                 dagger, transpose, conjugate) through discopy's `Tensor` against `teval`, exact,
                 including the error classes;
* `tensor-conv`  CALLING CONVENTIONS: n-ary `recv.then(*args)` / `recv.tensor(*args)` with 0-4
                 arguments (Tensors, `Sum`s of both classes with 0-3 terms, rarely a tensor.Box /
                 None / an int; ~8% not composable), each made in every equivalent way (bound
                 method, unbound `Tensor.then(f, ...)`, iterated binary method, operator chain
                 `f >> g >> h` / `f @ g @ h`, right-nested `h << g << f` / `f @ (g @ h)`): every
                 result against the model (`thenArgs` / `tensorArgs` of Model/TensorNary.lean,
                 Sum results term by term with their class) AND against the property: the matrix
                 of the result (a Sum read as the sum of its terms) is the matrix product / the
                 Kronecker product of the operands' matrices, computed in exact int64 Gaussian
                 integer arithmetic (tensorconv.GMat) from the operands the real code produced;
* the oracle     the property statement itself, evaluated with independent numpy code (matrix
                 product, np.kron, conjugate transpose, identity, block-permutation matrix,
                 snake equations, interchange law, swap naturality) on the real-code results.
                 It never consults the model.
"""
import hashlib
import os
import random

# the matrices here are tiny: BLAS worker threads only cost time (and oversubscribe the machine)
os.environ.setdefault("OPENBLAS_NUM_THREADS", "1")
os.environ.setdefault("OMP_NUM_THREADS", "1")

import numpy as np  # noqa: E402

from common import Report, lean_obligations
import tensorlib as tl
import tensorconv as tc
from tensorlib import eff, size, exact_eq

PROP = "C08"


# ------------------------------------------------------------------ correspondence streams

def prim_shape(line):
    """Shape of the first array argument of an `nd.*` request line ([] for nd.identity)."""
    toks = line.split()
    if toks[0] == "nd.identity":
        return [int(toks[1])] * 2
    n = int(toks[1])
    return [int(x) for x in toks[2:2 + n]]


def run_prims(rep, drv, rng, n_cases, maxdim, maxaxes, big=60000):
    cases = []
    for _ in range(n_cases):
        sub = random.Random(rng.getrandbits(64))
        cases.append(tl.prim_case(sub, maxdim=maxdim, maxaxes=maxaxes, malformed=0.1))
    # numpy first: a request whose result is huge is dropped (the compiled model needs about
    # 1 us per multiply-add); everything else goes to the model
    kept = []
    for op, line, thunk in cases:
        try:
            out = thunk()
            if np.asarray(out).size > big:
                rep.count("prims.skipped:too_big")
                continue
            real = tl.canon_arr(out)
        except tl.Inexact:
            rep.count("prims.skipped:inexact")
            continue
        except Exception:       # numpy raises ValueError/AxisError/IndexError: one class
            real = "err value"
        kept.append((op, line, real))
    answers = drv.ask_many([c[1] for c in kept])
    for (op, line, real), model in zip(kept, answers):
        shape = prim_shape(line)
        rep.count("prims.op:" + op)
        rep.count("prims.result:" + (real if real.startswith("err") else "ok"))
        rep.count("prims.axes:%d" % len(shape))
        ok = real.startswith("ok")
        rep.case("P " + line, ok and op != "identity" and len(shape) >= 2 and max(shape) >= 2)
        if real != model:
            rep.disagree("numpy-prims", dict(op=op, line=line[:2000]), real[:2000], model[:2000])


def run_tensor_ops(rep, drv, rng, n_cases, maxdim, maxwires, maxdepth, work, peak):
    cases = []
    for _ in range(n_cases):
        sub = random.Random(rng.getrandbits(64))
        gen = tl.TGen(sub, maxdim=maxdim, maxwires=maxwires)
        (e, _dom, _cod, bound), rejected = tl.bounded_texpr(
            gen, sub.randint(0, maxdepth), work=work, peak=peak)
        rep.count("tensor-ops.regenerated_for_cost", rejected)
        if bound >= tl.EXACT_LIMIT:
            rep.count("tensor-ops.skipped:inexact")
            continue
        cases.append(e)
    lines = ["teval " + tl.tok_texpr(e) for e in cases]
    answers = drv.ask_many(lines)
    tl.FORM_COUNTS.clear()
    for e, line, model in zip(cases, lines, answers):
        value = [None]

        def thunk():
            value[0] = tl.run_texpr(e)
            return value[0]
        try:
            real = tl.real_line(thunk, tl.canon_tensor)
        except tl.Inexact:
            rep.count("tensor-ops.skipped:inexact")
            continue
        ops = tl.texpr_ops(e)
        for o in set(ops):
            rep.count("tensor-ops.op:" + o)
        rep.count("tensor-ops.result:" + (real if real.startswith("err") else "ok"))
        rep.count("tensor-ops.size:%s" % (len(ops) if len(ops) < 8 else "8+"))
        nontrivial = False
        t = value[0]
        if t is not None:
            dims = tl.dims_of(t.dom) + tl.dims_of(t.cod)
            rep.count("tensor-ops.wires:%s" % (len(dims) if len(dims) < 8 else "8+"))
            nontrivial = len(dims) >= 2 and any(o not in ("T", "id") for o in ops)
            # the shape clause of the property on every value the real code returned
            want = tuple(dims) or (1,)
            if tuple(np.asarray(t.array).shape) != want:
                rep.fail("c08:shape:" + ops[0], dict(expr=repr(e)[:1500]),
                         "array.shape %r, expected %r" % (np.asarray(t.array).shape, want))
        rep.case("T " + line, nontrivial)
        rep.sample(dict(stream="tensor-ops", request=line[:300], answer=real[:200]))
        if real != model:
            rep.disagree("tensor-ops", dict(expr=repr(e)[:3000], line=line[:3000]),
                         real[:3000], model[:3000])
    for form, n in sorted(tl.FORM_COUNTS.items()):
        rep.count("tensor-ops.leaf_array_form:" + form, n)



# ------------------------------------------------------------------ calling conventions

def expected_matrix(op, mats):
    """The property: (dom, cod, matrix) of the n-ary composite of operands with the given
    (dom, cod, GMat); None when the operands do not compose."""
    dom, cod, m = mats[0]
    for d, c, x in mats[1:]:
        if op == "then":
            if cod != d:
                return None
            cod, m = c, m.matmul(x)
        else:
            dom, cod, m = dom + d, cod + c, m.kron(x)
    return dom, cod, m


def check_value(v, want):
    """None if the value the real code returned has the expected type, shape and matrix."""
    from discopy.tensor import Tensor
    dom, cod, m = want
    got = tc.value_matrix(v)
    if got is None:
        return "returned %s" % type(v).__name__
    if got[0] != dom or got[1] != cod:
        return "dom/cod %r -> %r, expected %r -> %r" % (got[0], got[1], dom, cod)
    if isinstance(v, Tensor):
        shape = tuple(dom + cod) or (1,)
        if tuple(np.asarray(v.array).shape) != shape:
            return "array.shape %r, expected %r" % (np.asarray(v.array).shape, shape)
    return got[2].diff(m)


def run_conv(rep, drv, rng, n_cases, maxdim, work, peak):
    from discopy.tensor import Tensor
    from discopy import cat
    cases = []
    for _ in range(n_cases):
        sub = random.Random(rng.getrandbits(64))
        gen = tc.CGen(sub, maxdim=maxdim)
        e, rejected = tc.bounded_case(gen, work=work, peak=peak)
        rep.count("conv.regenerated_for_cost", rejected)
        cases.append(e)
    jobs = [[(name, x, "teval " + tl.tok_texpr(x)) for name, x in tc.conventions(e)]
            for e in cases]
    lines = sorted({line for job in jobs for _, _, line in job})
    answers = dict(zip(lines, drv.ask_many(lines)))
    for e, job in zip(cases, jobs):
        op, operands = e[0][:-1], [e[1]] + list(e[2])
        law = "then_is_matmul" if op == "then" else "tensor_is_kron"
        rep.count("conv.op:" + op)
        rep.count("conv.nargs:%d" % len(e[2]))
        kinds = [x[0] if x[0] in ("sum", "box", "none", "int") else "tensor" for x in operands]
        rep.count("conv.receiver:" + kinds[0])
        for k in kinds[1:]:
            rep.count("conv.argument:" + k)
        for x in operands:
            if x[0] == "sum":
                rep.count("conv.sum_class:" + x[1])
                rep.count("conv.sum_terms:%d" % len(x[5]))
        for o in set(tl.texpr_ops(e)):
            rep.count("conv.inside:" + o)
        # the operands as the real code builds them, and the property's prediction
        want, all_tensors, skipped = None, False, False
        try:
            vals = [tl.run_texpr(x) for x in operands]
        except Exception:
            vals = None
            rep.count("conv.operand_raises")
        if vals is not None:
            all_tensors = all(isinstance(v, Tensor) for v in vals)
            try:
                mats = [tc.value_matrix(v) for v in vals]
                if all(m is not None for m in mats):
                    want = expected_matrix(op, mats)
            except tl.Inexact:
                skipped = True
                rep.count("conv.skipped:inexact")
        if want is None and vals is not None and not skipped:
            rep.count("conv.no_prediction:" + (
                "non-tensor-operand" if any(k in ("box", "none", "int") for k in kinds)
                else "not-composable"))
        for name, x, line in job:
            value = [None]

            def thunk():
                value[0] = tl.run_texpr(x)
                return value[0]
            try:
                real = tl.real_line(thunk, tl.canon_val)
            except tl.Inexact:
                rep.count("conv.skipped:inexact")
                continue
            model = answers[line]
            rep.count("conv.convention:" + name)
            rep.count("conv.result:" + (real if real.startswith("err") else
                                        "sum" if real.startswith("ok sum") else "tensor"))
            case = dict(convention=name, expr=repr(x)[:3000], line=line[:3000])
            v = value[0]
            wires = 0
            if v is not None and hasattr(v, "dom"):
                wires = len(tl.dims_of(v.dom)) + len(tl.dims_of(v.cod))
            rep.case("C %s %s" % (name, line), len(e[2]) >= 2 and wires >= 2)
            rep.sample(dict(stream="tensor-conv", convention=name, request=line[:300],
                            answer=real[:200]))
            if real != model:
                rep.disagree("tensor-conv", case, real[:3000], model[:3000])
            if want is None:
                continue
            rep.count("oracle.law:%s:%s" % (law, name))
            if real.startswith("err"):
                # Tensors that compose must compose in every convention; what a Sum of a
                # class the code refuses does is not the property's business
                if all_tensors:
                    rep.fail("c08:%s:%s:raises" % (law, name), case,
                             "raised (%s) on composable tensors" % real)
                continue
            try:
                why = check_value(v, want)
            except tl.Inexact:
                rep.count("conv.skipped:inexact")
                continue
            if why:
                rep.fail("c08:%s:%s" % (law, name), case, why)
            if isinstance(v, cat.Sum):
                rep.count("oracle.sum_results")

# ------------------------------------------------------------------ the oracle

class Law:
    """Checks of one oracle case; a law that raises on valid input is a failure too."""

    def __init__(self, rep, case):
        self.rep, self.case = rep, case

    def check(self, name, thunk):
        self.rep.count("oracle.law:" + name)
        try:
            why = thunk()
        except tl.Inexact:
            self.rep.count("oracle.skipped:inexact")
            return
        except Exception as exc:       # noqa: valid input, so an exception violates the law
            why = "raised %r" % (exc,)
            name = name + ":raises"
        if why:
            self.rep.fail("c08:" + name, self.case, why)


def matrix(t, dom, cod):
    """The matrix of a real Tensor w.r.t. the EXPECTED (dom, cod); independent of t.dom/t.cod."""
    a = np.asarray(t.array)
    if tl.absbound(a) >= tl.EXACT_LIMIT:
        raise tl.Inexact()
    return a.reshape(size(dom), size(cod))


def is_tensor(t, dom, cod, m):
    """None if `t` has the expected types, shape and matrix, else a description."""
    dom, cod = eff(dom), eff(cod)
    if tl.dims_of(t.dom) != dom or tl.dims_of(t.cod) != cod:
        return "dom/cod %r -> %r, expected %r -> %r" % (t.dom, t.cod, dom, cod)
    want = tuple(dom + cod) or (1,)
    if tuple(np.asarray(t.array).shape) != want:
        return "array.shape %r, expected %r" % (np.asarray(t.array).shape, want)
    if tl.absbound(m) >= tl.EXACT_LIMIT:
        raise tl.Inexact()
    got = matrix(t, dom, cod)
    if not exact_eq(got, m):
        bad = np.argwhere(got != m)
        return "matrix differs at %d of %d entries, first at %r: got %r, expected %r" % (
            len(bad), got.size, tuple(bad[0]), got[tuple(bad[0])], m[tuple(bad[0])])
    return None


def same_tensor(x, y):
    """Equality of two real Tensors, entry by entry (not through Tensor.__eq__)."""
    if tl.dims_of(x.dom) != tl.dims_of(y.dom) or tl.dims_of(x.cod) != tl.dims_of(y.cod):
        return "types differ: %r -> %r vs %r -> %r" % (x.dom, x.cod, y.dom, y.cod)
    a, b = np.asarray(x.array), np.asarray(y.array)
    if max(tl.absbound(a), tl.absbound(b)) >= tl.EXACT_LIMIT:
        raise tl.Inexact()
    if not exact_eq(a, b):
        return "arrays differ (shapes %r, %r; %d entries differ)" % (
            a.shape, b.shape, int(np.sum(a != b)) if a.shape == b.shape else -1)
    return None


def shrink(dims_list, cap):
    """Drop trailing wires of the largest type until the product of sizes fits."""
    while np.prod([size(d) for d in dims_list], dtype=float) > cap:
        big = max(dims_list, key=size)
        big.pop()
    return dims_list


def oracle_case(rep, rng, subseed, maxdim, maxwires, cap, snake_cap):
    from discopy.tensor import Tensor, Dim
    a, b, c, d, e, k, h1, h2 = [tl.rand_dims(rng, maxdim, 0, maxwires) for _ in range(8)]
    shrink([a, d], cap), shrink([b, e], cap), shrink([c, k], cap)
    shrink([a, d, h1], cap), shrink([b, e, h2], cap)
    D = lambda x: Dim(*x)  # noqa: E731

    def rand_t(dom, cod):
        """A real Tensor and, independently of it, the matrix of the same entries."""
        data = tl.rand_entries(rng, size(dom) * size(cod))
        form = rng.choice(tl.ARRAY_FORMS)       # container, shape and memory layout of the argument
        rep.count("oracle.array_form:" + form)
        return (Tensor(D(dom), D(cod), tl.array_in_form(dom, cod, data, form)),
                np.array(data, dtype=complex).reshape(size(dom), size(cod)))
    (f, mf), (f2, mf2) = rand_t(a, b), rand_t(b, c)
    (g, mg), (g2, mg2) = rand_t(d, e), rand_t(e, k)
    h, mh = rand_t(h1, h2)
    snake = list(a if rng.random() < 0.5 else d)
    if rng.random() < 0.3:
        snake = tl.rand_dims(rng, maxdim, 1, maxwires + 1)
    while size(snake) > snake_cap:
        snake.pop()
    case = dict(subseed=subseed, a=a, b=b, c=c, d=d, e=e, k=k, h=[h1, h2], snake=snake)
    law = Law(rep, case)
    for x in (a, b, c, d, e, k):
        rep.count("oracle.wires_per_side:%d" % len(eff(x)))
        for v in x:
            rep.count("oracle.dim:%d" % v)
    rep.count("oracle.snake_wires:%d" % len(eff(snake)))
    if len(set(eff(a + b))) > 1:
        rep.count("oracle.unequal_dims")
    if len(eff(a + b)) > len(set(eff(a + b))):
        rep.count("oracle.repeated_dims")

    # the clauses of the statement
    law.check("constructor", lambda: is_tensor(f, a, b, mf))
    law.check("then_is_matmul", lambda: is_tensor(f >> f2, a, c, mf @ mf2))
    law.check("then_is_matmul", lambda: is_tensor(g >> g2, d, k, mg @ mg2))
    law.check("tensor_is_kron", lambda: is_tensor(f @ g, a + d, b + e, np.kron(mf, mg)))
    law.check("tensor_is_kron", lambda: is_tensor(g @ f, d + a, e + b, np.kron(mg, mf)))
    law.check("dagger_is_conj_transpose", lambda: is_tensor(f.dagger(), b, a, mf.conj().T))
    law.check("dagger_is_conj_transpose", lambda: is_tensor(g2.dagger(), k, e, mg2.conj().T))
    law.check("id_is_identity", lambda: is_tensor(Tensor.id(D(a)), a, a, np.identity(size(a))))
    law.check("id_is_identity",
              lambda: is_tensor(Tensor.id(D(b + e)), b + e, b + e, np.identity(size(b + e))))
    law.check("swap_is_block_permutation",
              lambda: is_tensor(Tensor.swap(D(a), D(d)), a + d, d + a,
                                tl.perm_matrix_swap(a, d)))
    law.check("swap_is_block_permutation",
              lambda: is_tensor(Tensor.swap(D(b), D(e)), b + e, e + b,
                                tl.perm_matrix_swap(b, e)))

    # snake equations, Dim.r = Dim.l = reversal (tensor.py:72-84)
    l = D(snake)
    n = size(snake)

    def snake_a():
        lhs = (Tensor.caps(l, l.r) @ Tensor.id(l)) >> (Tensor.id(l) @ Tensor.cups(l.r, l))
        return is_tensor(lhs, snake, snake, np.identity(n))

    def snake_b():
        lhs = (Tensor.id(l) @ Tensor.caps(l.r, l)) >> (Tensor.cups(l, l.r) @ Tensor.id(l))
        return is_tensor(lhs, snake, snake, np.identity(n))

    def cups_types():
        cu, ca = Tensor.cups(l, l.r), Tensor.caps(l, l.r)
        both = eff(snake) + list(reversed(eff(snake)))
        if tl.dims_of(cu.dom) != both or tl.dims_of(cu.cod) != [] \
                or tl.dims_of(ca.cod) != both or tl.dims_of(ca.dom) != []:
            return "cups/caps typed %r -> %r / %r -> %r" % (cu.dom, cu.cod, ca.dom, ca.cod)
        if tuple(np.asarray(cu.array).shape) != (tuple(both) or (1,)) \
                or tuple(np.asarray(ca.array).shape) != (tuple(both) or (1,)):
            return "cups/caps array shape"
        return None
    law.check("snake_caps_left", snake_a)
    law.check("snake_caps_right", snake_b)
    law.check("cups_caps_types", cups_types)

    # consequences, as equalities of tensors
    law.check("interchange_law",
              lambda: same_tensor((f >> f2) @ (g >> g2), (f @ g) >> (f2 @ g2)))
    law.check("interchange_law", lambda: is_tensor(
        (f @ g) >> (f2 @ g2), a + d, c + k, np.kron(mf @ mf2, mg @ mg2)))
    # the same block permutation when the swap is a box of a rigid diagram and the tensor functor
    # sends its two wires to types with DIFFERENT numbers of wires (none for Dim(1), several), with
    # boxes before and after it (tensor.Functor's swap branch moves axes, it does not call Tensor.swap)
    def functor_swap():
        from discopy import rigid, tensor
        x, y, x2, y2 = rigid.Ty("x"), rigid.Ty("y"), rigid.Ty("x2"), rigid.Ty("y2")
        fb, gb = rigid.Box("f", x, x2), rigid.Box("g", y, y2)
        F = tensor.Functor({x: D(a), y: D(d), x2: D(b), y2: D(e)}, {fb: f.array, gb: g.array})
        rep.count("oracle.functor_swap:wires_%d_vs_%d" % (min(len(eff(b)), 3), min(len(eff(e)), 3)))
        return (is_tensor(F(rigid.Diagram.swap(x, y)), a + d, d + a, tl.perm_matrix_swap(a, d))
                or is_tensor(F(fb @ gb >> rigid.Diagram.swap(x2, y2)), a + d, e + b,
                             np.kron(mf, mg) @ tl.perm_matrix_swap(b, e))
                or is_tensor(F(rigid.Diagram.swap(x, y) >> gb @ fb), a + d, e + b,
                             tl.perm_matrix_swap(a, d) @ np.kron(mg, mf))
                or is_tensor(F(rigid.Diagram.swap(x, y) >> rigid.Id(y) @ fb), a + d, d + b,
                             tl.perm_matrix_swap(a, d) @ np.kron(np.eye(size(d)), mf)))
    if size(a) * size(d) * size(b) * size(e) <= 4096:
        law.check("swap_is_block_permutation:tensor_functor", functor_swap)
    law.check("swap_natural", lambda: same_tensor(
        (f @ g) >> Tensor.swap(f.cod, g.cod), Tensor.swap(f.dom, g.dom) >> (g @ f)))
    law.check("swap_natural_three", lambda: same_tensor(
        (f @ g @ h) >> Tensor.swap(f.cod @ g.cod, h.cod),
        Tensor.swap(f.dom @ g.dom, h.dom) >> (h @ f @ g)))
    law.check("swap_involutive", lambda: is_tensor(
        Tensor.swap(D(a), D(d)) >> Tensor.swap(D(d), D(a)), a + d, a + d,
        np.identity(size(a + d))))
    law.check("dagger_then",
              lambda: same_tensor((f >> f2).dagger(), f2.dagger() >> f.dagger()))
    law.check("dagger_tensor",
              lambda: same_tensor((f @ g).dagger(), f.dagger() @ g.dagger()))
    law.check("dagger_involutive", lambda: same_tensor(f.dagger().dagger(), f))
    # ELEMENT TYPES (round 8): the same laws on arrays whose entries are Python / sympy OBJECTS
    # (object dtype: numpy.iscomplexobj is False there, conjugation goes through each entry's own
    # .conjugate()), on small integer and float dtypes, and on complex64
    style = rng.choice(["object:python", "object:sympy", "object:fraction_complex", "int32", "float32",
                        "complex64", "object:python_in_list"])
    rep.count("oracle.element_type:" + style)

    def typed_t(dom, cod, m):
        flat = [complex(z) for z in m.reshape(-1)]
        py = [int(z.real) if z.imag == 0 else complex(z) for z in flat]
        if style == "object:python":
            arr = np.empty(len(py), dtype=object)
            arr[:] = py
        elif style == "object:python_in_list":
            arr = list(py)
        elif style == "object:sympy":
            import sympy
            arr = np.empty(len(py), dtype=object)
            arr[:] = [sympy.Integer(int(z.real)) + sympy.I * sympy.Integer(int(z.imag)) for z in flat]
        elif style == "object:fraction_complex":
            from fractions import Fraction
            arr = np.empty(len(py), dtype=object)
            arr[:] = [Fraction(int(z.real)) if z.imag == 0 else complex(z) for z in flat]
        elif style in ("int32", "float32"):
            arr = np.array([z.real for z in flat]).astype(style)
            m = np.array([z.real for z in flat], dtype=complex).reshape(m.shape)
        else:
            arr = np.array(flat).astype(style)
        return Tensor(D(dom), D(cod), arr), m

    def as_matrix(t, dom, cod):
        a_ = np.asarray(t.array)
        if tuple(a_.shape) != (tuple(eff(dom) + eff(cod)) or (1,)):
            return None
        def num(z):                     # sympy keeps products unexpanded: expand before reading it
            return complex(z.expand()) if hasattr(z, "expand") else complex(z)
        return np.array([num(z) for z in a_.reshape(-1)], dtype=complex).reshape(size(dom), size(cod))

    def typed_is(t, dom, cod, want):
        if tl.dims_of(t.dom) != eff(dom) or tl.dims_of(t.cod) != eff(cod):
            return "dom/cod %r -> %r, expected %r -> %r" % (t.dom, t.cod, eff(dom), eff(cod))
        got = as_matrix(t, dom, cod)
        if got is None:
            return "array.shape %r" % (np.asarray(t.array).shape,)
        if not np.array_equal(got, want):
            bad = np.argwhere(got != want)
            return "element type %s: matrix differs at %d of %d entries, first at %r: got %r, expected %r" % (
                style, len(bad), got.size, tuple(bad[0]), got[tuple(bad[0])], want[tuple(bad[0])])
        return None
    if size(a) * size(b) and size(b) * size(c):
        (tf, tmf), (tf2, tmf2) = typed_t(a, b, mf), typed_t(b, c, mf2)
        law.check("element_type:dagger_is_conj_transpose", lambda: typed_is(tf.dagger(), b, a, tmf.conj().T))
        law.check("element_type:dagger_is_conj_transpose:slice", lambda: typed_is(tf[::-1], b, a, tmf.conj().T))
        law.check("element_type:then_is_matmul", lambda: typed_is(tf >> tf2, a, c, tmf @ tmf2))
        law.check("element_type:then_dagger", lambda: typed_is(tf >> tf.dagger(), a, a, tmf @ tmf.conj().T))
        law.check("element_type:conjugate", lambda: typed_is(tf.conjugate(), a, b, np.conj(tmf)))
        if size(a) * size(b) * size(d) * size(e) <= 4096:
            tg, tmg = typed_t(d, e, mg)
            law.check("element_type:tensor_is_kron", lambda: typed_is(tf @ tg, a + d, b + e, np.kron(tmf, tmg)))
    law.check("unit_laws", lambda: same_tensor(Tensor.id(f.dom) >> f, f)
              or same_tensor(f >> Tensor.id(f.cod), f)
              or same_tensor(Tensor.id(D([])) @ f, f) or same_tensor(f @ Tensor.id(D([1])), f))
    law.check("tensor_associative", lambda: same_tensor((f @ g) @ h, f @ (g @ h))
              or is_tensor(f @ g @ h, a + d + h1, b + e + h2, np.kron(np.kron(mf, mg), mh)))
    law.check("then_associative", lambda: same_tensor(
        (f >> f2) >> f2.dagger(), f >> (f2 >> f2.dagger())))

    # the same clauses through the other calling conventions (n-ary methods with 0-3
    # arguments, unbound calls, `<<`, `[::-1]`, `Tensor.id()`, the Sum fallback)
    from discopy import tensor as dtensor
    kron3 = lambda: np.kron(np.kron(mf, mg), mh)  # noqa: E731
    law.check("then_is_matmul:nary", lambda: is_tensor(f.then(), a, b, mf)
              or is_tensor(f.then(f2), a, c, mf @ mf2)
              or is_tensor(f.then(f2, f2.dagger()), a, b, mf @ mf2 @ mf2.conj().T)
              or is_tensor(Tensor.then(f, f2, f2.dagger(), f2), a, c,
                           mf @ mf2 @ mf2.conj().T @ mf2)
              or is_tensor(f2 << f, a, c, mf @ mf2)
              or is_tensor(g.dagger() << g2.dagger() << g2 << g, d, d,
                           mg @ mg2 @ mg2.conj().T @ mg.conj().T))
    law.check("tensor_is_kron:nary", lambda: is_tensor(f.tensor(), a, b, mf)
              or is_tensor(f.tensor(g), a + d, b + e, np.kron(mf, mg))
              or is_tensor(f.tensor(g, h), a + d + h1, b + e + h2, kron3())
              or is_tensor(Tensor.tensor(f, g, h), a + d + h1, b + e + h2, kron3())
              or is_tensor(h.tensor(f, g), h1 + a + d, h2 + b + e,
                           np.kron(np.kron(mh, mf), mg))
              or same_tensor(f.tensor(g, h), f @ g @ h)
              or same_tensor(f.tensor(g).tensor(h), f.tensor(g, h)))
    law.check("dagger_is_conj_transpose:slice", lambda: is_tensor(f[::-1], b, a, mf.conj().T))
    law.check("id_is_identity:default", lambda: is_tensor(Tensor.id(), [], [], np.identity(1)))

    def scalar_mult():
        z = tl.rand_entries(rng, 1, density=1.0)[0]
        s = Tensor(D([]), D([1]), [z])
        return is_tensor(s @ f, a, b, z * mf) or is_tensor(f.tensor(s), a, b, z * mf) \
            or is_tensor(s.tensor(f, s), a, b, z * z * mf)
    law.check("tensor_is_kron:scalar", scalar_mult)

    def sum_fallback():
        """`f >> (g1 + g2)` and `f @ (g1 + g2)` through the Sum fallback of Tensor.then/tensor:
        the terms are the binary results, so they add up to mf @ (m1 + m2), kron(mf, m1 + m2)."""
        (t1, m1), (t2, m2) = rand_t(b, c), rand_t(b, c)
        S = dtensor.Sum([t1, t2], D(b), D(c))
        calls = [(lambda: f.then(S), a, c, lambda: mf @ (m1 + m2)),
                 (lambda: f >> S, a, c, lambda: mf @ (m1 + m2)),
                 (lambda: f.tensor(S), a + b, b + c, lambda: np.kron(mf, m1 + m2)),
                 (lambda: f.tensor(g, S), a + d + b, b + e + c,
                  lambda: np.kron(np.kron(mf, mg), m1 + m2)),
                 (lambda: S.tensor(g), b + d, c + e, lambda: np.kron(m1 + m2, mg)),
                 (lambda: S.then(f2.dagger(), f2), b, c,
                  lambda: (m1 + m2) @ mf2.conj().T @ mf2)]
        for call, dom, cod, want in rng.sample(calls, 3):
            if size(dom) * size(cod) > 20000:
                rep.count("oracle.skipped:sum_fallback_too_big")
                continue
            r = call()
            total = Tensor.zeros(D(dom), D(cod))
            for t in r.terms:
                total = total + t
            why = is_tensor(total, dom, cod, want())
            if why:
                return why
        return None
    law.check("then_tensor:sum_fallback", sum_fallback)

    # the same object used several times in one call, and the operands after all the calls above
    if size(d) * size(e) <= 12:
        law.check("tensor_is_kron:same_object", lambda: is_tensor(
            g.tensor(g, g), d + d + d, e + e + e, np.kron(np.kron(mg, mg), mg))
            or is_tensor(g.then(g.dagger(), g), d, e, mg @ mg.conj().T @ mg))
    law.check("operands_unchanged", lambda: is_tensor(f, a, b, mf) or is_tensor(g, d, e, mg)
              or is_tensor(f2, b, c, mf2) or is_tensor(g2, e, k, mg2) or is_tensor(h, h1, h2, mh))

    wires = sum(len(eff(x)) for x in (a, b, c, d, e, k))
    big = any(v >= 2 for x in (a, b, c, d, e, k) for v in x)
    key = hashlib.sha1(repr((a, b, c, d, e, k, h1, h2, snake,
                             [complex(z) for z in np.asarray(f.array).reshape(-1)])).encode()
                       ).hexdigest()
    rep.case("O " + key, wires >= 2 and big)
    rep.sample(dict(stream="oracle", case=case))


# ------------------------------------------------------------------ run

def run(tier, seed, replay=None):
    rep = Report(PROP, tier, seed)
    rep.rule = ("four streams: numpy primitives on random shapes (dims 1-3/1-4, 0-5 axes, ~10% "
                "malformed), random tensor expressions through discopy's Tensor (~8% malformed: "
                "non-composable >>, non-adjoint cups, unequal +; every binary/unary operation "
                "called through a randomly drawn convention: >>, <<, .then(g), Tensor.then(f, g), "
                "@, .tensor(g), +, sum([..]), 0 + f, .dagger(), [::-1], transpose(left=..), "
                "Tensor.id()), n-ary calls recv.then(*args) / recv.tensor(*args) with 0-4 "
                "arguments (Tensors, Sums of class tensor.Sum / monoidal.Sum with 0-3 terms, "
                "rarely a tensor.Box / None / int; ~8% not composable) made as bound method, "
                "unbound method, iterated binary method, operator chain and right-nested chain "
                "(tensor-conv: non-trivial = at least 2 arguments and a result of at least 2 "
                "wires), and oracle cases (random tensors "
                "f:a->b, f':b->c, g:d->e, g':e->k, h on random Dims incl. 1, repeated and unequal "
                "dims, 0-3 (quick) / 0-4 (thorough) wires per side). non-trivial = at least 2 "
                "wires (axes) in total with some dim >= 2 and an operation other than id/literal "
                "(prims: a successful call other than identity on an array of >= 2 axes); "
                "distinct by request line / by a hash of dims and entries")
    rep.partial = ["none for the model: every clause of C08 is a Lean theorem about "
                   "Model/Tensor.lean; numpy's tensordot/moveaxis/reshape/identity/conjugate are "
                   "modelled and validated by the numpy-prims stream only; floating point is "
                   "outside (theorems over exact rings)",
                   "calling conventions: the dispatch of then/tensor(*others) is modelled for "
                   "Tensor, Sum-of-Tensors, tensor.Box, None and int operands; None/int after a "
                   "Sum (AttributeError) is never generated; dagger/transpose/conjugate/+/map are "
                   "applied to Tensors only; subs/grad/jacobian/lambdify/round are out of scope"]
    rep.assumptions = [
        "exactness: all entries are Gaussian integers below 2^50, so float64/complex128 "
        "arithmetic is exact and results are compared with ==; a case leaving that range is "
        "skipped and counted, never compared with a tolerance",
        "numpy itself is trusted; the model's numpy primitives are only cross-validated "
        "against it by the numpy-prims stream",
        "only non-negative axis numbers are modelled (the code under test never passes "
        "negative axes)",
    ]
    if os.environ.get("DV_SKIP_LEAN"):
        rep.lean = None
    else:
        rep.lean = lean_obligations(PROP, thorough=(tier == "thorough"))
    quick = tier == "quick"
    rng = random.Random(seed)
    rng_prims = random.Random(rng.getrandbits(64))
    rng_ops = random.Random(rng.getrandbits(64))
    rng_oracle = random.Random(rng.getrandbits(64))
    rng_conv = random.Random(rng.getrandbits(64))
    drv = tl.Asker()
    import time
    walls, t0 = {}, time.time()

    def lap(name):
        nonlocal t0
        walls[name] = round(time.time() - t0, 1)
        t0 = time.time()
    try:
        run_prims(rep, drv, rng_prims, 1000 if quick else 12000,
                  maxdim=3 if quick else 4, maxaxes=5 if quick else 6)
        lap("numpy-prims")
        run_tensor_ops(rep, drv, rng_ops, 1500 if quick else 8000,
                       maxdim=3 if quick else 4, maxwires=3 if quick else 4,
                       maxdepth=4 if quick else 5,
                       work=400000 if quick else 1000000, peak=20000 if quick else 60000)
        lap("tensor-ops")
        run_conv(rep, drv, rng_conv, 500 if quick else 5000, maxdim=3 if quick else 4,
                 work=300000 if quick else 800000, peak=20000 if quick else 60000)
        lap("tensor-conv")
    finally:
        drv.close()
        rep.extra["driver_restarts"] = drv.restarts
    for _ in range(450 if quick else 3000):
        subseed = rng_oracle.getrandbits(64)
        oracle_case(rep, random.Random(subseed), subseed,
                    maxdim=3 if quick else 4, maxwires=3 if quick else 4,
                    cap=200 if quick else 600, snake_cap=27 if quick else 36)
    lap("oracle")
    rep.extra["stream_wall_s"] = walls
    return rep.finish()
