"""C05 — SCALING stream: LONG moves.  A box is moved past n boxes it shares no wire with, for n far
beyond what the random streams reach (quick: up to ~1600, i.e. beyond the interpreter's default
recursion limit of 1000), down and up, both preferences, with obstructions that must refuse the
move (InterchangerError) at the far end / half way / right next to the box, and out-of-range
targets (IndexError).  The property does not bound |i - j|: the only refusals are the interchanger
error (a box on the way is wired to the moving box) and the index error.

The diagrams are plain `mk` specs built here without discopy: a MOVER box between 0-2 rail wires on
its left and 0-2 on its right; the n other boxes act on the rails only (1 -> 1 boxes, scalars at the
outer edges, state/effect pairs at the outer edges).  The expected answer comes from c05.simulate
(the documented exchange rule on integer lists) and from the compiled Lean model, as for every other
request of C05 (c05.check_move is the oracle).

Run as a script (`python c05_scale.py --worker`) this file is the LOW-STACK worker: it reads cases
{family, spec, i, j, left, limit} from stdin and calls interchange with the interpreter's recursion
limit lowered to `limit` (far below |i - j|), printing one JSON answer line per case: a move of k
adjacent exchanges must not need stack proportional to k.
"""
import json
import os
import sys

A, B, C = ("a", 0), ("b", 0), ("c", 0)


def bx(name, dom, cod):
    return dict(kind="g", name=name, dom=list(dom), cod=list(cod), dagger=False, data=None)


def long_move(rng, n, direction, blocker):
    """(spec, i, j, expect, shape): a mover and n rail boxes.  direction 'down': the mover comes
    first and is asked to go to the end; 'up': it comes last and is asked to go to the front.
    blocker None | 'end' | 'middle' | 'adjacent': a 1 -> 1 box on a wire of the mover at the far end
    of the way, somewhere on the way, or right next to the mover; the request then goes PAST it and
    `expect` is 'interchanger', otherwise 'ok'."""
    nl, nr = rng.choice([(0, 1), (1, 0), (1, 1), (1, 1), (2, 1), (0, 2), (2, 2)])
    left = [rng.choice([B, C]) for _ in range(nl)]
    right = [rng.choice([B, C]) for _ in range(nr)]
    k_in, k_out = rng.choice([(1, 1), (1, 2), (2, 1), (0, 1), (1, 0), (2, 2), (0, 2), (2, 0)])
    if blocker and (k_out if direction == "down" else k_in) == 0:
        k_in, k_out = 1, 1
    mover = bx("m", [A] * k_in, [A] * k_out)
    k_mid = k_out if direction == "down" else k_in     # the mover's wires seen by the rail boxes
    rails, offs = [], []
    L, R = list(left), list(right)

    def rail_box():
        """One box on the rails (or a pair state + effect), as (box, offset) items."""
        r = rng.random()
        side = rng.choice(["L"] * len(L) + ["R"] * len(R))
        wires = L if side == "L" else R
        base = 0 if side == "L" else len(L) + k_mid
        if r < 0.8:
            p = rng.randrange(len(wires))
            return [(bx("g%d" % rng.randint(0, 2), [wires[p]], [wires[p]]), base + p)]
        if r < 0.9:         # a scalar at an outer edge
            return [(bx("s", [], []), 0 if rng.random() < 0.5 else len(L) + k_mid + len(R))]
        edge = 0 if side == "L" else len(L) + k_mid + len(R)      # a state and the effect eating it
        return [(bx("u", [], [C]), edge), (bx("e", [C], []), edge)]
    while len(rails) < n:
        for b, o in rail_box():
            rails.append(b)
            offs.append(o)
    n = len(rails)
    block = bx("k", [A], [A])
    at = len(L) + rng.randrange(max(k_mid, 1))          # offset of a wire of the mover
    pos = {None: None, "end": n, "middle": rng.randint(1, max(1, n - 1)), "adjacent": 0}[blocker]
    if pos is not None:     # q = number of rail boxes above the blocker; never between a state and its effect
        q = pos if direction == "down" else n - pos
        if 0 < q < n and rails[q - 1]["name"] == "u":
            q += 1
    if direction == "down":
        boxes, offsets = [mover] + rails, [len(L)] + offs
        if pos is not None:
            boxes.insert(1 + q, block)
            offsets.insert(1 + q, at)
        spec = ("mk", left + [A] * k_in + right, left + [A] * k_out + right, boxes, offsets)
        i, j = 0, len(boxes) - 1
    else:
        boxes, offsets = rails + [mover], offs + [len(L)]
        if pos is not None:
            boxes.insert(q, block)
            offsets.insert(q, at)
        spec = ("mk", left + [A] * k_in + right, left + [A] * k_out + right, boxes, offsets)
        i, j = len(boxes) - 1, 0
    shape = "%s:%s:mover=%d->%d:rails=%d+%d" % (direction, blocker or "free", k_in, k_out, nl, nr)
    return spec, i, j, ("interchanger" if blocker else "ok"), shape


# ------------------------------------------------------------------ low-stack worker

def _worker():
    here = os.path.dirname(os.path.abspath(__file__))
    sys.path.insert(0, os.path.dirname(here))
    from common import ser_diagram, err_class
    from core import Family
    fams = {}
    for raw in sys.stdin:
        raw = raw.strip()
        if not raw:
            continue
        case = json.loads(raw)
        name = case["family"]
        fam = fams.setdefault(name, Family(name))
        _, dom, cod, boxes, offsets = case["spec"]
        tup = lambda t: [tuple(o) for o in t]
        spec = ("mk", tup(dom), tup(cod),
                [dict(b, dom=tup(b["dom"]), cod=tup(b["cod"])) for b in boxes], offsets)
        d = fam.run(spec)
        old = sys.getrecursionlimit()
        out = exc = None
        try:
            sys.setrecursionlimit(case["limit"])
            try:
                out = d.interchange(case["i"], case["j"], left=case["left"])
            finally:
                sys.setrecursionlimit(old)
        except BaseException as e:      # noqa: the class is the observation
            exc = e
        if exc is not None:
            ans = dict(status="err", cls=err_class(exc), msg=repr(exc)[:160])
        else:
            ans = dict(status="ok", out=ser_diagram(out))
        sys.stdout.write(json.dumps(ans) + "\n")
        sys.stdout.flush()


def run_low_stack(cases, timeout):
    """cases: list of dict(family, spec, i, j, left, limit). Returns a list of answers (None = the
    worker produced no answer for that case) and the worker's stderr tail."""
    import subprocess
    payload = "".join(json.dumps(c) + "\n" for c in cases)
    try:
        p = subprocess.run([sys.executable, os.path.abspath(__file__), "--worker"], input=payload,
                           capture_output=True, text=True, timeout=timeout)
        out, err = p.stdout, p.stderr
    except subprocess.TimeoutExpired as e:
        out = e.stdout or ""
        out = out.decode() if isinstance(out, bytes) else out
        err = "timeout after %ss" % timeout
    answers = []
    for line in out.splitlines():
        try:
            answers.append(json.loads(line))
        except ValueError:
            break
    answers += [None] * (len(cases) - len(answers))
    return answers[:len(cases)], err[-400:]


# ------------------------------------------------------------------ the stream

def scaling_stream(rep, drv, rng, tier, check_move, simulate):
    import random
    import time
    from common import ser_diagram
    from core import Family, tok_expr
    quick = tier == "quick"
    fams = {"monoidal": Family("monoidal"), "rigid": Family("rigid")}
    t0 = time.time()
    # ---- in-process, at the interpreter's default recursion limit
    sizes = [5, 40, rng.randint(200, 400), rng.randint(1050, 1600)] if quick \
        else [5, 40, 150, 400, 990, 1010, rng.randint(1050, 1600), 2200]
    plans = []
    for n in sizes:
        combos = [(dr, bl) for dr in ("down", "up") for bl in (None, None, "end", "middle", "adjacent")]
        if n > 600:                 # every direction free for both preferences; one blocked
            combos = [("down", None), ("up", None), (rng.choice(["down", "up"]), rng.choice(["end", "middle"]))]
        for dr, bl in combos:
            for left in (False, True):
                if quick and bl is not None and (rng.random() < 0.5) == left:
                    continue
                plans.append((n, dr, bl, left))
    for n, dr, bl, left in plans:
        sub = rng.getrandbits(64)
        r = random.Random(sub)
        spec, i, j, expect, shape = long_move(r, n, dr, bl)
        famname = "rigid" if r.random() < 0.3 else "monoidal"
        d = fams[famname].run(spec)
        nb = len(d.boxes)
        requests = [(i, j)]
        if bl is None and r.random() < 0.5:
            requests.append((i, j + (3 if j > i else -3)))              # beyond the end: IndexError
        if bl is not None and r.random() < 0.5:
            # the same mover asked to stop just before the obstruction: legal
            stop = next(k for k, b in enumerate(spec[3]) if b["name"] == "k")
            requests.append((i, stop - 1 if j > i else stop + 1))
        for (ri, rj) in requests:
            line = "eval " + tok_expr(("interchange", spec, ri, rj, left))
            model = drv.ask(line)
            case = dict(stream="scaling", family=famname, shape=shape, boxes=nb, i=ri, j=rj, left=left,
                        distance=abs(ri - rj), expr=repr(spec) if nb <= 60 else
                        "c05_scale.long_move(random.Random(%d), %d, %r, %r)[0]" % (sub, n, dr, bl),
                        request=line[:1500])
            sim = simulate(d, ri, rj, left)
            check_move(rep, "scaling", case, d, ri, rj, left, model, r, back=nb <= 450,
                       semantics=nb <= 450)
            bucket = "<=50" if nb <= 50 else "<=450" if nb <= 450 else "<=1000" if nb <= 1000 else ">1000"
            rep.count("scaling:distance%s:%s" % (bucket, sim[0]))
            rep.count("scaling:%s:%s" % (dr, bl or "free"))
            rep.case("scaling %s %s" % (famname, line), True)
    wall_inproc = round(time.time() - t0, 1)
    # ---- low stack: the same kind of request with the recursion limit far below the distance
    t0 = time.time()
    cases, keep = [], []
    for n in ([150, 300] if quick else [150, 300, 600, 1200]):
        for dr in ("down", "up"):
            for bl in (None, "end", "middle"):
                for left in (False, True):
                    if quick and bl is not None and rng.random() < 0.5:
                        continue
                    sub = rng.getrandbits(64)
                    r = random.Random(sub)
                    spec, i, j, expect, shape = long_move(r, n, dr, bl)
                    famname = "rigid" if r.random() < 0.3 else "monoidal"
                    limit = 100
                    cases.append(dict(family=famname, spec=spec, i=i, j=j, left=left, limit=limit))
                    keep.append((spec, i, j, left, famname, shape, limit,
                                 "c05_scale.long_move(random.Random(%d), %d, %r, %r)[0]" % (sub, n, dr, bl)))
    answers, stderr = run_low_stack(cases, timeout=120 if quick else 400)
    for (spec, i, j, left, famname, shape, limit, how_built), ans in zip(keep, answers):
        line = "eval " + tok_expr(("interchange", spec, i, j, left))
        case = dict(stream="scaling-low-stack", family=famname, shape=shape, boxes=len(spec[3]), i=i, j=j,
                    left=left, recursion_limit=limit, expr=how_built, request=line[:1500],
                    how="subprocess: sys.setrecursionlimit(%d) around d.interchange(i, j, left)" % limit)
        rep.count("scaling:low_stack")
        rep.case("scaling-low-stack %s %s" % (famname, line), True)
        if ans is None:
            rep.fail("low_stack_no_answer", case, "the worker produced no answer: " + stderr)
            continue
        d = fams[famname].run(spec)
        sim = simulate(d, i, j, left)
        real = "ok " + ans["out"] if ans["status"] == "ok" else "err " + ans["cls"]
        model = drv.ask(line)
        if real != model:
            rep.disagree("scaling-low-stack", case, real[:300], model[:300])
        if sim[0] == "ok":
            want = "ok " + ser_diagram(fams[famname].m.Diagram(d.dom, d.cod, sim[1], sim[2]))
            if ans["status"] != "ok":
                rep.fail("legal_move_raises_under_low_stack", case,
                         "a legal move past %d boxes raised %s (%s) with the recursion limit at %d"
                         % (abs(i - j), ans["cls"], ans.get("msg", "")[:100], limit))
            elif real != want:
                rep.fail("offsets_unexpected", case, "the result differs from the documented exchange rule")
        elif ans["status"] == "ok":
            rep.fail("accepted_but_" + sim[0], case, "returned a diagram, expected %s error" % sim[0])
        elif ans["cls"] != sim[0]:
            rep.fail("wrong_error_class", case, "raised %s (%s), expected %s with the recursion limit at %d"
                     % (ans["cls"], ans.get("msg", "")[:100], sim[0], limit))
    rep.extra["scaling"] = dict(
        in_process_requests=len(plans), sizes=sizes, low_stack_cases=len(cases),
        wall=dict(in_process_s=wall_inproc, low_stack_s=round(time.time() - t0, 1)),
        note="in process: default recursion limit, distances up to the largest size; low stack: "
             "subprocess with sys.setrecursionlimit(100) around the call, distances 150-300 "
             "(thorough: to 1200)")


if __name__ == "__main__":
    if "--worker" in sys.argv:
        _worker()
