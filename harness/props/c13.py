"""C13 — translation to and from tket preserves the meaning of circuits.

Streams (all randomness from the seed):
  totk        functional correspondence: real `c.to_tk()` (commands as a DAG, n_qubits, n_bits,
              post_selection, post_processing boxes/offsets, scalar, error class) == model, on EVERY
              generated circuit, inside and outside the proved fragment (the model transcribes the
              known defects F23/F24/F25/F27 too); a disagreement sends the circuit to the oracle
              even beyond the oracle's budget
  ps_count    the conclusion of `to_tk_keeps_post_selections` (one post-selected bit per Bra bit,
              for every circuit) re-evaluated on every answer of the model
  refines     the conclusion of the Lean theorem evaluated on every export inside the proved
              fragment (`viol=-`): commands / post-selection / post-processing routing are those of
              the wire-id specification `canon` up to an injective register naming
  simulator   harness simulator == pytket get_unitary / get_statevector on measurement-free circuits
  mua         from_tk.make_units_adjacent on every single two-qubit gate (exhaustive, small widths) == model
  fromtk      functional correspondence of the import: real `Circuit.from_tk(t)` (domain, codomain, boxes,
              offsets, error class) == model `fromTk`, on (a) every export of the generated circuits,
              (b) random tket circuits built directly with pytket calls (plain, and discopy tk.Circuit
              with post-selected bits), (c) malformed inputs (unsupported ops, three-qubit gates, a
              post-processing that does not fit, post-selection keys that are no bits)
  roundtrip   the statement `FromToRoundTrip` of lean/Props/C13.lean (not proved) evaluated on the model
              for every export inside the fragment: canon(from_tk(to_tk(c))) is canon(c) up to an
              injective naming, with the post-selected measurements moved to the end
  oracle      (the property) exported circuit simulated exactly + post-selection + scalar +
              post-processing == the circuit's mixed evaluation (a failure is a known finding only
              in that finding's region AND if the real export equals the model's, see
              `e2e_signature`); eval(backend) / get_counts(backend)
              with an exact-frequency backend == local evaluation; from_tk(to_tk(c)) evaluates to
              what the exported circuit means; from_tk of random pytket circuits == pytket's unitary
              / the simulated distribution
  batch       (the property, batch calling conventions of the backend path) one to four circuits in ONE
              call `c.eval(*others, backend=b)`, `c.get_counts(*others, backend=b)` /
              `Circuit.get_counts(c, *others, backend=b)`, `t.get_counts(*ts, backend=b)` (tk.Circuit level,
              before post-processing), members that differ in the value / the wire / the number of their
              post-selections, in scalar, in post-processing, in number of bits (T.gen_batch, own generator
              stream): every member's result == the exact simulation of its own export, post-selected with
              its own post-selection, times its own scalar, through its own post-processing == (one member
              of each batch, by budget) its local mixed evaluation; members are circuits inside the proved
              fragment whose real export equals the model's (compared here too, stream `totk`)
"""
import os
import random

for _v in ("OMP_NUM_THREADS", "OPENBLAS_NUM_THREADS", "MKL_NUM_THREADS"):
    os.environ.setdefault(_v, "1")      # tiny tensors: threads only cost time

import numpy as np  # noqa: E402

from common import Driver, Report, lean_obligations, err_class
import tkcirc as T

PROP = "C13"
TOL = 1e-9
F3_MSG = "'Dim' object has no attribute 'classical'"

# violation label of the model -> signature of the finding on /repo
# (F11 measure_left_of_bit, F26 override_destructive, F28 bit_swap_moves_ps are fixed in /repo: the
#  model has no such label any more, a recurrence would surface as an unmasked `to_tk:meaning`)
TO_TK_SIG = {
    "bits_left_of_bit": "to_tk:bits_left_of_bit",       # F23
    "discard_bit": "to_tk:discard_bit",                 # F24
    "stale_bits": "to_tk:stale_bits",                   # F25
    "override_after_pp": "to_tk:override_after_pp",     # F27
}


def exotic(spec):
    """Boxes outside the exportable set (NotImplementedError is the specified answer)."""
    for box, _ in spec[1]:
        k = box[0]
        if (k == "bits" and not box[2] and 1 in box[1]) or k == "dag" \
                or (k == "rot" and box[1] not in T.ROT_EXPORTABLE) or (k == "ctrl" and box[1] == "T"):
            return True
    return False


def arity_changing(spec):
    return any((b[0] == "cgate" and T.CGATES[b[1]][0] != T.CGATES[b[1]][1]) or (b[0] == "bits" and b[2])
               for b, _ in spec[1])


def has_override(spec):
    return any(b[0] == "measure" and b[3] for b, _ in spec[1])


def is_f3(exc):
    return isinstance(exc, AttributeError) and F3_MSG in str(exc)


def squeeze(a):
    a = np.asarray(a)
    return a.reshape(()) if a.size == 1 and a.ndim <= 1 else a


def close(a, b):
    a, b = squeeze(a), squeeze(b)
    return a.shape == b.shape and bool(np.allclose(a, b, atol=TOL, rtol=0))


def show(a):
    return np.round(np.asarray(a).astype(complex).flatten(), 6).tolist()


def reference(c):
    """The circuit's own mixed evaluation after init_and_discard: array of shape (2,)*n_bits."""
    return c.init_and_discard().eval(mixed=True).array


def counts_of(arr):
    arr = squeeze(arr)
    out = {}
    for idx in np.ndindex(*arr.shape) if arr.ndim else [()]:
        v = arr[idx] if arr.ndim else arr.reshape(-1)[0]
        if abs(v) > 1e-12:
            out[tuple(int(i) for i in idx)] = complex(v)
    return out


def counts_close(a, b):
    keys = set(a) | set(b)
    return all(abs(complex(a.get(k, 0)) - complex(b.get(k, 0))) <= TOL for k in keys)


def from_tk_sig(tk_circ, exc=None, label="-"):
    """Signature of a from_tk failure (exception `exc`, or a wrong value), by its cause in tk.py."""
    cmds = T.tk_commands(tk_circ)
    ps = {int(k) for k in getattr(tk_circ, "post_selection", {})}
    if exc is not None and isinstance(exc, NotImplementedError):
        names = {c[0] for c in cmds}
        if names & {"CY", "CH", "CS"}:
            return "from_tk:controlled_gate_not_importable"     # exported by name, not in GATES (tk.py:284-287)
        if "SWAP" in names:
            return "from_tk:swap_not_importable"                # SWAP.name is 'Swap(qubit, qubit)'
        return "from_tk:raises:notimpl"
    if exc is None and T.gate_after_postselected_measure(cmds, ps):
        # tk.py:320-322, 336-339: the post-selection is moved to the end of the circuit (F33)
        return "from_tk:gate_after_postselected_measure"
    measured = [c[3][0] for c in cmds if c[0] == "Measure" and c[3][0] not in ps]
    if any(any(p < b for p in ps) for b in measured):
        # tk.py:313-323 indexes the bits with the raw tket index although n_bits (tk.py:273)
        # excludes the post-selected ones
        return "from_tk:postselect_and_measure" if exc is not None else "from_tk:postselect_bit_order"
    if exc is None and any(len(c[2]) == 2 and c[2][1] - c[2][0] >= 3 for c in cmds):
        return "from_tk:distant_qubits"     # tk.py:300-304 rotates the wires the wrong way round
    if exc is not None:
        return "from_tk:raises:" + err_class(exc)
    return "from_tk:value"


def run(tier, seed, replay=None):
    from discopy.quantum import Circuit
    rep = Report(PROP, tier, seed)
    rep.rule = ("random circuits over {Ket, Bra, Bits(0), H, S, T, X, Y, Z, CX, CZ, Controlled(X|Y|Z|H|S), "
                "SWAP, Swap(bit,bit), mixed swaps, Rx, Rz, CRz, Measure (destructive / not / override_bits), "
                "Discard (qubits and bits), scalars (pure and mixed), classical gates (0/1 matrices of "
                "arities 0-2 -> 1-2) and Bits effects}, 0-4 wires at every depth, 1-8 layers (8% start with three "
                "prepared qubits, one Measure(n >= 2) box and a bit swap / overriding Measure that tells its bits "
                "apart), plus 24 (quick) / 200 (thorough) circuits with two or three post-selected qubits "
                "(one Bra(n), single Bras at different times, a Measure in between or before) made with or "
                "without a classical wire and followed by one or two later Bits(0..) preparations left / right "
                "of / between the bit wires that rename all the post-selected bits at once, preparations / "
                "post-selections / swaps at arbitrary depths, ~6% boxes outside the exportable set; "
                "non-trivial = export succeeds with at least one preparation or measurement not at the "
                "right end of its register list, or a swap, or a non-empty post-processing; plus random "
                "pytket circuits over H S T X Y Z CX CZ SWAP Rx Rz CRz Measure; plus 7 pinned and 10 (quick) / "
                "150 (thorough) random BATCHES of one to four circuits evaluated in one call through the exact "
                "backend (eval / get_counts / Circuit.get_counts / tk.Circuit.get_counts with *others, n_shots "
                "and seed passed or not), whose members differ in the value, the wire or the number of their "
                "post-selections, in scalar, in classical post-processing, in number of bits or qubits, in "
                "nothing, or are unrelated random circuits (non-trivial batch = at least two members that differ)")
    rep.partial = [
        "to_tk_refines is proved inside the fragment delimited by `violation` (no Bits left of a "
        "non-post-selected register, no Discard of bits, no override_bits Measure after classical "
        "post-processing); each excluded shape has a decided counter-witness and is a known finding on "
        "/repo (F23, F24, F25, F27); for every circuit (no fragment) to_tk_keeps_post_selections: one "
        "post-selected bit per Bra bit, distinct keys, existing bits",
        "from_tk is modelled one-for-one and proved, for every well-formed tket circuit, to be defined, "
        "well-typed and to place every gate on the units tket names (wire-identity trace; measured bits at "
        "the rank of the bit among the non-post-selected ones; make_units_adjacent for every width); the "
        "round-trip statement FromToRoundTrip is stated in Lean but NOT proved (it is evaluated on the model "
        "for every generated export inside the fragment, stream `roundtrip`); moving a post-selected "
        "measurement to the end is harmless only under `psFinal` (finding F33 otherwise)",
        "meaning of tket ops and of the imported boxes, pytket's rename_units/add_blank_wires/get_commands "
        "order, Circuit.upgrade and the backend path are outside the model: they rest on the oracle of this "
        "check",
        "the backend path (tk.Circuit.get_counts tk.py:100-136: normalisation, post-selection, scaling of every "
        "circuit of a batch; Circuit.eval / Circuit.get_counts backend branch circuit.py:254-265, 319-331) has NO "
        "Lean model: single calls and batch calls (stream `batch`) are checked by the oracle only — every member "
        "of a batch against the exact simulation of its own export and against its local evaluation; the batch "
        "defect F50 (every member scaled by the first circuit's scalar) is a known finding on /repo",
    ]
    rep.assumptions = [
        "pytket's get_unitary/get_statevector define the meaning of tket ops (the harness simulator is "
        "compared with them on every run)",
        "hasattr(tk_circ, name) is abstracted by the table `tkHas` (validated for the generated names)",
        "tket parameters are multiples of 1/8 (the model's angle lattice; the generators produce nothing else), "
        "units live in the default registers q / c",
    ]
    rep.lean = lean_obligations(PROP, thorough=(tier == "thorough"))
    quick = tier == "quick"
    n_tk = 50 if quick else 600
    budget = dict(corr=300 if quick else 5000,      # functional correspondence + refinement
                  oracle=75 if quick else 1200,    # + meaning of the export
                  roundtrip=45 if quick else 620,  # + import of the export
                  backend=30 if quick else 300,     # + eval / get_counts through the exact backend
                  chain=24 if quick else 200,       # circuits of ps_chain_prefix (meaning of the export for all)
                  chain_full=8 if quick else 40,    # ... of which with import and backend
                  max_units=5 if quick else 6,      # size limit for evaluating imported circuits
                  batches=10 if quick else 150,     # random batches through the exact backend (+ 7 pinned)
                  batch_local=6 if quick else 157)    # ... of which with the local evaluation of one member
    rng = random.Random(seed)
    drv = Driver()
    try:
        simulator_stream(rep, rng, n_tk)
        adjacent_stream(rep, drv, 5 if quick else 6, Circuit)
        export_stream(rep, rng, drv, budget, Circuit)
        import_stream(rep, rng, drv, n_tk, Circuit, budget["max_units"])
        import_ps_stream(rep, rng, drv, 120 if quick else 1500, 24 if quick else 400, Circuit,
                         4 if quick else budget["max_units"])
        malformed_stream(rep, rng, drv, 30 if quick else 300, Circuit)
        batch_stream(rep, drv, budget["batches"], budget["batch_local"], Circuit, quick)
    finally:
        drv.close()
    return rep.finish()


# --------------------------------------------------------------------------- simulator vs pytket

def simulator_stream(rep, rng, n):
    """The harness simulator against pytket on measurement-free circuits: unitary, state vector,
    and (measuring every qubit at the end) the branch simulation against |state vector|^2."""
    for _ in range(n):
        circ, desc = T.gen_tk(rng, measure=False)
        nq = circ.n_qubits
        cmds = T.tk_commands(circ)
        mine = T.unitary_of(cmds, nq)
        if not close(mine, circ.get_unitary()):
            rep.disagree("simulator", desc, "pytket get_unitary", "harness unitary differs")
        sv = circ.get_statevector()
        if not close(mine[:, 0], sv):
            rep.disagree("simulator", desc, "pytket get_statevector", "harness state vector differs")
        measured = cmds + [("Measure", [], [q], [q]) for q in range(nq)]
        dist = T.simulate(measured, range(nq), range(nq))
        arr = np.zeros((2,) * nq)
        for bits, p in dist.items():
            arr[bits] = p
        if not close(arr.reshape(-1), np.abs(sv) ** 2):
            rep.disagree("simulator", desc, "|statevector|^2", "harness branch simulation differs")
        rep.count("simulator_checked")


# --------------------------------------------------------------------------- make_units_adjacent

def adjacent_stream(rep, drv, max_n, Circuit):
    """from_tk of every single two-qubit gate on up to `max_n` qubits: offset of the gate and offsets
    of the SWAP boxes in front of it, real code == model (exhaustive)."""
    import pytket as tk
    from discopy.quantum.circuit import Swap
    cases = [(n, a, b) for n in range(2, max_n + 1) for a in range(n) for b in range(n) if a != b]
    answers = drv.ask_many(["mua 2 %d %d" % (a, b) for _, a, b in cases])
    for (n, a, b), ans in zip(cases, answers):
        d = Circuit.from_tk(tk.Circuit(n).CX(a, b))
        body = list(zip(d.boxes, d.offsets))[n:]
        swaps = []
        for box, off in body:
            if not isinstance(box, Swap):
                real = "%d %s" % (off, " ".join([str(len(swaps))] + [str(o) for o in swaps]))
                break
            swaps.append(off)
        if real != ans:
            rep.disagree("mua", dict(n=n, qubits=[a, b]), real, ans)
        rep.case("mua %d %d %d" % (n, a, b), abs(a - b) > 1)
        rep.count("adjacent_checked")


# --------------------------------------------------------------------------- export

def nontrivial(spec, fields):
    if not fields or "cmds" not in fields:
        return False
    kinds = {b[0] for b, _ in spec[1]}
    return bool(kinds & {"swap", "cgate", "bra", "measure"}) and len(spec[1]) >= 3


# the counter-witnesses of lean/Props/C13.lean and of notes/finding_*.md, replayed on every run
WITNESSES = [
    # F11 (fixed)  Ket(1, 0) >> Id(1) @ Measure() >> Measure() @ Id(bit)
    ("", [(("ket", (1, 0)), 0), (("measure", 1, 1, 0), 1), (("measure", 1, 1, 0), 0)]),
    # F23  Ket(1) >> Measure() >> Bits(0) @ Id(bit)
    ("", [(("ket", (1,)), 0), (("measure", 1, 1, 0), 0), (("bits", (0,), 0), 0)]),
    # F24  Ket(1, 0) >> Measure(2) >> Discard(bit) @ Id(bit)
    ("", [(("ket", (1, 0)), 0), (("measure", 2, 1, 0), 0), (("discard", "b"), 0)]),
    # F26 (fixed)  Ket(1, 0) >> Id(1) @ Bits(0) @ Id(1) >> Measure(1, override_bits=True) @ Id(1) >> Id(bit) @ X >> Id(bit) @ Measure()
    ("", [(("ket", (1, 0)), 0), (("bits", (0,), 0), 1), (("measure", 1, 1, 1), 0), (("gate", "X"), 1),
          (("measure", 1, 1, 0), 1)]),
    # F28 (fixed)  Ket(0, 1, 0) >> Bra(0) @ Id(2) >> Measure() @ Id(1) >> Id(bit) @ Measure() >> Swap(bit, bit)
    ("", [(("ket", (0, 1, 0)), 0), (("bra", (0,)), 0), (("measure", 1, 1, 0), 0), (("measure", 1, 1, 0), 1),
          (("swap", "b", "b"), 0)]),
    # F25  Bits(0) >> FAN >> Id(bit @ bit) @ Bits(0)   (IndexError)
    ("", [(("bits", (0,), 0), 0), (("cgate", "FAN"), 0), (("bits", (0,), 0), 2)]),
    # F25  Ket(1, 1) >> Measure(2) >> XOR >> Id(bit) @ Bits(0)   (XOR reads the blank register)
    ("", [(("ket", (1, 1)), 0), (("measure", 2, 1, 0), 0), (("cgate", "XOR"), 0), (("bits", (0,), 0), 1)]),
    # (raised AxiomError before fix F11)  Ket(1) >> Measure() >> Bits(1)[::-1] >> Ket(1) >> Measure()
    ("", [(("ket", (1,)), 0), (("measure", 1, 1, 0), 0), (("bits", (1,), 1), 0), (("ket", (1,)), 0),
          (("measure", 1, 1, 0), 0)]),
    # F27  Ket(0, 0, 1) >> Measure() @ Measure() @ Id(1) >> NOT @ Id(bit @ qubit) >> Swap(bit, bit) @ Id(1)
    #   >> Id(bit) @ Swap(bit, qubit) >> Id(bit) @ Measure(1, destructive=False, override_bits=True)
    ("", [(("ket", (0, 0, 1)), 0), (("measure", 1, 1, 0), 0), (("measure", 1, 1, 0), 1), (("cgate", "NOT"), 0),
          (("swap", "b", "b"), 0), (("swap", "b", "q"), 1), (("measure", 1, 0, 1), 1)]),
    # F17 (fixed, C11)  Ket(0, 0) >> H @ H >> Id(1) @ S >> Controlled(Y) >> H @ Id(1) >> Measure() @ Discard()
    ("", [(("ket", (0, 0)), 0), (("gate", "H"), 0), (("gate", "H"), 1), (("gate", "S"), 1), (("ctrl", "Y"), 0),
          (("gate", "H"), 0), (("measure", 1, 1, 0), 0), (("discard", "q"), 1)]),
    # F12 (fixed)  Ket(1, 1, 0) >> Bra(1) @ Id(2) >> Measure() @ Id(1)
    ("", [(("ket", (1, 1, 0)), 0), (("bra", (1,)), 0), (("measure", 1, 1, 0), 0)]),
    # F13 (fixed)  Ket(1, 1) >> Bra(1) @ Id(1) >> Id(1) @ Ket(0) >> Measure(2)
    ("", [(("ket", (1, 1)), 0), (("bra", (1,)), 0), (("ket", (0,)), 1), (("measure", 2, 1, 0), 0)]),
    # F29 (fixed)  Ket(1) >> Measure() >> NOT   (get_counts through a backend)
    ("", [(("ket", (1,)), 0), (("measure", 1, 1, 0), 0), (("cgate", "NOT"), 0)]),
    # F31 (fixed)  Controlled(H)
    ("qq", [(("ctrl", "H"), 0)]),
    # F30 (fixed)  Ket(1, 0) >> CX >> Id(1) @ Ket(0, 0) @ Id(1) >> Discard(qubit ** 3) @ Measure()   (export has CX(0, 3))
    ("", [(("ket", (1, 0)), 0), (("gate", "CX"), 0), (("ket", (0, 0)), 1), (("discard", "qqq"), 0),
          (("measure", 1, 1, 0), 0)]),
    # ---- regression corpus (shapes on which seeded changes manifest; all correct on the tree)
    # controlled rotations with phases outside [0, 1) and the control in superposition, made to
    # interfere: an angle reduced modulo one turn is an extra Z on the control
    ("", [(("ket", (0, 0)), 0), (("gate", "H"), 0), (("gate", "X"), 1), (("rot", "CRz", -5), 0),
          (("gate", "H"), 0), (("measure", 2, 1, 0), 0)]),
    ("", [(("ket", (0, 1)), 0), (("gate", "H"), 0), (("rot", "CRz", 21), 0), (("gate", "H"), 0),
          (("measure", 1, 1, 0), 0), (("discard", "q"), 1)]),
    ("", [(("ket", (0, 1)), 0), (("gate", "H"), 0), (("rot", "CRz", 37), 0), (("gate", "H"), 0),
          (("measure", 2, 1, 0), 0)]),
    # a qubit removed to the left of a survivor, then a Ket prepared to the right of the survivor
    ("", [(("ket", (0, 1)), 0), (("discard", "q"), 0), (("ket", (0,)), 1), (("measure", 2, 1, 0), 0)]),
    ("", [(("ket", (1, 1, 0)), 0), (("bra", (1,)), 0), (("ket", (0,)), 2), (("gate", "CX"), 0),
          (("measure", 3, 1, 0), 0)]),
    # one Measure(n) box, then a consumer of the order of its n bit registers (seeded C13-r2m1):
    # H @ Rx(5/16) @ X >> CX @ Id(1) >> Measure(3) >> Swap(bit, bit) @ Id(bit)
    ("qqq", [(("gate", "H"), 0), (("rot", "Rx", 5), 1), (("gate", "X"), 2), (("gate", "CX"), 0),
             (("measure", 3, 1, 0), 0), (("swap", "b", "b"), 0)]),
    # Ket(1, 0, 0) >> Measure(3) >> Id(bit) @ Swap(bit, bit)
    ("", [(("ket", (1, 0, 0)), 0), (("measure", 3, 1, 0), 0), (("swap", "b", "b"), 1)]),
    # Ket(1, 0, 1) >> Measure(2) @ Id(1) >> Id(bit) @ Swap(bit, qubit) >> Id(bit) @ Measure(1, override_bits=True)
    ("", [(("ket", (1, 0, 1)), 0), (("measure", 2, 1, 0), 0), (("swap", "b", "q"), 1), (("measure", 1, 1, 1), 1)]),
    # Ket(0, 1, 1) >> Id(1) @ Measure(2) >> Measure() @ Id(bit @ bit) >> Swap(bit, bit) @ Id(bit)
    ("", [(("ket", (0, 1, 1)), 0), (("measure", 2, 1, 0), 1), (("measure", 1, 1, 0), 0), (("swap", "b", "b"), 0)]),
    # two post-selected bits with adjacent tket indices
    ("", [(("ket", (1, 0, 1)), 0), (("bra", (1, 0)), 0), (("measure", 1, 1, 0), 0)]),
    ("", [(("ket", (1, 0, 1)), 0), (("bra", (1, 0)), 1), (("gate", "H"), 0), (("measure", 1, 1, 0), 0)]),
    # several post-selected bits shifted at once by a later Bits preparation (rename_units, tk.py:71-83;
    # seeded C13-m2): the new index of one is the old index of the next
    # inside the fragment:  Ket(1, 0) @ Bits(0) >> Bra(1, 0) @ Id(bit) >> Id(bit) @ Bits(0)
    ("", [(("ket", (1, 0)), 0), (("bits", (0,), 0), 2), (("bra", (1, 0)), 0), (("bits", (0,), 0), 1)]),
    # inside:  Ket(0, 1, 1) >> H @ Id(2) >> Measure() @ Id(2) >> Id(bit) @ Bra(1) @ Id(1) >> Id(bit) @ Bra(1)
    #          >> Id(bit) @ Bits(0, 0)        (two Bras at different times, shift by two)
    ("", [(("ket", (0, 1, 1)), 0), (("gate", "H"), 0), (("measure", 1, 1, 0), 0), (("bra", (1,)), 1),
          (("bra", (1,)), 1), (("bits", (0, 0), 0), 1)]),
    # inside:  no classical wire before the Bras, two later preparations:
    #          Ket(1, 0, 1) >> Bra(1, 0, 1) >> Bits(0) >> Id(bit) @ Bits(0)
    ("", [(("ket", (1, 0, 1)), 0), (("bra", (1, 0, 1)), 0), (("bits", (0,), 0), 0), (("bits", (0,), 0), 1)]),
    # region of F23:  Bits(0) @ Ket(1, 0) >> Id(bit) @ Bra(1, 0) >> Bits(0) @ Id(bit)
    ("", [(("bits", (0,), 0), 0), (("ket", (1, 0)), 1), (("bra", (1, 0)), 1), (("bits", (0,), 0), 0)]),
    # region of F23:  Ket(1, 1, 0, 1) >> Measure() @ Id(3) >> Id(bit) @ Bra(1) @ Id(2) >> Id(bit) @ Measure() @ Id(1)
    #                 >> Id(bit @ bit) @ Bra(1) >> Bits(0, 0) @ Id(bit @ bit)     (post-selected bits 1 and 3, shift by two)
    ("", [(("ket", (1, 1, 0, 1)), 0), (("measure", 1, 1, 0), 0), (("bra", (1,)), 1), (("measure", 1, 1, 0), 1),
          (("bra", (1,)), 2), (("bits", (0, 0), 0), 0)]),
    # region of F23:  Measure + post-selection of the same qubit, then a Bra, then two preparations on the left
    ("", [(("ket", (1, 0)), 0), (("measure", 1, 0, 0), 0), (("bra", (1,)), 0), (("bra", (0,)), 1),
          (("bits", (0,), 0), 0), (("bits", (0,), 0), 0)]),
]


def bra_bits(spec):
    """Number of post-selected qubits of a spec: to_tk records one post-selected bit for each
    (tk.py:187-196); `to_tk_keeps_post_selections` in lean/Props/C13.lean for the model."""
    return sum(len(b[1]) for b, _ in spec[1] if b[0] == "bra")


def export_defect(t, spec):
    """A reason for which the side data of an export cannot mean the circuit, by symptom (None if
    there is none): these names only REFINE the signature of a failure of the property (the export
    has no meaning or another one than the circuit), they are not demands of their own."""
    ps = {int(k): int(v) for k, v in t.post_selection.items()}
    if len(ps) < bra_bits(spec):
        return "to_tk:post_selection_lost"
    if len(ps) > bra_bits(spec):
        return "to_tk:post_selection_spurious"
    if any(k < 0 or k >= len(t.bits) for k in ps):
        return "to_tk:post_selection_key_not_a_bit"
    if len(t.bits) - len(ps) != len(t.post_processing.dom):
        return "to_tk:post_processing_width"
    return None


def e2e_signature(label, same_export, defect):
    """Signature of an export that does not mean what the circuit evaluates to.

    A known finding (F23, F24, F25, F27) is claimed ONLY when the circuit lies in the region of
    that finding (`label`, the first excluded condition met along the run) AND the real export
    equals, field by field, the export of the Lean model — which transcribes the unchanged code
    with these defects — AND the side data are consistent: then the failure is the documented
    behaviour of the unchanged code.  An export that differs from the model's in such a region, or
    loses a post-selection anywhere, is a failure of its own."""
    if defect is not None:
        return defect
    if label in TO_TK_SIG:
        return TO_TK_SIG[label] if same_export else "to_tk:export_differs_from_model_in_known_region"
    return "to_tk:meaning"


def chain_specs(rep, n):
    """`n` circuits of `ps_chain_prefix` (own generator stream derived from the seed, so that the
    random circuits after them are those of earlier versions of the check)."""
    crng = random.Random(1000003 * rep.seed + 13)
    out = []
    for _ in range(n):
        info = {}
        out.append(T.gen_spec(random.Random(crng.getrandbits(64)), max_regs=6, chain=True, info=info))
        rep.count("chain:n_ps=%d" % info["n_ps"])
        rep.count("chain:wire=" + info["wire"])
        rep.count("chain:how=" + info["how"])
        rep.count("chain:preps=" + info["preps"])
    return out


def export_stream(rep, rng, drv, budget, Circuit):
    n_w, n_c = len(WITNESSES), budget["chain"]
    specs = WITNESSES + chain_specs(rep, n_c) + [
        T.gen_spec(random.Random(rng.getrandbits(64)), max_regs=6) for _ in range(budget["corr"])]
    # what is done for the case at index idx: witnesses everything; chain circuits the meaning of the
    # export, and for the first third the import and the backend as well; random circuits by budget
    plan = []
    for idx in range(len(specs)):
        if idx < n_w:
            plan.append((True, True, True, 7))
        elif idx < n_w + n_c:
            full = idx - n_w < budget["chain_full"]
            plan.append((True, full, full, budget["max_units"]))
        else:
            k = idx - n_w - n_c
            plan.append((k < budget["oracle"], k < budget["roundtrip"], k < budget["backend"], budget["max_units"]))
    rep.count("witnesses_replayed", n_w)
    rep.count("chain_circuits", n_c)
    toks = [T.spec_tokens(s) for s in specs]
    answers = drv.ask_many(["totk " + t for t in toks])
    spec_answers = drv.ask_many(["tkspec " + t for t in toks])
    exports, rounds = [], []
    try:
        _export_loop(rep, plan, Circuit, specs, toks, answers, spec_answers, exports, rounds)
    finally:
        fromtk_compare(rep, drv, exports, Circuit, "export")
        roundtrip_compare(rep, drv, rounds)


def _export_loop(rep, plan, Circuit, specs, toks, answers, spec_answers, exports, rounds):
    for idx, (spec, tok, ans, sans) in enumerate(zip(specs, toks, answers, spec_answers)):
        do_oracle, do_round, do_backend, max_units = plan[idx]
        case = dict(spec=repr(spec))
        c = T.build(spec)
        case["circuit"] = str(c)
        head, fields = T.parse_fields(ans)
        viol = fields.get("viol", "-")
        label = viol.split("@")[0]
        for b, _ in spec[1]:
            rep.count("box:" + b[0])
        rep.count("layers:%d" % len(spec[1]))
        # ---- functional correspondence (EVERY generated circuit, inside and outside the fragment:
        #      the model transcribes the code with its known defects)
        try:
            t = c.to_tk()
            real = "ok " + T.real_export_tokens(t)
        except Exception as exc:
            t, real = None, "err " + err_class(exc)
        mine = "ok " + T.model_export_tokens(fields) if head == "ok" else head
        same_export = real == mine
        if not same_export:
            rep.disagree("totk", case, real[:600], mine[:600])
            rep.count("totk_disagreements:" + ("inside" if label == "-" else label))
        rep.case(tok, head == "ok" and nontrivial(spec, fields))
        rep.sample(dict(request="totk " + tok[:200], answer=ans[:300]))
        rep.count("export:" + real.split()[1] if real.startswith("err") else "export:ok")
        rep.count("fragment:" + ("inside" if label == "-" else label))
        if t is None:
            cls = real.split()[1]
            if cls == "notimpl" and exotic(spec):
                continue                    # refusal of a box outside the exportable set
            if cls in ("index", "axiom") and arity_changing(spec) and same_export:
                rep.fail("to_tk:stale_bits", case, "to_tk raises %s after a classical box changed "
                         "the number of bit wires" % cls)
            else:
                rep.fail("to_tk:raises:" + cls, case, "to_tk raises on a circuit of the exportable set "
                         "(the model of the unchanged code answers %s)" % mine[:80])
            continue
        exports.append((case, t))
        if exotic(spec):
            rep.count("exotic_exported")    # e.g. S.dagger() exported under the name S: outside the set
            continue
        # ---- the theorem's conclusion on this export
        shead, sfields = T.parse_fields(sans)
        if label == "-" and head == "ok":
            if shead != "ok":
                rep.disagree("refines", case, "specification defined inside the fragment", sans[:200])
            else:
                why = T.refinement_failure(fields, T.parse_spec(sfields))
                if why:
                    rep.disagree("refines", case, "export refines canon", why)
                rep.count("refines_checked")
                rounds.append((case, "%d %s" % (1 if t.scalar != 1 else 0, tok)))
        if head == "ok" and len([kv for kv in fields.get("ps", "").split(",") if kv]) != bra_bits(spec):
            # to_tk_keeps_post_selections (lean/Props/C13.lean) re-evaluated on the model's answer
            rep.disagree("ps_count", case, "%d post-selected qubits" % bra_bits(spec), "ps=" + fields.get("ps", ""))
        # ---- the property: meaning of the export.  Beyond the budget the oracle still runs on every
        #      circuit on which code and model disagree: that is where a failing input is to be found
        if not do_oracle and same_export:
            continue
        if not do_oracle:
            rep.count("oracle_on_disagreement")
        try:
            ref = reference(c)
        except Exception as exc:
            if is_f3(exc) and has_override(spec):
                rep.fail("cqmap:discard_dim", case, "mixed evaluation of Measure(override_bits=True) "
                         "raises AttributeError (F3)")
            else:
                rep.fail("reference_eval_raises:" + err_class(exc), case, repr(exc)[:200])
            continue
        defect = export_defect(t, spec)
        sig = e2e_signature(label, same_export, defect)
        try:
            raw = T.simulate_tk(t)
            got = T.exported_distribution(t, raw)
            e2e_ok = close(got, ref)
            text = "exported %r means %s, the circuit evaluates to %s (tolerance %g)" % (
                t, show(got), show(ref), TOL)
        except Exception as exc:       # the side data do not fit the commands: the export means nothing
            got, e2e_ok = None, False
            text = "exported %r has no meaning (%s: post-selection %r, %d bits, post-processing from %d bits); " \
                   "the circuit evaluates to %s" % (t, err_class(exc), dict(t.post_selection), len(t.bits),
                                                    len(t.post_processing.dom), show(ref))
            if defect is None:
                sig = "to_tk:export_has_no_meaning" if sig == "to_tk:meaning" else sig
        if not e2e_ok:
            if not same_export:
                text += "; the model of the unchanged code exports " + mine[:300]
            elif defect is None and label in TO_TK_SIG:
                rep.count("known_region_export_equals_model")
            rep.fail(sig, case, text)
        rep.count("e2e:" + ("ok" if e2e_ok else "fail"))
        if got is None:
            continue
        # ---- import of the export: must mean what the export means
        if not do_round:
            continue
        if t.n_qubits + len(t.bits) > max_units:   # 8 units: 6 s a piece
            rep.count("roundtrip_skipped_large")     # from_tk keeps every unit as a wire: 4^q * 2^b entries
            continue
        try:
            back = Circuit.from_tk(t)
            try:
                rb = back.eval(mixed=True).array
                if not close(rb, got):
                    rep.fail(from_tk_sig(t, None, label), case, "from_tk(%r) evaluates to %s, the tket circuit means %s" % (
                        t, show(rb), show(got)))
                rep.count("roundtrip_checked")
            except Exception as exc:
                if is_f3(exc):
                    rep.fail("cqmap:discard_dim", case, "evaluating from_tk(...) raises AttributeError (F3)")
                else:
                    rep.fail("from_tk:eval_raises:" + err_class(exc), case, repr(exc)[:200])
        except Exception as exc:
            rep.fail(from_tk_sig(t, exc, label), case, "from_tk(%r) raises %s" % (t, repr(exc)[:160]))
        # ---- backend
        if do_backend:
            backend_checks(rep, c, t, ref, e2e_ok, sig, case)


def backend_checks(rep, c, t, ref, e2e_ok, sig, case):
    """`sig`: the signature under which a wrong export of this circuit is (already) reported."""
    be = T.ExactBackend()
    try:
        res = c.eval(be)
        if not close(res.array, ref):
            if e2e_ok:
                rep.fail("backend:eval", case, "eval(backend) = %s, local mixed evaluation = %s" % (
                    show(res.array), show(ref)))
            else:
                rep.fail(sig, case, "eval(backend) differs from local evaluation (export is wrong)")
        rep.count("backend_eval_checked")
    except Exception as exc:
        rep.fail("backend:eval_raises:" + err_class(exc), case, repr(exc)[:200])
    try:
        cnt = c.get_counts(be)
        want = counts_of(ref)
        if not counts_close(cnt, want):
            if not e2e_ok:
                rep.fail(sig, case, "get_counts(backend) differs from local evaluation (export is wrong)")
            elif len(t.post_processing.boxes):     # F29 (fixed): the post-processing was not applied
                rep.fail("backend:get_counts_skips_post_processing", case,
                         "get_counts(backend) = %s, local evaluation = %s" % (sorted(cnt.items()), sorted(want.items())))
            else:
                rep.fail("backend:get_counts", case,
                         "get_counts(backend) = %s, local evaluation = %s" % (sorted(cnt.items()), sorted(want.items())))
        rep.count("backend_counts_checked")
    except Exception as exc:
        rep.fail("backend:get_counts_raises:" + err_class(exc), case, repr(exc)[:200])


# --------------------------------------------------------------------------- batches through a backend

_ENT = [(("ket", (0, 0)), 0), (("rot", "Rx", 5), 0), (("gate", "CX"), 0)]
_HH = [(("ket", (0, 0)), 0), (("gate", "H"), 0), (("gate", "H"), 1)]
# pinned batches, replayed on every run (all members inside the proved fragment)
BATCH_WITNESSES = [
    # post-selections of different VALUE: ... >> Bra(0) @ Measure()  with  ... >> Bra(1) @ Measure()  (seeded C13-r4m2)
    [("", _ENT + [(("bra", (0,)), 0), (("measure", 1, 1, 0), 0)]),
     ("", _ENT + [(("bra", (1,)), 0), (("measure", 1, 1, 0), 0)])],
    # ... on a different WIRE (tket bit 1 instead of bit 0), three circuits
    [("", _ENT + [(("bra", (1,)), 0), (("measure", 1, 1, 0), 0)]),
     ("", _ENT + [(("bra", (0,)), 0), (("measure", 1, 1, 0), 0)]),
     ("", _ENT + [(("measure", 1, 1, 0), 0), (("bra", (1,)), 1)])],
    # different NUMBER of post-selected qubits: one, none, two
    [("", _HH + [(("bra", (0,)), 0), (("measure", 1, 1, 0), 0)]),
     ("", _HH + [(("measure", 2, 1, 0), 0)]),
     ("", _HH + [(("bra", (0, 1)), 0)])],
    # different SCALARS (F50): Ket(0) >> H >> Measure(), scalar(0.5) @ the same, MixedScalar(4) @ Ket(0) >> X >> Measure()
    [("", [(("ket", (0,)), 0), (("gate", "H"), 0), (("measure", 1, 1, 0), 0)]),
     ("", [(("scalar", 0, 0), 0), (("ket", (0,)), 0), (("gate", "H"), 0), (("measure", 1, 1, 0), 0)]),
     ("", [(("scalar", 7, 1), 0), (("ket", (0,)), 0), (("gate", "X"), 0), (("measure", 1, 1, 0), 0)])],
    # different POST-PROCESSING and number of bits: none, NOT, XOR of two measured bits
    [("", [(("ket", (1,)), 0), (("measure", 1, 1, 0), 0)]),
     ("", [(("ket", (1,)), 0), (("measure", 1, 1, 0), 0), (("cgate", "NOT"), 0)]),
     ("", [(("ket", (1, 0)), 0), (("gate", "H"), 1), (("measure", 2, 1, 0), 0), (("cgate", "XOR"), 0)])],
    # a batch of ONE circuit through the keyword convention (the result is not a list)
    [("", _ENT + [(("measure", 1, 1, 0), 0), (("bra", (1,)), 1)])],
    # the same scalar on every member, post-selections differ
    [("", [(("scalar", 1, 0), 0)] + _ENT + [(("bra", (0,)), 1), (("measure", 1, 1, 0), 0)]),
     ("", [(("scalar", 1, 0), 0)] + _ENT + [(("bra", (1,)), 1), (("measure", 1, 1, 0), 0)])],
]


def as_list(results, k):
    """eval / get_counts return the bare result for one circuit, a list for several (circuit.py:265, 331)."""
    return [results] if k == 1 and not isinstance(results, list) else list(results)


def batch_stream(rep, drv, n, n_local, Circuit, quick=True):
    """Batches of one to four circuits through the exact backend in one call (see the module docstring)."""
    brng = random.Random(1000003 * rep.seed + 1313)
    cache = {}

    def model_of(spec):
        tok = T.spec_tokens(spec)
        if tok not in cache:
            cache[tok] = drv.ask_many(["totk " + tok])[0]
        return cache[tok]

    def inside(spec):
        if exotic(spec):
            return False
        head, fields = T.parse_fields(model_of(spec))
        return head == "ok" and fields.get("viol", "-").split("@")[0] == "-"

    conventions = ["eval", "get_counts", "Circuit.get_counts", "tk.get_counts"]
    for b in range(len(BATCH_WITNESSES) + n):
        info = {}
        if b < len(BATCH_WITNESSES):
            specs, info = [s for s in BATCH_WITNESSES[b] if inside(s)], dict(mode="witness")
            if len(specs) != len(BATCH_WITNESSES[b]):
                rep.disagree("batch", dict(batch=repr(BATCH_WITNESSES[b])), "pinned batch inside the fragment",
                             "the model puts a member outside")
        else:
            specs = T.gen_batch(random.Random(brng.getrandbits(64)), ok=inside, info=info)
        rep.count("batch:mode=" + info["mode"])
        if not specs:
            rep.count("batch:empty")
            continue
        # every batch: eval and the tk.Circuit level; every other batch one of the two spellings of get_counts
        convs = ["eval", "tk.get_counts"] + ([conventions[1 + (b // 2) % 2]] if b % 2 == 0 or not quick else [])
        params = [dict(), dict(n_shots=1000), dict(n_shots=2 ** 13, seed=7), dict(seed=0)][b % 4]
        n_local = batch_case(rep, specs, info, convs, params, n_local, model_of, Circuit)


def batch_case(rep, specs, info, convs, params, n_local, model_of, Circuit):
    k = len(specs)
    circuits = [T.build(s) for s in specs]
    case = dict(batch=[repr(s) for s in specs], circuits=[str(c) for c in circuits], mode=info["mode"],
                params=repr(params))
    rep.count("batch:size=%d" % k)
    # ---- every member alone: export (== model, the correspondence on this generator's circuits too),
    #      the exact simulation of the export with its OWN side data, the local evaluation
    ts, want, want_sel, quirk, quirk_sel = [], [], [], [], []
    for i, (spec, c) in enumerate(zip(specs, circuits)):
        one = dict(case, member=i)
        try:
            t = c.to_tk()
        except Exception as exc:
            rep.fail("to_tk:raises:" + err_class(exc), one, "to_tk raises on a circuit inside the proved fragment: %r" % exc)
            return n_local
        head, fields = T.parse_fields(model_of(spec))
        real, mine = "ok " + T.real_export_tokens(t), "ok " + T.model_export_tokens(fields)
        if real != mine:
            rep.disagree("totk", one, real[:600], mine[:600])
        rep.count("batch_members_exported")
        try:
            raw = T.simulate_tk(t)
            want.append(T.exported_distribution(t, raw))
            want_sel.append(T.selected_distribution(t, raw))
        except Exception as exc:
            rep.fail("to_tk:export_has_no_meaning", one, "exported %r has no meaning (%s)" % (t, err_class(exc)))
            return n_local
        ts.append(t)
        if n_local > 0 and i == min(1, k - 1):     # one member of every batch while the budget lasts
            n_local -= 1
            try:
                ref = reference(c)
            except Exception as exc:
                if is_f3(exc) and has_override(spec):
                    rep.count("batch_local_f3")
                    continue
                rep.fail("reference_eval_raises:" + err_class(exc), one, repr(exc)[:200])
                continue
            rep.count("batch_members_local")
            if not close(want[-1], ref):
                rep.fail("to_tk:meaning", one, "exported %r means %s, the circuit evaluates to %s (inside the "
                         "proved fragment)" % (t, show(want[-1]), show(ref)))
                return n_local
    for i, t in enumerate(ts):      # what a member would give with the scalar of the FIRST circuit (F50)
        raw = T.simulate_tk(t)
        quirk.append(T.exported_distribution(t, raw, scalar=ts[0].scalar))
        quirk_sel.append(T.selected_distribution(t, raw, scalar=ts[0].scalar))
    differs = [name for name, key in [
        ("post_selection", lambda t: sorted((int(a), int(b)) for a, b in t.post_selection.items())),
        ("n_post_selected", lambda t: len(t.post_selection)),
        ("scalar", lambda t: complex(t.scalar)),
        ("post_processing", lambda t: T.pp_tokens(t.post_processing)),
        ("n_bits", lambda t: len(t.bits)),
        ("n_qubits", lambda t: t.n_qubits)] if any(key(t) != key(ts[0]) for t in ts[1:])]
    for name in differs:
        rep.count("batch:differs=" + name)
    if not differs:
        rep.count("batch:differs=nothing")
    rep.case("batch " + " | ".join(T.spec_tokens(s) for s in specs), k >= 2 and bool(differs))
    rep.sample(dict(batch=case["circuits"], mode=info["mode"]))

    def verdict(conv, i, good, same_with_first_scalar, text):
        if good:
            return
        one = dict(case, convention=conv, member=i)
        if i > 0 and complex(ts[i].scalar) != complex(ts[0].scalar) and same_with_first_scalar:
            # tk.py:132-135 multiplies every member's counts by `self.scalar`, the FIRST circuit's (F50)
            rep.fail("backend:batch_scalar_of_first", one, text + " — that is member %d's distribution times "
                     "the scalar %s of member 0 instead of its own %s" % (i, ts[0].scalar, ts[i].scalar))
        else:
            rep.fail("backend:batch_" + conv, one, text)

    be = T.ExactBackend()
    for conv in convs:
        rep.count("batch:convention=" + conv)
        try:
            if conv == "eval":
                out = as_list(circuits[0].eval(*circuits[1:], backend=be, **params), k)
                got = [r.array for r in out]
            elif conv == "get_counts":
                got = as_list(circuits[0].get_counts(*circuits[1:], backend=be, **params), k)
            elif conv == "Circuit.get_counts":
                got = as_list(Circuit.get_counts(circuits[0], *circuits[1:], backend=be, **params), k)
            else:
                got = list(ts[0].get_counts(*ts[1:], backend=be, **params))
        except Exception as exc:
            rep.fail("backend:batch_%s_raises:%s" % (conv, err_class(exc)), dict(case, convention=conv), repr(exc)[:200])
            continue
        if len(got) != k:
            rep.fail("backend:batch_" + conv, dict(case, convention=conv), "%d results for %d circuits" % (len(got), k))
            continue
        for i in range(k):
            if conv == "eval":
                verdict(conv, i, close(got[i], want[i]), close(got[i], quirk[i]),
                        "%s(*others, backend) gives %s for member %d; alone, and by exact simulation of its "
                        "export, it is %s" % (conv, show(got[i]), i, show(want[i])))
            else:
                w, q = (want_sel, quirk_sel) if conv == "tk.get_counts" else (want, quirk)
                verdict(conv, i, counts_close(got[i], counts_of(w[i])), counts_close(got[i], counts_of(q[i])),
                        "%s(*others, backend) gives %s for member %d; alone, and by exact simulation of its "
                        "export, it is %s" % (conv, sorted(got[i].items()), i, sorted(counts_of(w[i]).items())))
            rep.count("batch_results_checked")
    return n_local


# --------------------------------------------------------------------------- import of tket circuits

def fromtk_compare(rep, drv, items, Circuit, origin):
    """Real `Circuit.from_tk(t)` against the model for a batch of discopy tk.Circuits: domain,
    codomain, boxes, offsets, or the class of the exception."""
    toks, kept = [], []
    for case, t in items:
        try:
            toks.append("fromtk " + T.tkin_tokens(t))
            kept.append((case, t))
        except (AssertionError, ValueError):
            rep.count("fromtk_not_encodable")      # parameter off the 1/8 lattice
    for (case, t), ans in zip(kept, drv.ask_many(toks)):
        try:
            real = "ok " + T.import_tokens(Circuit.from_tk(t))
        except Exception as exc:
            real = "err " + err_class(exc)
        ans, _, flags = ans.partition(" wf=")
        flags = dict(kv.split("=") for kv in ("wf=" + flags).split()) if flags else {}
        if real != ans:
            rep.disagree("fromtk", case, real[:700], ans[:700])
        # the hypotheses of the Lean theorems on this input
        if origin != "malformed" and flags.get("wf") != "1":
            rep.disagree("fromtk", case, "generated tket circuit is well-formed", "TkIn.wellFormed = false")
        fits = len(t.post_processing.dom) == len(t.bits) - len(t.post_selection)
        if flags.get("wf") == "1" and (flags.get("imp") != "1" or (fits and not real.startswith("ok"))):
            rep.disagree("fromtk", case, "from_tk_importable / from_tk_total on a well-formed input",
                         "imp=%s real=%s" % (flags.get("imp"), real[:60]))
        late = T.gate_after_postselected_measure(T.raw_commands(t), {int(k) for k in t.post_selection})
        if flags.get("final") != ("0" if late else "1"):
            rep.disagree("fromtk", case, "psFinal = %s" % (not late), "final=%s" % flags.get("final"))
        rep.count("fromtk_checked:" + origin)
        rep.count("fromtk_wellformed:" + flags.get("wf", "?"))
        rep.count("fromtk:" + (real.split()[1] if real.startswith("err") else "ok"))


def roundtrip_compare(rep, drv, rounds):
    """`FromToRoundTrip` (lean/Props/C13.lean, stated, not proved) evaluated on the model."""
    for (case, _), ans in zip(rounds, drv.ask_many(["tkround " + r for _, r in rounds])):
        if not ans.startswith("ok a= "):
            rep.disagree("roundtrip", case, "round trip defined inside the fragment", ans[:200])
            continue
        a, b = ans[len("ok a= "):].split(" | b= ")
        why = T.roundtrip_failure(T.parse_spec(T.parse_fields("ok " + a)[1]), T.parse_spec(T.parse_fields("ok " + b)[1]))
        if why:
            rep.disagree("roundtrip", case, "canon(from_tk(to_tk(c))) is canon(c) up to naming", why)
        rep.count("roundtrip_statement_checked")


def malformed_stream(rep, rng, drv, n, Circuit):
    """Inputs from_tk must refuse (or on which its behaviour is at least the model's): real == model."""
    items = []
    for _ in range(n):
        t, desc = T.gen_tk_malformed(rng)
        items.append((dict(tket=desc), t))
        rep.count("malformed:" + desc.split(":")[0])
    fromtk_compare(rep, drv, items, Circuit, "malformed")


def import_ps_stream(rep, rng, drv, n, n_eval, Circuit, max_units):
    """discopy tk.Circuits with post-selected bits, built directly: model correspondence for all of
    them and, for the first `n_eval` with at most `max_units` units, the property (the imported
    circuit evaluates to the exactly simulated, post-selected distribution)."""
    items = []
    try:
        _import_ps_loop(rep, rng, n, n_eval, Circuit, max_units, items)
    finally:
        fromtk_compare(rep, drv, items, Circuit, "postselected")


def ps_witnesses():
    """Fixed post-selected tket circuits replayed on every run (notes/finding_F33.md)."""
    from discopy.quantum import tk as dtk
    return [
        # F33  a gate after a post-selected measurement
        (dtk.Circuit(1, 1, post_selection={0: 0}).H(0).Measure(0, 0).H(0),
         "tk.Circuit(1, 1, post_selection={0: 0}).H(0).Measure(0, 0).H(0)", True),
        # F33  a SWAP moves another state onto the measured wire
        (dtk.Circuit(2, 2, post_selection={0: 1}).X(0).Measure(0, 0).SWAP(0, 1).Measure(1, 1),
         "tk.Circuit(2, 2, post_selection={0: 1}).X(0).Measure(0, 0).SWAP(0, 1).Measure(1, 1)", True),
        # post-selected bit below and above a measured bit (F12/F13 shapes, fixed), no late gate
        (dtk.Circuit(3, 3, post_selection={0: 1, 2: 0}).X(0).H(1).CX(1, 2).Measure(0, 0).Measure(1, 1).Measure(2, 2),
         "tk.Circuit(3, 3, post_selection={0: 1, 2: 0}).X(0).H(1).CX(1, 2).Measure(0, 0).Measure(1, 1).Measure(2, 2)", False),
    ]


def _import_ps_loop(rep, rng, n, n_eval, Circuit, max_units, items):
    wit = ps_witnesses()
    n_eval += len(wit)
    for k in range(n + len(wit)):
        t, desc, late = wit[k] if k < len(wit) else T.gen_tk_ps(rng, max_qubits=3, late_gate=0.08)
        case = dict(tket=desc)
        items.append((case, t))
        rep.count("import:postselected" + ("_late_gate" if late else ""))
        if n_eval <= 0 or t.n_qubits + len(t.bits) - len(t.post_selection) > max_units:
            rep.case("tkps " + desc, len(t.post_selection) > 0)
            continue
        n_eval -= 1
        rep.count("import:postselected_evaluated")
        try:
            d = Circuit.from_tk(t)
        except Exception as exc:
            rep.fail(from_tk_sig(t, exc), case, "from_tk raises %s" % repr(exc)[:160])
            rep.case("tkps " + desc, False)
            continue
        rep.case("tkps " + desc, len(t.post_selection) > 0)
        want = T.exported_distribution(t)
        try:
            got = d.eval(mixed=True).array
        except Exception as exc:
            rep.fail("from_tk:eval_raises:" + err_class(exc), case, repr(exc)[:200])
            continue
        if not close(got, want):
            sig = from_tk_sig(t)
            rep.fail("from_tk:distribution" if sig == "from_tk:value" else sig, case,
                     "imported circuit gives %s, the tket circuit %s" % (show(got), show(want)))


def import_stream(rep, rng, drv, n, Circuit, max_units):
    items = []
    try:
        _import_loop(rep, rng, n, Circuit, max_units, items)
    finally:
        fromtk_compare(rep, drv, items, Circuit, "pytket")


def _import_loop(rep, rng, n, Circuit, max_units, items):
    for k in range(n):
        measure = k % 3 == 2
        circ, desc = T.gen_tk(rng, measure=measure, swap=(rng.random() < 0.15),
                              max_qubits=(max_units + 1) // 2 if measure else 4)
        case = dict(tket=desc)
        items.append((case, T_upgrade(circ)))
        rep.count("import:" + ("measured" if measure else "unitary"))
        try:
            d = Circuit.from_tk(circ)
        except Exception as exc:
            rep.fail(from_tk_sig(circ, exc), case, "from_tk raises %s" % repr(exc)[:160])
            rep.case("tk " + desc, False)
            continue
        rep.case("tk " + desc, True)
        nq = circ.n_qubits
        if not measure:
            # Ket(0)^n >> U >> Discard^n : the middle part is the unitary
            body = d[nq:len(d) - nq]
            try:
                u = body.eval().array.reshape(2 ** nq, 2 ** nq).T
            except Exception as exc:
                rep.fail("from_tk:body_eval_raises:" + err_class(exc), case, repr(exc)[:200])
                continue
            want_u = circ.get_unitary()
            # the property compares mixed evaluations: the channel U (x) conj(U), blind to a global phase
            if not close(np.kron(u, u.conj()), np.kron(want_u, want_u.conj())):
                sig = from_tk_sig(circ)
                rep.fail("from_tk:unitary" if sig == "from_tk:value" else sig, case,
                         "imported circuit computes another channel than pytket's unitary")
            elif not close(u, want_u):
                rep.count("import_global_phase_differs")   # was non-zero before the Y fix (F17)
            continue
        want = T.exported_distribution(T_upgrade(circ))
        try:
            got = d.eval(mixed=True).array
        except Exception as exc:
            if is_f3(exc):
                rep.fail("cqmap:discard_dim", case, "evaluating from_tk(...) raises AttributeError (F3)")
            else:
                rep.fail("from_tk:eval_raises:" + err_class(exc), case, repr(exc)[:200])
            continue
        if not close(got, want):
            sig = from_tk_sig(circ)
            rep.fail("from_tk:distribution" if sig == "from_tk:value" else sig, case, "imported circuit gives %s, the tket circuit %s" % (
                show(got), show(want)))


def T_upgrade(circ):
    from discopy.quantum import tk
    return tk.Circuit.upgrade(circ)
