"""C02 — diagrams obey the strict dagger-monoidal and sum laws as equalities.

Streams
  eval   model correspondence for >>, @, [::-1], [i:j] (monoidal + rigid), all five fields
  law    both sides of every law evaluated on the REAL code and compared with `==`
         (monoidal + rigid, also through the model's `eqv`/`seqv`; cat arrows, tensor.Diagram,
         quantum Circuit, zx.Diagram on the real code only)
  seval  model correspondence for Sum(...), +, >>, @, dagger on sums of 0-3 terms
  zoo    the same laws on diagrams built from EVERY box subclass of every module through its own
         constructor with all flag combinations (grammar Words with a domain, Cup/Cap/Swap of each
         class, Measure/Encode/MixedState/Discard/Bits/Ket/Bra/ClassicalGate/Copy/Match/Controlled/
         rotations/scalars on bit AND qubit wires, zx spiders/Had/Scalar, tensor Spider/Bubble,
         biclosed rule boxes, cartesian Copy/Discard/Swap) and from the class-level constructors
         (cups, caps, swap, permutation): box level exhaustively, then inside grown diagrams; `==`
         AND dom/cod/boxes/offsets read by key (harness/zoolib.py)
"""
import random

from common import Driver, Report, ser_result, lean_obligations, err_class
from core import Family, Gen, tok_expr, expr_size
from exprgen import ExprGen
from sums import SumGen, run_sum, tok_sexpr, ser_sum_result
from zoolib import Zoo, ZOO_NAMES, strong_eq, scan_failure, tkey, sbox_spec, special_sweep

PROP = "C02"
F15 = "sum_left_distrib_term_order"


class KeyedByRepr:
    """dict keyed by the repr of (unhashable) expression specs."""

    def __init__(self):
        self.d = {}

    def __setitem__(self, e, v):
        self.d[repr(e)] = v

    def __getitem__(self, e):
        return self.d[repr(e)]


# --------------------------------------------------------------------------- law tables

def diagram_laws(a, b, c, u, v, w, ty):
    """a: X->Y, b: Y->Z, c: Z->W composable (unless the case is a malformed one); u, v, w free.
    `ty[e]` = (dom, cod) of the sub-expression as specs.  Yields (law, lhs, rhs)."""
    T, N, D = (lambda x, y: ("then", x, y)), (lambda x, y: ("tensor", x, y)), (lambda x: ("dagger", x))
    I = lambda t: ("id", list(t))
    yield "then_assoc", T(T(a, b), c), T(a, T(b, c))
    yield "id_then", T(I(ty[a][0]), a), a
    yield "then_id", T(a, I(ty[a][1])), a
    yield "tensor_assoc", N(N(u, v), w), N(u, N(v, w))
    yield "tensor_unit_l", N(I([]), u), u
    yield "tensor_unit_r", N(u, I([])), u
    yield "tensor_eq_whisker", N(u, v), T(N(u, I(ty[v][0])), N(I(ty[u][1]), v))
    yield "dagger_dagger", D(D(u)), u
    yield "dagger_id", D(I(ty[u][0])), I(ty[u][0])
    yield "dagger_then", D(T(a, b)), T(D(b), D(a))
    yield "dagger_then3", D(T(T(a, b), c)), T(D(c), T(D(b), D(a)))


def slice_laws(u, n):
    for i in range(-n - 2, n + 3):
        yield "slice_then", ("then", ("slice", u, None, i), ("slice", u, i, None)), u


def sum_laws(s, t, r, q, p, d, ty):
    """s, t: X->Y; r: Y->Z; q: W->X; p free (sums); d: W->X a diagram expression.
    ty[x] = (dom, cod, nterms)."""
    A, T, N, D = (lambda x, y: ("sadd", x, y)), (lambda x, y: ("sthen", x, y)), \
        (lambda x, y: ("stensor", x, y)), (lambda x: ("sdagger", x))
    Z = lambda dom, cod: ("smk", [], list(dom), list(cod))
    X, Y = ty[s][0], ty[s][1]
    yield "add_unit_l", A(Z(X, Y), s), s
    yield "add_unit_r", A(s, Z(X, Y)), s
    yield "add_assoc", A(A(s, t), s), A(s, A(t, s))
    yield "then_distrib_r", T(A(s, t), r), A(T(s, r), T(t, r))
    yield "then_distrib_l", T(q, A(s, t)), A(T(q, s), T(q, t))
    yield "tensor_distrib_r", N(A(s, t), p), A(N(s, p), N(t, p))
    yield "tensor_distrib_l", N(p, A(s, t)), A(N(p, s), N(p, t))
    yield "dagger_distrib", D(A(s, t)), A(D(s), D(t))
    yield "sum_dagger_dagger", D(D(s)), s
    yield "then_empty_l", T(Z(ty[q][0], X), s), Z(ty[q][0], Y)
    yield "then_empty_r", T(s, Z(Y, ty[r][1])), Z(X, ty[r][1])
    yield "tensor_empty", N(s, Z(ty[p][0], ty[p][1])), Z(X + ty[p][0], Y + ty[p][1])
    # a diagram composed with / added to sums is wrapped as a one-term sum
    yield "diagram_then_distrib", T(("ssingle", d), A(s, t)), \
        A(T(("ssingle", d), s), T(("ssingle", d), t))
    yield "diagram_plus_unit", A(("ssingle", d), Z(ty[q][0], X)), ("smk", [d], None, None)
    yield "diagram_tensor_distrib", N(("ssingle", d), A(s, t)), \
        A(N(("ssingle", d), s), N(("ssingle", d), t))


# --------------------------------------------------------------------------- running a law

def eq_answer(lhs_fn, rhs_fn, keep=None):
    """Canonical answer in the driver's `eqv` format: first failing side's error, else ok 0|1."""
    try:
        x = lhs_fn()
    except Exception as exc:  # noqa
        return "err " + err_class(exc)
    try:
        y = rhs_fn()
    except Exception as exc:  # noqa
        return "err " + err_class(exc)
    if keep is not None:
        keep[:] = [x, y]
    return "ok 1" if bool(x == y) else "ok 0"


def same_multiset(xs, ys):
    ys = list(ys)
    for x in xs:
        for k, y in enumerate(ys):
            if x == y:
                del ys[k]
                break
        else:
            return False
    return not ys


# --------------------------------------------------------------------------- semantic classes

class Sem:
    """A semantic diagram class over one atomic wire type, with a few generators of our own."""

    has_dagger = True

    def __init__(self, name):
        self.name = name
        if name == "tensor":
            from discopy import tensor as m
            self.cls, self.ty = m.Diagram, (lambda n: m.Dim(*([2] * n)))
            B = lambda nm, i, o: m.Box(nm, self.ty(i), self.ty(o),
                                       [(7 * k + len(nm)) % 5 - 2 for k in range(2 ** (i + o))])
            self.gens = [B("f", 1, 2), B("g", 2, 1), B("h", 1, 1), B("s", 0, 0), B("e", 1, 0),
                         B("k", 0, 1), m.Swap(self.ty(1), self.ty(1)), m.Cup(self.ty(1), self.ty(1)),
                         m.Cap(self.ty(1), self.ty(1)), B("h", 1, 1).dagger()]
        elif name == "circuit":
            from discopy.quantum import circuit as m, gates as g
            self.cls, self.ty = m.Circuit, (lambda n: m.qubit ** n)
            self.gens = [g.H, g.X, g.Z, g.S, g.Rz(0.25), g.Rx(0.5), g.CX, g.CZ, g.SWAP, g.Ket(0),
                         g.Ket(1, 0), g.Bra(1), g.CRz(0.125), g.scalar(0.5), g.T.dagger()]
        elif name == "zx":
            from discopy.quantum import zx as m
            self.cls, self.ty = m.Diagram, (lambda n: m.PRO(n))
            self.gens = [m.Z(1, 2, 0.25), m.Z(2, 1), m.X(1, 1, 0.5), m.H, m.SWAP, m.Z(0, 1),
                         m.X(1, 0, 0.75), m.Z(2, 2, 0.125), m.X(0, 2), m.scalar(0.5)]
        elif name == "biclosed":
            from discopy import biclosed as m
            self.cls, self.ty = m.Diagram, (lambda n: m.Ty(*(["x"] * n)))
            B = lambda nm, i, o, **kw: m.Box(nm, self.ty(i), self.ty(o), **kw)
            self.gens = [B("f", 1, 2), B("g", 2, 1), B("h", 1, 1), B("s", 0, 0), B("e", 1, 0),
                         B("k", 0, 1), B("m", 2, 2, data=[1, 2]), B("h", 1, 1).dagger()]
        elif name == "cartesian":
            from discopy import cartesian as m
            self.cls, self.ty = m.Diagram, (lambda n: m.PRO(n))
            self.has_dagger = False          # cartesian boxes (python functions) have no dagger
            self.gens = [m.Box("c", 1, 2, lambda x: (x, x)), m.Box("a", 2, 1, lambda x, y: x + y),
                         m.Box("u", 1, 1, lambda x: x + 1), m.Box("k", 0, 1, lambda: 7),
                         m.Box("m", 2, 2, lambda x, y: (y, x + y)), m.COPY, m.DISCARD, m.SWAP]
        else:
            raise ValueError(name)
        self.endo = [b for b in self.gens if len(b.dom) == len(b.cod) and len(b.dom) > 0]

    def id(self, n):
        return self.cls.id(self.ty(n))

    def grow(self, rng, n, depth, gens=None, maxw=5):
        """Through the scanning constructor `cls(dom, cod, boxes, offsets)` (no >> / @ involved)."""
        gens = gens or self.gens
        dom, boxes, offsets = n, [], []
        for _ in range(depth):
            ok = [b for b in gens if len(b.dom) <= n and n - len(b.dom) + len(b.cod) <= maxw]
            if not ok:
                break
            b = rng.choice(ok)
            off = rng.randint(0, n - len(b.dom))
            boxes.append(b)
            offsets.append(off)
            n = n - len(b.dom) + len(b.cod)
        if len(boxes) == 1 and dom == len(boxes[0].dom) and rng.random() < 0.5:
            return boxes[0]                       # a bare box instance
        return self.cls(self.ty(dom), self.ty(n), boxes, offsets)

    def plain(self, v):
        """A bare box is compared through the one-box diagram that wraps it."""
        from discopy import cat
        if isinstance(v, cat.Box) and not isinstance(v, cat.Sum):
            return self.cls(v.dom, v.cod, list(v.boxes), list(v.offsets))
        return v

    def eq(self, x, y):
        return bool(self.plain(x) == self.plain(y))


def sem_laws(S, rng):
    """Yields (law, lhs thunk, rhs thunk, nboxes, kind)."""
    n0 = rng.randint(0, 3)
    a = S.grow(rng, n0, rng.randint(0, 3))
    b = S.grow(rng, len(a.cod), rng.randint(0, 3))
    c = S.grow(rng, len(b.cod), rng.randint(0, 2))
    u = S.grow(rng, rng.randint(0, 2), rng.randint(0, 3), maxw=3)
    v = S.grow(rng, rng.randint(0, 2), rng.randint(0, 3), maxw=3)
    w = S.grow(rng, rng.randint(0, 2), rng.randint(0, 2), maxw=3)
    I = lambda t: S.cls.id(t)
    unit = S.ty(0)
    nb = len(a) + len(b) + len(c)
    yield "then_assoc", lambda: (a >> b) >> c, lambda: a >> (b >> c), nb, "d"
    yield "lshift", lambda: c << b << a, lambda: a >> b >> c, nb, "d"
    yield "id_then", lambda: I(a.dom) >> a, lambda: a, len(a), "d"
    yield "then_id", lambda: a >> I(a.cod), lambda: a, len(a), "d"
    nb = len(u) + len(v) + len(w)
    yield "tensor_assoc", lambda: (u @ v) @ w, lambda: u @ (v @ w), nb, "d"
    yield "tensor_unit_l", lambda: I(unit) @ u, lambda: u, len(u), "d"
    yield "tensor_unit_r", lambda: u @ I(unit), lambda: u, len(u), "d"
    yield "tensor_eq_whisker", lambda: u @ v, lambda: u @ I(v.dom) >> I(u.cod) @ v, len(u) + len(v), "d"
    if S.has_dagger:
        yield "dagger_dagger", lambda: a[::-1][::-1], lambda: a, len(a), "d"
        yield "dagger_method", lambda: a.dagger(), lambda: a[::-1], len(a), "d"
        yield "dagger_id", lambda: I(a.dom)[::-1], lambda: I(a.dom), 0, "d"
        yield "dagger_then", lambda: (a >> b)[::-1], lambda: b[::-1] >> a[::-1], len(a) + len(b), "d"
    ab = a >> b
    for i in range(-len(ab) - 2, len(ab) + 3):
        yield "slice_then", (lambda i=i: ab[:i] >> ab[i:]), (lambda: ab), len(ab), "d"
    # sums of endomorphisms of a common width
    k = rng.randint(1, 3)
    endo = lambda: S.plain(S.grow(rng, k, rng.randint(0, 3), gens=[g for g in S.endo if len(g.dom) <= k]))
    s1, s2, s3, s4 = endo(), endo(), endo(), endo()
    zero = S.cls.sum([], S.ty(k), S.ty(k))
    s, t = s1 + s2, S.cls.sum([s3])
    r, q = s4 + s1, s2 + s4
    yield "add_unit_l", lambda: zero + s, lambda: s, 2, "s"
    yield "add_unit_r", lambda: s + zero, lambda: s, 2, "s"
    yield "then_distrib_r", lambda: (s + t) >> r, lambda: (s >> r) + (t >> r), 3, "s"
    yield "then_distrib_l", lambda: q >> (s + t), lambda: (q >> s) + (q >> t), 3, "s:%d,%d,%d" % (2, 2, 1)
    yield "diagram_then_distrib", lambda: s4 >> (s + t), lambda: (s4 >> s) + (s4 >> t), 3, "s"
    yield "tensor_distrib_r", lambda: (s + t) @ r, lambda: (s @ r) + (t @ r), 3, "s"
    yield "tensor_distrib_l", lambda: q @ (s + t), lambda: (q @ s) + (q @ t), 3, "s:%d,%d,%d" % (2, 2, 1)
    if S.has_dagger:
        yield "dagger_distrib", lambda: (s + t)[::-1], lambda: s[::-1] + t[::-1], 3, "s"
    yield "then_empty_l", lambda: zero >> s, lambda: zero, 2, "s"
    yield "then_empty_r", lambda: s >> zero, lambda: zero, 2, "s"
    yield "diagram_plus_unit", lambda: s1 + zero, lambda: S.cls.sum([s1]), 1, "s"


# --------------------------------------------------------------------------- cat arrows

def cat_laws(rng):
    from discopy.cat import Ob, Box, Id, Arrow, Sum
    obs = [Ob(n) for n in "xyzw"]

    def grow(dom, depth):
        scan, boxes = dom, []
        for _ in range(depth):
            cod = rng.choice(obs)
            b = Box("f%d" % rng.randint(0, 3), scan, cod, **({"data": rng.choice([1, [2]])}
                                                            if rng.random() < 0.2 else {}))
            if rng.random() < 0.25:
                b = Box(b.name, cod, scan, data=b.data).dagger()
            boxes.append(b)
            scan = cod
        if len(boxes) == 1 and rng.random() < 0.5:
            return boxes[0]
        return Arrow(dom, scan, boxes)
    a = grow(rng.choice(obs), rng.randint(0, 3))
    b = grow(a.cod, rng.randint(0, 3))
    c = grow(b.cod, rng.randint(0, 2))
    yield "then_assoc", lambda: (a >> b) >> c, lambda: a >> (b >> c), len(a) + len(b) + len(c), "d"
    yield "id_then", lambda: Id(a.dom) >> a, lambda: a, len(a), "d"
    yield "then_id", lambda: a >> Id(a.cod), lambda: a, len(a), "d"
    yield "dagger_dagger", lambda: a[::-1][::-1], lambda: a, len(a), "d"
    yield "dagger_id", lambda: Id(a.dom)[::-1], lambda: Id(a.dom), 0, "d"
    yield "dagger_then", lambda: (a >> b)[::-1], lambda: b[::-1] >> a[::-1], len(a) + len(b), "d"
    ab = a >> b
    for i in range(-len(ab) - 2, len(ab) + 3):
        yield "slice_then", (lambda i=i: ab[:i] >> ab[i:]), (lambda: ab), len(ab), "d"
    x, y = a.dom, a.cod

    def par():  # another arrow x -> y
        m = grow(x, rng.randint(0, 2))
        return m >> Box("c", m.cod, y)
    s, t, zero = Sum([a, par()]), Sum([par()]), Sum([], x, y)
    r = Sum([b, b])
    q = Sum([Id(x), Box("l", x, x)])
    yield "add_unit_l", lambda: zero + s, lambda: s, 2, "s"
    yield "add_unit_r", lambda: s + zero, lambda: s, 2, "s"
    yield "then_distrib_r", lambda: (s + t) >> r, lambda: (s >> r) + (t >> r), 3, "s"
    yield "then_distrib_l", lambda: q >> (s + t), lambda: (q >> s) + (q >> t), 3, "s:2,2,1"
    yield "diagram_then_distrib", lambda: Box("l", x, x) >> (s + t), \
        lambda: (Box("l", x, x) >> s) + (Box("l", x, x) >> t), 3, "s"
    yield "dagger_distrib", lambda: (s + t)[::-1], lambda: s[::-1] + t[::-1], 3, "s"
    yield "then_empty_l", lambda: Sum([], x, x) >> s, lambda: zero, 2, "s"
    yield "then_empty_r", lambda: s >> Sum([], y, x), lambda: Sum([], x, x), 2, "s"



# --------------------------------------------------------------------------- the zoo (zoolib.py)


def spec_ty_tokens(t):
    objs = list(t.objects)
    return [str(len(objs))] + ["%s %d" % ("".join(repr(x.name).split()), getattr(x, "z", 0)) for x in objs]


def srepr(x):
    """repr that cannot fail (a few library __repr__s do on legal values: not C02's business)."""
    if isinstance(x, tuple):
        return "(" + ", ".join(srepr(y) for y in x) + ")"
    try:
        return repr(x)
    except Exception:  # noqa
        try:
            return "<%s %s: %s -> %s, %d boxes>" % (type(x).__name__, getattr(x, "name", ""), x.dom, x.cod, len(x))
        except Exception:  # noqa
            return "<unprintable %s>" % type(x).__name__


def zoo_unary(Z, d, tag="", all_slices=True):
    """Laws with one operand `d` (a bare box, a one-box diagram, a grown diagram, a dagger).
    Yields (law, nboxes, thunk); the thunk returns None when the law holds, else the reason."""
    I = lambda t: Z.cls.id(t)
    n = len(d)
    E = lambda x, y: strong_eq(Z, x, y)
    yield tag + "id_then", n, lambda: E(I(d.dom) >> d, d)
    yield tag + "then_id", n, lambda: E(d >> I(d.cod), d)
    yield tag + "tensor_unit_l", n, lambda: E(I(Z.mk_ty([])) @ d, d)
    yield tag + "tensor_unit_r", n, lambda: E(d @ I(Z.mk_ty([])), d)
    # every cut; the clamped / negative slice points are class-independent (core stream): all of them
    # in the thorough tier, one of each kind in the quick tier
    for i in (range(-n - 2, n + 3) if all_slices else [-1] + list(range(0, n + 1)) + [n + 2]):
        yield tag + "slice_then", n, (lambda i=i: E(d[:i] >> d[i:], d))
    if not Z.dagger_ok(d):
        return
    memo = []

    def dag():
        """d[::-1], evaluated once (a refusal is raised again inside every law that needs it)."""
        if not memo:
            try:
                memo.append((d[::-1], None))
            except Exception as exc:  # noqa
                memo.append((None, exc))
        if memo[0][1] is not None:
            raise memo[0][1]
        return memo[0][0]

    def objects():
        t = dag()
        if tkey(t.dom) != tkey(d.cod) or tkey(t.cod) != tkey(d.dom):
            return "dagger is %r -> %r by key, the operand is %r -> %r" % (
                tkey(t.dom), tkey(t.cod), tkey(d.dom), tkey(d.cod))
        if not (t.dom == d.cod and t.cod == d.dom):
            return "d[::-1].dom == d.cod and d[::-1].cod == d.dom is False"
        return None
    yield tag + "dagger_objects", n, objects
    yield tag + "dagger_welltyped", n, lambda: scan_failure(Z.plain(dag()))
    yield tag + "dagger_dagger", n, lambda: E(dag()[::-1], d)
    yield tag + "dagger_method", n, lambda: E(d.dagger(), dag())
    yield tag + "dagger_plain", n, lambda: E(Z.plain(d)[::-1], dag())
    for k in range(0, n + 1):
        # dagger reverses composition at every cut of d, and the dagger slices back together
        yield tag + "dagger_then_cut", n, (lambda k=k: E(dag(), d[k:][::-1] >> d[:k][::-1]))
        yield tag + "slice_then_of_dagger", n, (lambda k=k: E(dag()[:k] >> dag()[k:], dag()))

    def then_self():
        x = d >> dag()
        if tkey(x.dom) != tkey(d.dom) or tkey(x.cod) != tkey(d.dom):
            return "d >> d[::-1] is %r -> %r by key, expected an endomorphism of %r" % (
                tkey(x.dom), tkey(x.cod), tkey(d.dom))
        y = dag() >> d
        if tkey(y.dom) != tkey(d.cod) or tkey(y.cod) != tkey(d.cod):
            return "d[::-1] >> d is %r -> %r by key, expected an endomorphism of %r" % (
                tkey(y.dom), tkey(y.cod), tkey(d.cod))
        return E(x[::-1], x) or E(y[::-1], y)
    yield tag + "dagger_then_self", 2 * n, then_self


def zoo_sums(Z, d, u):
    """Sum laws on the parallel pair d, e (e = d >> d[::-1] >> d where there is a dagger, else d)."""
    E = lambda x, y: strong_eq(Z, x, y)
    dag = Z.dagger_ok(Z.plain(d))
    try:
        pd, pu = Z.plain(d), Z.plain(u)
        e = pd >> pd[::-1] >> pd if dag else pd
        r = pd[::-1] if dag else Z.cls.id(pd.cod)        # composable after pd
        q = pd[::-1] if dag else Z.cls.id(pd.dom)        # composable before pd
        s = pd + e
        zero = Z.cls.sum([], pd.dom, pd.cod)
        pu + pu
    except Exception as exc:  # noqa  -- forming d + e must not fail
        def reraise(exc=exc):
            raise exc
        yield "sum_construction", 2, reraise
        return
    yield "add_unit_l", 2, lambda: E(zero + s, s)
    yield "add_unit_r", 2, lambda: E(s + zero, s)
    yield "then_distrib_r", 3, lambda: E(s >> r, (pd >> r) + (e >> r))
    yield "diagram_then_distrib", 3, lambda: E(q >> s, (q >> pd) + (q >> e))
    yield "tensor_distrib_r", 3, lambda: E(s @ pu, (pd @ pu) + (e @ pu))
    yield "diagram_tensor_distrib", 3, lambda: E(pu @ s, (pu @ pd) + (pu @ e))
    yield "then_empty", 2, lambda: E(s >> Z.cls.sum([], pd.cod, pd.dom), Z.cls.sum([], pd.dom, pd.dom))
    if not dag:
        return
    yield "dagger_distrib", 2, lambda: E(s[::-1], pd[::-1] + e[::-1])
    yield "sum_dagger_dagger", 2, lambda: E(s[::-1][::-1], s)
    yield "sum_dagger_objects", 2, lambda: (
        None if tkey(s[::-1].dom) == tkey(s.cod) and tkey(s[::-1].cod) == tkey(s.dom)
        else "dagger of the sum is %r -> %r by key" % (tkey(s[::-1].dom), tkey(s[::-1].cod)))


def zoo_nary(Z, a, b, c, u, v, w):
    """a >> b >> c composable, u, v, w free."""
    I = lambda t: Z.cls.id(t)
    E = lambda x, y: strong_eq(Z, x, y)
    nb = len(a) + len(b) + len(c)
    yield "then_assoc", nb, lambda: E((a >> b) >> c, a >> (b >> c))
    yield "lshift", nb, lambda: E(c << b << a, a >> b >> c)
    nt = len(u) + len(v) + len(w)
    yield "tensor_assoc", nt, lambda: E((u @ v) @ w, u @ (v @ w))
    yield "tensor_eq_whisker", len(u) + len(v), lambda: E(u @ v, u @ I(v.dom) >> I(u.cod) @ v)
    yield "whisker_types", len(u), lambda: (
        None if tkey((u @ I(v.dom)).dom) == tkey(u.dom) + tkey(v.dom)
        and tkey((I(v.cod) @ u).cod) == tkey(v.cod) + tkey(u.cod) else "whiskered dom/cod wrong by key")
    ab, uv = a >> b, u @ v
    for i in range(-len(uv) - 1, len(uv) + 2):
        yield "slice_then", len(uv), (lambda i=i: E(uv[:i] >> uv[i:], uv))
    if Z.dagger_ok(ab):
        yield "dagger_then", len(ab), lambda: E(ab[::-1], b[::-1] >> a[::-1])
        if Z.dagger_ok(c):
            yield "dagger_then3", nb, lambda: E((a >> b >> c)[::-1], c[::-1] >> (b[::-1] >> a[::-1]))
    if Z.dagger_ok(uv):
        yield "dagger_dagger", len(uv), lambda: E(uv[::-1][::-1], uv)
        yield "dagger_welltyped", len(uv), lambda: scan_failure(uv[::-1])
        # not claimed: (u @ v)[::-1] == u[::-1] @ v[::-1] (false as ==); its OBJECT part is claimed
        yield "dagger_objects", len(uv), lambda: (
            None if tkey(uv[::-1].dom) == tkey(u.cod) + tkey(v.cod)
            and tkey(uv[::-1].cod) == tkey(u.dom) + tkey(v.dom) else "dagger of a tensor: wrong dom/cod by key")


def zoo_stream(rep, Z, rng, n_random, n_forced_rounds, sample_every=1):
    """`sample_every` = k > 1 (quick tier): the one-box variant / the sum laws of the forced stream run on
    every k-th item (phase from the seed), all slice points only in the thorough tier."""
    onebox_every, full = sample_every, sample_every == 1
    fam = "zoo-" + Z.name

    def run_laws(gen, operands, items):
        for it in items:
            rep.count("zoo-box:%s:%s" % (Z.name, it.cls))
        for law, nb, thunk in gen:
            try:
                why = thunk()
                real = "ok 1" if why is None else "ok 0"
            except Exception as exc:  # noqa
                why, real = "raised %s: %s" % (err_class(exc), str(exc)[:300]), "err"
            rep.count("law-family:" + fam)
            rep.count("law:" + law)
            rep.case("%s %s %s" % (fam, law, operands[:700]), nb >= 2)
            if real == "ok 1":
                continue
            base = law.split(":")[-1]
            masked = [it.quarantine for it in items if it.quarantine and base in it.qlaws]
            if masked:
                sig = masked[0]
            else:
                sig = ("law_fails:" if real == "ok 0" else "law_raises:") + base
            rep.fail(sig, dict(family=fam, law=law, operands=operands[:1500],
                               built_from=[it.label for it in items]),
                     "%s in %s on %s: %s" % (law, fam, operands[:400], why))

    def safe(label, fn):
        """Building an operand on the real code must not fail either."""
        try:
            return fn()
        except Exception as exc:  # noqa
            rep.fail("zoo_construction_raises", dict(family=fam, what=label),
                     "%s in %s raised %s: %s" % (label, fam, err_class(exc), str(exc)[:300]))
            return None

    # (1) box level, exhaustive over the zoo (independent of the seed)
    phase = rng.randrange(onebox_every)
    for idx, it in enumerate(Z.items):
        v = it.value
        if it.kind == "box" and Z.no_dagger(v) and Z.has_dagger:
            # no dagger is defined for this class: the refusal must be a TypeError, not a wrong value
            try:
                got = v.dagger()
                rep.count("dagger-now-available:" + it.cls)
                if strong_eq(Z, got.dagger(), v) or tkey(got.dom) != tkey(v.cod) or tkey(got.cod) != tkey(v.dom):
                    rep.fail("law_fails:dagger_of_undaggerable", dict(family=fam, box=it.label),
                             "%s.dagger() returned %s which is not an involutive, identity-on-objects "
                             "dagger" % (it.label, srepr(got)))
            except TypeError:
                rep.count("dagger-unavailable:" + it.cls)
            except Exception as exc:  # noqa
                rep.fail("law_raises:dagger_of_undaggerable", dict(family=fam, box=it.label),
                         "%s.dagger() raised %s" % (it.label, err_class(exc)))
        run_laws(zoo_unary(Z, v, "box:" if it.kind == "box" else "piece:", full),
                 "%s = %s" % (it.label, srepr(v)), [it])
        if it.kind == "box" and idx % onebox_every == phase:
            # the same through the one-box diagram wrapping it (Diagram.dagger instead of Box.dagger)
            pv = safe("one-box diagram of " + it.label, lambda: Z.plain(v))
            if pv is not None:
                run_laws(zoo_unary(Z, pv, "onebox:", full), "one-box diagram of %s = %s" % (it.label, srepr(v)), [it])
    # (2) every item inside a grown diagram (the item first, then its dagger puts it last)
    for rnd in range(n_forced_rounds):
        for idx, it in enumerate(Z.items):
            used = []
            dom, off = Z.start(rng, first=it)
            d = safe("diagram around " + it.label,
                     lambda: Z.grow(rng, dom, rng.randint(0, 2), first=it, first_off=off, used=used))
            if d is None:
                continue
            run_laws(zoo_unary(Z, d, "", full), "d = " + srepr(d), used)
            if (idx + rnd) % sample_every != phase and not it.quarantine:
                continue
            u = safe("free operand", lambda: Z.grow(rng, Z.start(rng)[0], rng.randint(0, 2), maxw=3, used=used))
            if u is not None:
                run_laws(zoo_sums(Z, d, u), "d = %s; u = %s" % (srepr(d), srepr(u)), used)
    # (3) random composable triples and free triples
    for _ in range(n_random):
        used = []

        def g(dom, depth, maxw=6):
            x = Z.grow(rng, dom, depth, maxw=maxw, used=used)
            if len(x) == 1 and type(x.boxes[0]).__module__.startswith("discopy") \
                    and tkey(x.dom) == tkey(x.boxes[0].dom) and rng.random() < 0.5 \
                    and hasattr(x.boxes[0], "name"):
                return x.boxes[0]                     # a bare box instance
            return x
        def operands():
            a = g(Z.start(rng)[0], rng.randint(0, 3))
            b = g(list(a.cod.objects), rng.randint(0, 3))
            c = g(list(b.cod.objects), rng.randint(0, 2))
            u = g(Z.start(rng)[0][:2], rng.randint(0, 3), 3)
            v = g(Z.start(rng)[0][:2], rng.randint(0, 2), 3)
            w = g(Z.start(rng)[0][:2], rng.randint(0, 2), 3)
            return a, b, c, u, v, w
        ops = safe("random operands", operands)
        if ops is None:
            continue
        a, b, c, u, v, w = ops
        text = "a = %s; b = %s; c = %s; u = %s; v = %s; w = %s" % tuple(srepr(x) for x in ops)
        run_laws(zoo_nary(Z, a, b, c, u, v, w), text, used)
        ab = safe("a >> b", lambda: a >> b)
        if ab is not None:
            run_laws(zoo_unary(Z, ab, "", full), "d = (%s) >> (%s)" % (srepr(a), srepr(b)), [])
        run_laws(zoo_sums(Z, a, u), "d = %s; u = %s" % (srepr(a), srepr(u)), [])


# --------------------------------------------------------------------------- the check

def classify_failure(law, shape, vals):
    """Signature of a law whose two sides are not `==`."""
    if law in ("then_distrib_l", "tensor_distrib_l") and shape is not None and vals:
        nq, ns, nt = shape
        x, y = vals
        try:
            if nq >= 2 and ns >= 1 and nt >= 1 and (x.dom, x.cod) == (y.dom, y.cod) \
                    and same_multiset(x.terms, y.terms):
                return F15
        except Exception:  # noqa
            pass
    return "law_fails:" + law


def run(tier, seed, replay=None):
    rep = Report(PROP, tier, seed)
    quick = tier != "thorough"
    rep.rule = ("law instances over generated composable diagrams (monoidal, rigid: grown layer by "
                "layer, empty domains, scalars, daggered boxes, swaps, cups/caps, bare box "
                "instances) and sums of 0-3 terms; slices at every integer from -n-2 to n+2; "
                "non-trivial = the operands of the law instance carry >= 2 boxes (diagram laws) / "
                ">= 2 terms overall (sum laws); distinct by (law, token form of the left-hand side); "
                "zoo: every box subclass of monoidal/rigid/biclosed/tensor/circuit/zx/cartesian and of the "
                "grammar modules through its own constructor with all flag combinations, on bit AND qubit "
                "wires (distribution keys zoo-box:<module>:<class>, zoo-items:<module>), each one bare, as a "
                "one-box diagram, first in a grown diagram (last in its dagger) and in random composable "
                "triples; sbox: every modelled special box + a random sweep over constructor arguments "
                "against Model/Special.lean")
    rep.partial = [
        "left distributivity of a SUM over a sum (sum x sum) holds only up to the order of the "
        "terms when the left factor has >= 2 terms: theorems then/tensor_distrib_l_partial "
        "(left factor <= 1 term) and _perm (all sums) are proved, the full statement is refuted "
        "in Lean (not_thenDistribL) and reported as known finding F15 by the oracle",
        "tensor.Diagram, quantum Circuit, zx.Diagram, biclosed.Diagram, cartesian.Diagram (no dagger "
        "laws there: python-function boxes have no dagger) and cat.Arrow are exercised by the "
        "law stream on the real code only (the theorems are about the generic Diagram model; the "
        "subclass upgrade is `same data`)",
        "special box subclasses: dagger at box level is modelled and proved (identity on objects for all, "
        "involutive on SBox.Plain); the involution for ALL of them is false for the code as it is "
        "(circuit.Box(_dagger=None), QuantumGate(data=...), Scalar(name=...)/Sqrt with non-real data: "
        "findings F42a-c, refuted in Lean by not_specialDaggerInvolutive*, proved for the patched "
        "dagger by special_dagger_dagger_patched); Sqrt, Bubbles, biclosed rule boxes, Curry and "
        "cartesian pieces are outside Model/Special.lean (oracle on the real code only)",
        "classes for which the library defines no dagger are excluded from the DAGGER laws only: "
        "cartesian boxes (python functions), biclosed FA/BA/FC/BC/FX/BX/Curry and Bubbles (the "
        "inherited cat.Box.dagger refuses their constructor signature with TypeError; counted as "
        "dagger-unavailable:<class>, any other outcome is reported)",
        "a Sum cannot be formed from ClassicalGate(data=None) / cartesian.Box(function=None) because "
        "Sum names itself by repr(terms) and their __repr__ raises (findings F42d, F42e)",
    ]
    rep.assumptions = [
        "box names/data are generator-chosen tokens; numeric data in semantic classes are exact "
        "(ints, dyadic phases) so `==` on arrays compares identical floats",
        "dagger does NOT commute with tensor as == (only up to interchange): not part of the "
        "property, refuted in Lean (dagger_tensor_fails), not checked by the oracle",
        "zoo: phases and scalars are dyadic (multiples of 1/8) so negation/conjugation is exact; "
        "documented-abstract classes (gates.Parametrized, gates.Rotation, zx.Spider) are not "
        "instantiated directly, only through their concrete subclasses",
        "oracle equality in the zoo: == in both directions (a bare box through its one-box diagram) "
        "AND dom/cod/offsets/box dom-cod read by key (name, z; Over/Under recursively)",
    ]
    rep.lean = lean_obligations(PROP, thorough=not quick)
    rng = random.Random(seed)
    drv = Driver()
    fams = {"monoidal": Family("monoidal"), "rigid": Family("rigid")}
    try:
        # ---------------------------------------------------------------- eval correspondence
        n_eval = 250 if quick else 4000
        cases = []
        for k in range(n_eval):
            fam = "rigid" if k % 2 else "monoidal"
            eg = ExprGen(random.Random(rng.getrandbits(64)), rigid=(fam == "rigid"),
                         ops=["then", "tensor", "dagger", "slice"])
            cases.append((fam, eg.expr(eg.rng.randint(1, 4))[0]))
        lines = ["eval " + tok_expr(e) for _, e in cases]
        for (fam, e), line, model in zip(cases, lines, drv.ask_many(lines)):
            real = ser_result(lambda: fams[fam].run(e))
            rep.count("eval:" + fam)
            rep.count("eval-result:" + real.split(" ")[0 if real.startswith("ok") else 1])
            rep.case(line, expr_size(e) >= 2)
            if real != model:
                rep.disagree("eval", dict(family=fam, expr=repr(e), line=line), real, model)

        # ---------------------------------------------------------------- diagram laws, core
        n_law = 60 if quick else 700
        jobs = []          # (family, law, kind, lhs, rhs, nboxes, shape)
        for k in range(n_law):
            fam = "rigid" if k % 2 else "monoidal"
            g = Gen(random.Random(rng.getrandbits(64)), rigid=(fam == "rigid"), maxw=5)
            r = g.rng
            ty = KeyedByRepr()

            def leaf(dom, depth=None, g=g, r=r, ty=ty):
                if r.random() < 0.15:
                    b = g.gbox(dom)
                    e = ("box", b)
                    ty[e] = (list(b["dom"]), list(b["cod"]))
                    return e, b["cod"], 1
                e, scans = g.diagram(dom, depth)
                ty[e] = (scans[0], scans[-1])
                return e, scans[-1], len(e[3])
            a, ac, na = leaf(g.ty(0, 3), r.choice([0, 1, 2, 3]))
            malformed = r.random() < 0.1
            b, bc, nb = leaf(g.ty(0, 3) if malformed else ac, r.choice([0, 1, 2, 3]))
            c, cc, nc = leaf(bc, r.choice([0, 1, 2]))
            u, _, nu = leaf(g.ty(0, 2), r.choice([0, 1, 2, 3]))
            v, _, nv = leaf(g.ty(0, 2), r.choice([0, 1, 2]))
            w, _, nw = leaf(g.ty(0, 2), r.choice([0, 1, 2]))
            size = {"then_assoc": na + nb + nc, "id_then": na, "then_id": na,
                    "tensor_assoc": nu + nv + nw, "tensor_unit_l": nu, "tensor_unit_r": nu,
                    "tensor_eq_whisker": nu + nv, "dagger_dagger": nu, "dagger_id": 0,
                    "dagger_then": na + nb, "dagger_then3": na + nb + nc}
            for law, lhs, rhs in diagram_laws(a, b, c, u, v, w, ty):
                jobs.append((fam, law, "d", lhs, rhs, size[law], None, malformed))
            if not malformed:
                ab = ("then", a, b)
                for law, lhs, rhs in slice_laws(ab, na + nb):
                    jobs.append((fam, law, "d", lhs, rhs, na + nb, None, False))
            for law, lhs, rhs in slice_laws(u, nu):
                jobs.append((fam, law, "d", lhs, rhs, nu, None, False))
            # the same laws on values that come out of `@` (offsets re-based by the tensor)
            uv = ("tensor", u, v)
            for law, lhs, rhs in slice_laws(uv, nu + nv):
                jobs.append((fam, law, "d", lhs, rhs, nu + nv, None, False))
            jobs.append((fam, "dagger_dagger", "d", ("dagger", ("dagger", uv)), uv, nu + nv, None, False))
        # ---------------------------------------------------------------- sum laws, core
        n_sum = 40 if quick else 500
        for k in range(n_sum):
            fam = "rigid" if k % 2 else "monoidal"
            g = Gen(random.Random(rng.getrandbits(64)), rigid=(fam == "rigid"), maxw=4)
            sg = SumGen(g)
            sty = KeyedByRepr()

            def mk(dom=None, cod=None, n=None, sg=sg, sty=sty):
                spec, d, c, nt = sg.sum(dom, n, cod)
                sty[spec] = (d, c, nt)
                return spec
            s = mk()
            X, Y = sty[s][0], sty[s][1]
            t = mk(X, Y)
            r_ = mk(Y)
            W = g.ty(0, 2)
            q = mk(W, X)
            p = mk()
            d_e, sc = g.diagram(W, g.rng.choice([0, 1, 2]))
            d_e = sg.close(d_e, sc, X)
            for law, lhs, rhs in sum_laws(s, t, r_, q, p, d_e, sty):
                shape = None
                if law == "then_distrib_l":
                    shape = (sty[q][2], sty[s][2], sty[t][2])
                if law == "tensor_distrib_l":
                    shape = (sty[p][2], sty[s][2], sty[t][2])
                nterms = sum(sty[z][2] for z in (s, t, r_, q, p))
                jobs.append((fam, law, "s", lhs, rhs, nterms, shape, False))
            # seval correspondence on the composite sums themselves
            for spec in (("sthen", ("sadd", s, t), r_), ("stensor", p, ("sadd", s, t)),
                         ("sdagger", ("sthen", q, s)), ("sthen", ("ssingle", d_e), t),
                         ("smk", [d_e, d_e], None, list(Y)),          # wrong cod: refused
                         ("sadd", s, p)):                              # mostly mismatched types
                jobs.append((fam, "seval", "v", spec, None, 0, None, False))

        lines = []
        for fam, law, kind, lhs, rhs, nb, shape, malformed in jobs:
            if kind == "d":
                lines.append("eqv %s %s" % (tok_expr(lhs), tok_expr(rhs)))
            elif kind == "s":
                lines.append("seqv %s %s" % (tok_sexpr(lhs), tok_sexpr(rhs)))
            else:
                lines.append("seval " + tok_sexpr(lhs))
        answers = drv.ask_many(lines)
        for (fam, law, kind, lhs, rhs, nb, shape, malformed), line, model in zip(jobs, lines, answers):
            F = fams[fam]
            if kind == "v":
                real = ser_sum_result(lambda: run_sum(F, lhs))
                rep.count("seval:" + real.split(" ")[0 if real.startswith("ok") else 1])
                rep.case(line, True)
                if real != model:
                    rep.disagree("seval", dict(family=fam, expr=repr(lhs), line=line[:2000]),
                                 real[:3000], model[:3000])
                continue
            vals = []
            if kind == "d":
                real = eq_answer(lambda: F.run(lhs), lambda: F.run(rhs), vals)
            else:
                real = eq_answer(lambda: run_sum(F, lhs), lambda: run_sum(F, rhs), vals)
            rep.count("law:" + law)
            rep.count("law-family:" + fam)
            rep.count("law-answer:" + real)
            rep.case(law + " " + line.split(" ", 1)[1][:4000], nb >= 2)
            rep.sample(dict(family=fam, law=law, request=line[:300], answer=real))
            if real != model:
                rep.disagree("law:" + law, dict(family=fam, lhs=repr(lhs), rhs=repr(rhs),
                                                line=line[:2000]), real, model)
            if real == "ok 0" or (real.startswith("err") and not malformed and kind == "d"):
                sig = classify_failure(law, shape, vals) if real == "ok 0" else "law_raises:" + law
                rep.fail(sig, dict(family=fam, law=law, lhs=repr(lhs), rhs=repr(rhs)),
                         "%s: lhs %s rhs (%s)%s" % (
                             law, "!=" if real == "ok 0" else "raised", real,
                             "; lhs=%r rhs=%r" % tuple(vals) if vals else ""))
            if real.startswith("err") and kind == "s":
                # sum laws are only generated well-typed: a refusal is a failure of the law
                rep.fail("law_raises:" + law, dict(family=fam, law=law, lhs=repr(lhs), rhs=repr(rhs)),
                         "%s raised %s" % (law, real))

        # ---------------------------------------------------------------- other classes (real code)
        n_sem = 25 if quick else 300
        streams = [("cat", None)] + [(n, Sem(n)) for n in ("tensor", "circuit", "zx", "biclosed", "cartesian")]
        for name, S in streams:
            for k in range(n_sem):
                r = random.Random(rng.getrandbits(64))
                gen = cat_laws(r) if S is None else sem_laws(S, r)
                for law, lf, rf, nb, kind in gen:
                    vals = []
                    try:
                        x, y = lf(), rf()
                        vals = [x, y]
                        ok = bool(x == y) if S is None else S.eq(x, y)
                        real = "ok 1" if ok else "ok 0"
                    except Exception as exc:  # noqa
                        real = "err " + err_class(exc)
                    rep.count("law-family:" + name)
                    rep.count("law:" + law)
                    key = "%s %s %s" % (name, law, repr(vals[0])[:600] if vals else k)
                    rep.case(key, nb >= 2)
                    if real != "ok 1":
                        shape = tuple(int(z) for z in kind[2:].split(",")) if kind.startswith("s:") else None
                        sig = classify_failure(law, shape, vals) if real == "ok 0" else "law_raises:" + law
                        rep.fail(sig, dict(family=name, law=law, values=[repr(z)[:500] for z in vals]),
                                 "%s in %s: %s" % (law, name, real))
        # ---------------------------------------------------------------- the zoo (real code)
        zoos = {}
        for name in ZOO_NAMES:
            try:
                Z = Zoo(name)
            except Exception as exc:  # noqa  -- a constructor of the library refused a documented call
                import traceback
                rep.fail("zoo_construction_raises", dict(family="zoo-" + name,
                                                         traceback=traceback.format_exc()[-1500:]),
                         "building the box subclasses of %s raised %s: %s" % (name, err_class(exc), exc))
                continue
            rep.count("zoo-items:" + name, len(Z.items))
            zoo_stream(rep, Z, random.Random(rng.getrandbits(64)),
                       n_random=(12 if quick else 150), n_forced_rounds=(1 if quick else 6),
                       sample_every=(3 if quick else 1))
            zoos[name] = Z
        # ---------------------------------------------------------------- special boxes against the model
        # Model/Special.lean: constructor arguments -> dom, cod, dagger; every zoo box of a modelled
        # class plus a random sweep over the constructors' arguments and flags
        sb = [("zoo-%s:%s" % (n, it.label), it.value, it) for n, Z in zoos.items() for it in Z.items
              if it.kind == "box"]
        sb += [(lab, b, None) for lab, b in
               special_sweep(random.Random(rng.getrandbits(64)), 300 if quick else 5000)]
        lines, todo = [], []
        for label, b, it in sb:
            if isinstance(b, Exception):
                rep.fail("zoo_construction_raises", dict(family="sweep"),
                         "a constructor of the sweep raised %s: %s" % (err_class(b), str(b)[:300]))
                continue
            try:
                spec = sbox_spec(b)
            except Exception as exc:  # noqa
                rep.fail("sbox_unreadable", dict(box=label), "reading %s raised %s" % (label, err_class(exc)))
                continue
            if spec is None:
                rep.count("sbox-unmodelled:" + type(b).__name__)
                continue
            todo.append((label, b, spec, it))
            lines.append("sbox " + spec)
        for (label, b, spec, it), model in zip(todo, drv.ask_many(lines)):
            dg = None
            try:
                dg = b.dagger()
                dspec = sbox_spec(dg)
                real = "ok %s %s %s" % (" ".join(spec_ty_tokens(b.dom)), " ".join(spec_ty_tokens(b.cod)),
                                        dspec if dspec is not None else "unmodelled:" + type(dg).__name__)
            except Exception as exc:  # noqa
                real = "err " + err_class(exc)
            rep.count("sbox:" + spec.split(" ")[0])
            rep.case("sbox " + spec, True)
            if real != model:
                rep.disagree("sbox", dict(box=label, line="sbox " + spec), real, model)
            # the property itself on the real values: identity on objects, involutive (==)
            try:
                if dg is None:
                    raise RuntimeError("dagger raised")
                why = None
                if tkey(dg.dom) != tkey(b.cod) or tkey(dg.cod) != tkey(b.dom):
                    why = "dagger is %r -> %r by key, the box is %r -> %r" % (
                        tkey(dg.dom), tkey(dg.cod), tkey(b.dom), tkey(b.cod))
                elif not (dg.dagger() == b and b == dg.dagger()):
                    why = "box[::-1][::-1] != box"
            except Exception as exc:  # noqa
                why = "raised " + err_class(exc)
            if why:
                known = it is not None and it.quarantine and "dagger_dagger" in it.qlaws and why.endswith("!= box")
                rep.fail(it.quarantine if known else "law_fails:box_dagger", dict(box=label, spec=spec),
                         "%s (%s): %s" % (label, spec, why))
    finally:
        drv.close()
    return rep.finish()


