"""C01 — every diagram the library hands back is well-typed."""
import random

from common import Driver, Report, ser_result, wf_failure, lean_obligations, err_class, Aging
from core import Family, tok_expr, expr_ops, expr_size
from exprgen import ExprGen

PROP = "C01"


def sweep_nary(eg, mixed):
    """Systematic part of the n-ary calling convention (monoidal / rigid / mixed): receiver kind
    (identity, empty diagram from the constructor, box, grown diagram, empty slice) x number of
    arguments 0..4 x position of the one broken junction (none, or any of them — the one between
    the receiver and the first argument included) x calling form."""
    r, g = eg.rng, eg.g
    out = []
    for recv_kind in ("id", "mk_empty", "box", "grown", "slice_empty"):
        for n in range(5):
            for bad_at in [-1] + list(range(n)):
                forms = ["method", "class", "base"] + (["op", "rop"] if n == 1 else [])
                for form in forms:
                    t = g.ty(0, 3)
                    if recv_kind == "id":
                        recv, rc = ("id", t), t
                    elif recv_kind == "mk_empty":
                        recv, rc = ("mk", t, t, [], []), t
                    elif recv_kind == "box":
                        b = g.gbox(t)
                        recv, rc = ("box", b), b["cod"]
                    elif recv_kind == "grown":
                        recv, scans = g.diagram(t, depth=r.randint(1, 3))
                        rc = scans[-1]
                    else:
                        e0, scans = g.diagram(t, depth=r.randint(1, 3))
                        k = r.randint(0, len(e0[3]))
                        recv, rc = ("slice", e0, k, k), scans[k]
                    args, scan = [], rc
                    for k in range(n):
                        start = scan
                        if k == bad_at:
                            if mixed and any(z for _, z in scan) and r.random() < 0.6:
                                start = [(nm, 0) for nm, _ in scan]
                            else:
                                start = eg.other_ty(scan)
                        if r.random() < 0.2:
                            a, scan = ("id", start), start
                        else:
                            a, scans = g.diagram(start, depth=r.randint(1, 2))
                            scan = scans[-1]
                        args.append(a)
                    out.append((("thenN", form, recv, args), "thenN:%s:n=%d:%s" % (
                        recv_kind, n, "ok" if bad_at < 0 else "bad@%d" % bad_at)))
    for n in range(5):
        for form in ["method", "class", "base"] + (["op"] if n == 1 else []):
            recv = g.diagram(depth=r.randint(0, 2))[0] if r.random() < 0.7 else ("id", g.ty(0, 2))
            args = [g.diagram(depth=r.randint(0, 2))[0] if r.random() < 0.8 else ("id", g.ty(0, 2))
                    for _ in range(n)]
            out.append((("tensorN", form, recv, args), "tensorN:n=%d" % n))
    return out


def install_constructor_monitor(sink):
    """In-process equivalent of the optional hook named in the property's anchor: re-scan
    every diagram the library builds (also intermediate ones) after its constructor returns."""
    from discopy import monoidal
    orig = monoidal.Diagram.__init__
    state = {"depth": 0, "count": 0}

    def wrapped(self, dom, cod, boxes, offsets, layers=None):
        orig(self, dom, cod, boxes, offsets, layers)
        if state["depth"]:
            return
        state["depth"] += 1
        try:
            state["count"] += 1
            why = wf_failure(self)
            if why is not None:
                sink.append((why, repr((dom, cod, boxes, list(offsets)))[:400]))
        finally:
            state["depth"] -= 1
    monoidal.Diagram.__init__ = wrapped
    return state, (lambda: setattr(monoidal.Diagram, "__init__", orig))


def functor_stream(rep, drv, rng, tier, fams, monitor_hits):
    """monoidal / rigid functors whose object and arrow mappings are made to DISAGREE (image of a
    box not typed F(dom) -> F(cod), object mapping changed after the images were drawn, images
    exchanged), as dict and as callable; and cat.Functor into diagrams (ar_factory=Diagram) on plain
    arrows, which composes the images with the n-ary Diagram.id(F(dom)).then(*images).
    Model: driver commands `functor` (Model/Functor.lean) and `eval thenN ...`; oracle: the image
    is well-typed and starts on the image of the domain."""
    from props.c04 import gen_functor, tok_functor, real_functor, img_ty
    from core import Gen, tok_ty
    from common import ty_key
    n = 120 if tier == "quick" else 4000
    kinds = ["consistent", "img_dom", "img_cod", "ob_changed", "swap_images"]
    pending = []
    for k in range(n):
        famn = "rigid" if k % 2 else "monoidal"
        fam = fams[famn]
        r = random.Random(rng.getrandbits(64))
        g = Gen(r, rigid=(famn == "rigid"), maxw=5)
        kind = kinds[(k // 2) % len(kinds)]
        style = ("dict", "callable", "total")[(k // 10) % 3]
        via_cat = k % 7 == 6         # a plain arrow of one-wire boxes, cat.Functor into diagrams
        if via_cat:
            g0 = Gen(r, rigid=False)        # cat.Ob has no winding number
            a = g0.ob()
            bs, scan = [], [a]
            for _ in range(r.randint(1, 4)):
                b = g0.gbox(scan, [g0.ob()])
                bs.append(b)
                scan = b["cod"]
            e = ("mk", [a], scan, bs, [0] * len(bs))
        else:
            e, scans = g.diagram(depth=r.choice([1, 2, 2, 3, 3, 4, 5]))
        boxes = e[3]
        obmap, armap = gen_functor(r, famn == "rigid", boxes, False)
        gens = [i for i, (b, _) in enumerate(armap)]
        tg = Gen(r, rigid=(famn == "rigid"), maxw=7, names=["p", "q", "r"])
        if kind in ("img_dom", "img_cod") and gens:
            i = r.choice(gens)
            b, img = armap[i]
            dom, cod = img_ty(obmap, b["dom"]), img_ty(obmap, b["cod"])
            if kind == "img_dom":
                dom = dom + tg.ty(1, 1) if r.random() < 0.5 or not dom else dom[1:]
            else:
                cod = cod + tg.ty(1, 1) if r.random() < 0.5 or not cod else cod[:-1]
            e2, sc = tg.grow(dom, r.choice([0, 1, 2]))
            _, _, cur, bs2, os2 = e2
            if cur != cod:
                bs2 = bs2 + [dict(kind="g", name="h9", dom=list(cur), cod=list(cod), dagger=False,
                                  data=None)]
                os2 = os2 + [0]
            armap[i] = (b, ("mk", dom, cod, bs2, os2))
        elif kind == "ob_changed":
            name = r.choice(sorted(obmap))
            obmap[name] = obmap[name] + tg.ty(1, 1) if r.random() < 0.6 or not obmap[name] \
                else obmap[name][1:]
        elif kind == "swap_images" and len(gens) >= 2:
            i, j = r.sample(gens, 2)
            armap[i], armap[j] = (armap[i][0], armap[j][1]), (armap[j][0], armap[i][1])
        case = dict(family=famn, kind=kind, style=style, via="cat.Functor" if via_cat else
                    famn + ".Functor", expr=repr(e), obmap=repr(obmap), armap=repr(armap)[:2000])
        before = len(monitor_hits)
        value = [None]
        try:
            if via_cat:
                from discopy import cat
                m = fam.m
                ob = {cat.Ob(nm): fam.ty(t) for nm, t in obmap.items()}
                ar = {cat.Box(b["name"], cat.Ob(b["dom"][0][0]), cat.Ob(b["cod"][0][0]),
                              **({"data": b["data"]} if b["data"] is not None else {})):
                      fam.run(img) for b, img in armap}
                F = cat.Functor(ob, ar, ob_factory=m.Ty, ar_factory=m.Diagram) if style != "callable" \
                    else cat.Functor(lambda x: ob[x], lambda f: ar[f], ob_factory=m.Ty,
                                     ar_factory=m.Diagram)
                d = cat.Arrow(cat.Ob(e[1][0][0]), cat.Ob(e[2][0][0]), [
                    cat.Box(b["name"], cat.Ob(b["dom"][0][0]), cat.Ob(b["cod"][0][0]),
                            **dict(({"data": b["data"]} if b["data"] is not None else {}),
                                   **({"_dagger": True} if b["dagger"] else {}))) for b in boxes])
                imgs = []
                for b in boxes:
                    base = dict(b, dom=b["cod"], cod=b["dom"], dagger=False) if b["dagger"] else b
                    img = [t for bb, t in armap if tok_box_eq(bb, base)]
                    imgs.append(("dagger " if b["dagger"] else "") + tok_expr(img[0]))
                line = "eval thenN id %s %s" % (tok_ty(img_ty(obmap, e[1])),
                                                " ".join([str(len(imgs))] + imgs))
            else:
                F = real_functor(fam, obmap, armap, style)
                d = fam.run(e)
                line = "functor %s %s" % (tok_functor(obmap, armap), tok_expr(e))
        except Exception as exc:
            rep.count("functor_setup_error:" + err_class(exc))
            continue

        def thunk():
            value[0] = F(d)
            return value[0]
        real = ser_result(thunk)
        rep.count("functor:%s:%s:%s" % ("cat" if via_cat else famn, kind,
                                        real.split(" ")[0 if real.startswith("ok") else 1]))
        rep.count("functor_style:" + style)
        out = value[0]
        if out is not None:
            why = wf_failure(out)
            if why:
                rep.fail("illtyped_result:functor:" + famn, case, why)
            want = [(nm, z) for nm, z in img_ty(obmap, e[1])]
            if ty_key(out.dom) != want:
                rep.fail("functor_image_leaves_image_of_dom:" + famn, case,
                         "F(d) starts on %r but F(d.dom) is %r" % (out.dom, want))
            if ty_key(out.cod) != [(nm, z) for nm, z in img_ty(obmap, e[2])]:
                rep.count("functor:cod_is_not_image_of_cod")        # well-typed all the same
        for why, what in monitor_hits[before:]:
            rep.fail("illtyped_intermediate:functor", case, why + " in " + what)
        pending.append((case, line, real, len(boxes) >= 2))
    answers = drv.ask_many([p[1] for p in pending]) if pending else []
    for (case, line, real, nontrivial), model in zip(pending, answers):
        rep.case(line, nontrivial)
        if real != model:
            rep.disagree("functor", case, real[:500], model[:500])
    return dict(functor_requests=len(pending))


def tok_box_eq(a, b):
    from core import tok_box
    return tok_box(a) == tok_box(b)


def run(tier, seed, replay=None):
    rep = Report(PROP, tier, seed)
    rep.rule = ("random operation sequences (1-12 ops) over monoidal and rigid diagrams grown "
                "layer by layer, ~10% malformed requests; non-trivial = result of >= 2 boxes "
                "built with at least one op other than id/then; distinct by token form. "
                "Semantic classes (circuit, zx, tensor, cartesian, biclosed): every box constructor "
                "x flag combination placed in a grown diagram of its class, then the operation "
                "battery (dagger, double dagger, >> / @ with its dagger, slices, reversed slices, "
                "indexing, interchange sweep, normal_form, transposes, class extras) and random "
                "histories over a pool of earlier results; non-trivial = result of >= 2 boxes that "
                "is not a bare leaf; distinct by model request. "
                "n-ary calling convention of then/tensor (0-4 arguments; bound method, function of "
                "the receiver's class, function of the family's Diagram class, operators >> << @ for "
                "one argument): random inside the operation sequences and a systematic sweep "
                "receiver kind (identity, empty constructor diagram, box, grown diagram, empty "
                "slice) x arity x position of the one broken junction (none / any, the one between "
                "the receiver and the first argument included) x form, in the monoidal, rigid, mixed "
                "and semantic families. Class cat: plain arrows over cat.Ob and over monoidal.Ty "
                "objects - scanning constructor broken at every position, n-ary then in method / "
                "unbound / class / >> / << form with the same sweep, dagger, slices, reversed "
                "slices, indexing, Id / Arrow.id / Arrow(x, x, []) - and cat.Functor application "
                "(dict, callable, Quiver) with mappings made to disagree: image with another dom / "
                "cod, object mapping changed after the images were drawn, images exchanged, missing "
                "keys; x shape of the argument (identity, one-box arrow, Box, composite, daggered, "
                "composite by then, image of another functor). monoidal / rigid Functor and "
                "cat.Functor(ar_factory=Diagram) with the same disagreements; non-trivial there = "
                "value of >= 2 boxes from a request of >= 2 operations. Across class borders "
                "(harness/crossfam.py): every ordered pair of the 9 diagram / type classes x tensor, "
                "n-ary tensor with a third class, composition with a junction rebuilt in the other "
                "class on the same (name, z) keys, ill-typed composition, x calling form, results "
                "used again; constructor arguments of the wrong TYPE: every class x 38 offset values "
                "x position, 14 offset containers, box values / containers, dom / cod values")
    rep.partial = ["parser/translator outputs (eager_parse, from_tk, from_pyzx, circuit2zx, "
                   "tree2diagram) are covered by C13/C16/C17/C18 and the constructor monitor only",
                   "class-specific constructions of the semantic classes (Circuit/zx/tensor cups, "
                   "caps, transposes, ansaetze, rewire, init_and_discard, cartesian Swap/Copy/"
                   "Discard, biclosed fa..curry) are outside the model: oracle on their result, "
                   "which is then handed to the model as an `mk` leaf; boxes of these classes are "
                   "opaque generators for the model (dom/cod only), so the correspondence there is "
                   "on dom, cod, box types, offsets and layers, not on box identity",
                   "class cat: sums and bubbles of plain arrows (Functor dispatch on Sum / Bubble, "
                   "cat.py:854-859) are not in the cat op language (C02 / C04 cover sums); a functor "
                   "whose LAST image does not end on F(cod) is accepted by the code as written "
                   "(cat.py:867 never reads F(cod); monoidal.py:842-848 likewise): the value handed "
                   "back is well-typed, so C01 holds for it - counted as "
                   "`cod_is_not_image_of_cod`, proved conditional on typed images "
                   "(cat_functor_typed), not demanded by the oracle",
                   "images of a functor are well-typed arrows the library built earlier "
                   "(hypothesis ImagesWF of cat_functor_wf / cat_eval_wf; the harness re-checks "
                   "every image with C01's predicate)"]
    rep.partial.append(
        "cross-class operations: the model is class-free (keys (name, z)); a refusal of the library "
        "that comes from a type-class coercion inside a layer (PRO.upgrade on `right @ other.dom`) "
        "is allowed by the property and counted, not predicted; the coercion itself is modelled at "
        "type level (TyClass.upgrade) and compared on the end types of every pair")
    rep.assumptions = ["box names/data are generator-chosen tokens (no names that collide with "
                       "the derived names of Swap/Cup/Cap)",
                       "cat.Box data is never a str: Box(name, x, y, data='s') does not return "
                       "(cat.py:515 recursive_free_symbols iterates a string for ever -> "
                       "RecursionError), which is a refusal and not C01's business",
                       "a KeyError of a functor mapping is the model's error class `value`",
                       "a refusal (exception) is never counted against C01; refusals of modelled "
                       "operations are compared with the model's refusals except where a box class "
                       "has no dagger (tensor.Bubble, cartesian.Box, biclosed rule boxes), for "
                       "biclosed `>>` (Over/Under equality is not symmetric) and for cartesian "
                       "(its id/upgrade coerce types through PRO and refuse on their own)"]
    rep.lean = lean_obligations(PROP, thorough=(tier == "thorough"))
    n_cases = 400 if tier == "quick" else 30000
    rng = random.Random(seed)
    drv = Driver()
    monitor_hits = []
    state, uninstall = install_constructor_monitor(monitor_hits)
    try:
        cases = []
        for k in range(n_cases):
            fam = ("monoidal", "rigid", "mixed", "rigid")[k % 4]
            eg = ExprGen(random.Random(rng.getrandbits(64)), rigid=(fam != "monoidal"),
                         mixed=(fam == "mixed"), nary=True)
            if (k // 4) % 8 == 7:
                e = eg.malformed_mk()[0]
            else:
                e = eg.expr(eg.rng.randint(1, 4))[0]
            cases.append((fam, e))
        # the n-ary calling convention, systematically: every receiver kind x arity x position of
        # the broken junction x calling form
        for rnd in range(1 if tier == "quick" else 8):
            for fam in ("monoidal", "rigid", "mixed"):
                eg = ExprGen(random.Random(rng.getrandbits(64)), rigid=(fam != "monoidal"),
                             mixed=(fam == "mixed"), maxw=5)
                for e, label in sweep_nary(eg, fam == "mixed"):
                    cases.append((fam, e))
                    rep.count("nary_sweep:" + ":".join(label.split(":")[:2]))
        fams = {"monoidal": Family("monoidal"), "rigid": Family("rigid"), "mixed": Family("mixed")}
        aging = Aging()
        for f in fams.values():
            f.watch = aging.watch
            f.problems = []
        lines = ["eval " + tok_expr(e) for _, e in cases]
        answers = drv.ask_many(lines)
        for (fam, e), line, model in zip(cases, lines, answers):
            before = len(monitor_hits)
            value = [None]

            def thunk():
                value[0] = fams[fam].run(e)
                return value[0]
            real = ser_result(thunk)
            ops = expr_ops(e)
            for o in set(ops):
                rep.count("op:" + o)
            rep.count("family:" + fam)
            rep.count("result:" + real.split(" ")[0 if real.startswith("ok") else 1])
            nboxes = len(value[0].boxes) if value[0] is not None else 0
            rep.count("boxes:%s" % (nboxes if nboxes < 8 else "8+"))
            nontrivial = nboxes >= 2 and any(o not in ("id", "then", "mk", "box") for o in ops)
            rep.case(line, nontrivial)
            rep.sample(dict(family=fam, request=line[:300], answer=real[:200]))
            if real != model:
                rep.disagree("eval", dict(family=fam, expr=repr(e), line=line), real, model)
            if value[0] is not None:
                why = wf_failure(value[0])
                if why is not None:
                    rep.fail("illtyped_result:" + ops[0], dict(family=fam, expr=repr(e)), why)
            for why, what in monitor_hits[before:]:
                rep.fail("illtyped_intermediate:" + ops[0], dict(family=fam, expr=repr(e)),
                         why + " in " + what)
            for sig, text in fams[fam].problems:      # "ill-typed requests are refused"
                rep.fail(sig + ":" + fam, dict(family=fam, expr=repr(e)), text[:1500])
            del fams[fam].problems[:]
            for o in ops:
                if o in ("thenN", "tensorN"):
                    rep.count("nary:%s:%s" % (o, real.split(" ")[0 if real.startswith("ok") else 1]))
            # histories: every sub-result of this operation sequence, re-read now
            for what, why in aging.recheck():
                rep.fail("earlier_value_spoilt:" + what, dict(family=fam, expr=repr(e)), why)
        for f in fams.values():
            f.watch = None
            f.problems = None
        # ---- histories through the rewriting generators: the input, and every step yielded
        # earlier, are re-read after the generator has moved on / finished
        from props import c07 as g07
        from discopy import rigid as _rigid, monoidal as _monoidal
        for k in range(60 if tier == "quick" else 2000):
            r = random.Random(rng.getrandbits(64))
            fam = fams["rigid"]
            if k % 3 == 0:
                e = g07.spiral_snake(r, fam)
                e = e[0] if isinstance(e, tuple) and e and isinstance(e[0], tuple) else e
            else:
                eg = ExprGen(r, rigid=True)
                e0, scans = eg.g.diagram(depth=r.choice([1, 2, 3, 4, 5]))
                e = g07.insert_snakes(r, e0, scans)
                e = e[0] if isinstance(e, tuple) and e and isinstance(e[0], tuple) else e
            try:
                d = fam.run(e) if isinstance(e, tuple) else e
            except Exception as exc:
                rep.count("history_input_error:" + err_class(exc))
                continue
            hist = Aging()
            hist.watch("input", d)
            n_steps = 0
            for name, gen in (("normalize", lambda: d.normalize()),
                              ("normalize_left", lambda: d.normalize(left=True)),
                              ("monoidal_normalize", lambda: _monoidal.Diagram.normalize(d)),
                              ("foliate", lambda: _monoidal.Diagram.foliate(d))):
                try:
                    for i, step in enumerate(gen()):
                        n_steps += 1
                        hist.watch("%s step %d" % (name, i), step)
                        if i > 200:
                            break
                    hist.watch(name + " normal_form", d.normal_form())
                except Exception as exc:
                    rep.count("history_error:%s:%s" % (name, err_class(exc)))
            rep.case("history " + repr(e)[:400], n_steps >= 2)
            rep.count("history_steps:%s" % (n_steps if n_steps < 10 else "10+"))
            for what, why in hist.recheck():
                rep.fail("earlier_value_spoilt:" + what.split(" ")[0],
                         dict(family="rigid", expr=repr(e)), what + ": " + why)
        # ---- foliate: yielded steps and slices, model vs code, plus the oracle
        from common import ser_diagram
        for k in range(80 if tier == "quick" else 1500):
            fam = "rigid" if k % 4 == 3 else "monoidal"
            r = random.Random(rng.getrandbits(64))
            eg = ExprGen(r, rigid=(fam == "rigid"))
            e = eg.g.diagram(depth=r.choice([0, 1, 2, 3, 4, 5, 6, 8]))[0]
            d = fams[fam].run(e)
            line = "foliate " + tok_expr(e)
            model = drv.ask(line)
            before = len(monitor_hits)
            try:
                from discopy import monoidal
                out = list(monoidal.Diagram.foliate(d, yield_slices=True))
                steps, slices = out[:-1], out[-1]
                real = "ok %s %s" % (
                    " ".join([str(len(steps))] + [ser_diagram(x) for x in steps]),
                    " ".join([str(len(slices))] + [ser_diagram(x) for x in slices]))
            except Exception as exc:
                steps, slices, real = None, None, "err " + err_class(exc)
            if real != model:
                rep.disagree("foliate", dict(family=fam, expr=repr(e)), real[:400], model[:400])
            rep.case(line, steps is not None and len(steps) >= 1)
            rep.count("foliate_steps:%s" % (len(steps) if steps is not None and len(steps) < 6 else "6+"))
            if steps is None:
                rep.fail("foliate_raises:" + real.split(" ")[1], dict(family=fam, expr=repr(e)), real)
                continue
            for x in steps + slices:
                why = wf_failure(x)
                if why:
                    rep.fail("illtyped_result:foliate", dict(family=fam, expr=repr(e)), why)
            last = steps[-1] if steps else d
            try:
                glued = fams[fam].m.Id(d.dom)
                for sl in slices:
                    glued = glued >> sl
                if glued != last:
                    rep.fail("foliate_slices_do_not_glue", dict(family=fam, expr=repr(e)),
                             "composite of the slices differs from the last yielded diagram")
            except Exception as exc:
                rep.fail("foliate_slices_do_not_glue", dict(family=fam, expr=repr(e)), repr(exc)[:200])
            for why, what in monitor_hits[before:]:
                rep.fail("illtyped_intermediate:foliate", dict(family=fam, expr=repr(e)), why + " in " + what)

        # ---- API sweep (oracle only): operations not in the modelled op language
        sweep = 0
        for k in range(60 if tier == "quick" else 600):
            fam = "rigid" if k % 2 else "monoidal"
            r = random.Random(rng.getrandbits(64))
            eg = ExprGen(r, rigid=(fam == "rigid"))
            e = eg.g.diagram(depth=r.choice([1, 2, 3, 4, 5]))[0]
            d = fams[fam].run(e)
            calls = [("foliation", lambda: d.foliation()),
                     ("foliation.flatten", lambda: d.foliation().flatten()),
                     ("foliate", lambda: [x for x in d.foliate() if hasattr(x, "boxes")][-1:] or [d]),
                     ("permute", lambda: d.permute(*r.sample(range(len(d.cod)), len(d.cod)))),
                     ("depth-slices", lambda: list(d.foliate(yield_slices=True))[-1])]
            if fam == "rigid":
                calls += [("transpose_l", lambda: d.transpose(left=True)),
                          ("transpose_r", lambda: d.transpose(left=False)),
                          ("normal_form", lambda: d.normal_form()),
                          ("curry", lambda: type(d).curry(d, n_wires=min(1, len(d.dom)) or 1,
                                                          left=r.random() < 0.5) if len(d.dom) else d)]
            for name, call in calls:
                before = len(monitor_hits)
                try:
                    out = call()
                except (NotImplementedError,) :
                    rep.count("sweep_refused:" + name)
                    continue
                except Exception as exc:
                    rep.count("sweep_error:%s:%s" % (name, err_class(exc)))
                    continue
                sweep += 1
                rep.count("sweep:" + name)
                outs = out if isinstance(out, list) else [out]
                for o in outs:
                    why = wf_failure(o) if hasattr(o, "layers") else None
                    if why:
                        rep.fail("illtyped_result:" + name, dict(family=fam, expr=repr(e)), why)
                for why, what in monitor_hits[before:]:
                    rep.fail("illtyped_intermediate:" + name, dict(family=fam, expr=repr(e)),
                             why + " in " + what)
        rep.extra["api_sweep_calls"] = sweep
        # ---- front-end sweep (oracle only): parser and translator outputs, every diagram they
        # build on the way is re-scanned by the constructor monitor
        front = 0

        def guarded(name, call, desc):
            nonlocal front
            before = len(monitor_hits)
            try:
                out = call()
            except Exception as exc:
                rep.count("front_error:%s:%s" % (name, err_class(exc)))
                return
            front += 1
            rep.count("front:" + name)
            for o in (out if isinstance(out, (list, tuple)) else [out]):
                why = wf_failure(o) if hasattr(o, "layers") else None
                if why:
                    rep.fail("illtyped_result:" + name, dict(what=desc), why)
            for why, what in monitor_hits[before:]:
                rep.fail("illtyped_intermediate:" + name, dict(what=desc), why + " in " + what)
        try:
            import qgen
            from props import c18 as g18
            from discopy.quantum import zx as zxm, circuit as qcirc
            from discopy.grammar import pregroup
            from discopy import biclosed
            n_front = 25 if tier == "quick" else 300
            for k in range(n_front):
                r = random.Random(rng.getrandbits(64))
                n_in, layers = qgen.QGen(r, exact=True).circuit() if hasattr(qgen.QGen, "circuit") \
                    else (0, [])
                if layers:
                    c = qgen.build_circuit(n_in, layers)
                    desc = qgen.show_circuit(n_in, layers)
                    guarded("circuit", lambda: [c, c.dagger(), c @ c, c.normal_form()
                                                if len(c.boxes) < 6 else c], desc)
                    guarded("circuit2zx", lambda: zxm.circuit2zx(c), desc)
                    guarded("to_tk/from_tk", lambda: qcirc.Circuit.from_tk(c.to_tk()), desc)
                words, target, _tags = g18.gen_sentence(r, r.randint(1, 4))
                fam_r = fams["rigid"]
                try:
                    rw = [pregroup.Word(w["name"], fam_r.ty(w["cod"])) for w in words
                          if not w.get("dom")]
                    tgt = fam_r.ty(target)
                    guarded("eager_parse", lambda: pregroup.eager_parse(*rw, target=tgt),
                            repr((words, target))[:300])
                except Exception:
                    pass
                for kind in ("fa", "ba", "fc", "bc", "fx", "bx"):
                    spec = g18.gen_rule(r, kind, r.randint(1, 3))
                    try:
                        rule = g18.real_rule(spec)
                    except Exception:
                        continue
                    guarded("biclosed2rigid", lambda: biclosed.biclosed2rigid(rule), repr(spec)[:300])
        except ImportError as exc:   # a generator module is missing: say so, do not fail
            rep.count("front_generators_unavailable:" + str(exc)[:60])
        rep.extra["front_end_calls"] = front
        # ---- semantic diagram classes (circuit, zx, tensor, cartesian, biclosed, cat): every box
        # constructor x flag combination, operation batteries and random histories; model
        # correspondence by shape, C01's predicate on every value handed back
        import semfam
        rep.extra.update(semfam.run_streams(rep, drv, rng, tier, monitor_hits))
        # ---- class `cat` as a full family: plain arrows (constructor, n-ary then in every calling
        # form with 0-4 arguments, dagger, slices, indexing) and functors whose two mappings are
        # made to disagree; model correspondence (`cateval`) + C01's predicate on every sub-result
        import catfam
        rep.extra.update(catfam.run_streams(rep, drv, random.Random(rng.getrandbits(64)), tier))
        rep.extra.update(functor_stream(rep, drv, random.Random(rng.getrandbits(64)), tier, fams,
                                        monitor_hits))
        # ---- across class borders (then / tensor between diagrams of different diagram and type
        # classes, the coercion of Ty.tensor) and constructor arguments of the wrong TYPE
        import crossfam
        rep.extra.update(crossfam.run_streams(rep, drv, random.Random(rng.getrandbits(64)), tier,
                                              monitor_hits))
    finally:
        uninstall()
        drv.close()
    rep.extra["constructor_monitor_rescans"] = state["count"]
    return rep.finish()
