"""C06 — monoidal normal form: sound, idempotent, canonical."""
import itertools
import random

import numpy as np

from common import Driver, Report, ser_result, ser_diagram, wf_failure, lean_obligations, err_class
from core import Family, Gen, tok_expr, spec_diagram, enumerate_diagrams, small_signature
from semantics import IntFunctor, wire_labels
from props.c05 import simulate
from props import c06_scale as sc
from props import c06_conv as cv

PROP = "C06"
CAP = 400          # steps read from a normalize() generator before giving up


def is_connected(d):
    """All boxes connected to one another through wires (boundary does not connect)."""
    n = len(d.boxes)
    if n <= 1:
        return True
    consumed, _ = wire_labels(d)
    adj = {k: set() for k in range(n)}
    for j, cons in enumerate(consumed):
        for lab in cons:
            if lab[0] != "in":
                adj[j].add(lab[0])
                adj[lab[0]].add(j)
    seen, todo = {0}, [0]
    while todo:
        k = todo.pop()
        for m in adj[k]:
            if m not in seen:
                seen.add(m)
                todo.append(m)
    return len(seen) == n


def parallel_connected(rng):
    """A connected diagram with commuting branches: a source box fans out k wires, each wire gets
    a chain of 0-2 unary boxes (these commute across wires), optionally a sink joins them."""
    k = rng.randint(2, 3)
    names = ["a", "b", "c"]
    wires = [(rng.choice(names), 0) for _ in range(k)]
    boxes = [dict(kind="g", name="src", dom=[], cod=list(wires), dagger=False, data=None)]
    offsets = [0]
    steps = []
    for w in range(k):
        for _ in range(rng.randint(0, 2)):
            steps.append(w)
    rng.shuffle(steps)
    cur = list(wires)
    for w in steps:
        new = (rng.choice(names), 0)
        boxes.append(dict(kind="g", name="u%d" % rng.randint(0, 3), dom=[cur[w]], cod=[new],
                          dagger=False, data=None))
        offsets.append(w)
        cur[w] = new
    cod = list(cur)
    if rng.random() < 0.6:
        boxes.append(dict(kind="g", name="snk", dom=list(cur), cod=[], dagger=False, data=None))
        offsets.append(0)
        cod = []
    return ("mk", [], cod, boxes, offsets)


def spiral_spec(n, name="a"):
    """The asymptotic worst case for normal_form (arXiv:1804.07832): connected, cubic trace."""
    x = (name, 0)
    def bx(nm, dom, cod):
        return dict(kind="g", name=nm, dom=dom, cod=cod, dagger=False, data=None)
    boxes, offsets = [bx("unit", [], [x])], [0]
    for i in range(n):
        boxes.append(bx("cap", [], [x, x])); offsets.append(i)
    boxes.append(bx("counit", [x], [])); offsets.append(n)
    for i in range(n):
        boxes.append(bx("cup", [x, x], [])); offsets.append(n - i - 1)
    return ("mk", [], [], boxes, offsets)


def random_walk(rng, d, steps):
    """Random legal adjacent exchanges (independent simulation), staying in the class."""
    from discopy.monoidal import Diagram
    for _ in range(steps):
        n = len(d.boxes)
        if n < 2:
            break
        i = rng.randrange(n - 1)
        a, b = (i, i + 1) if rng.random() < 0.5 else (i + 1, i)
        sim = simulate(d, a, b, rng.random() < 0.5)
        if sim[0] == "ok":
            d = Diagram(d.dom, d.cod, sim[1], sim[2])
    return d


def twins(rng):
    """Connected diagrams with REPEATED EQUAL boxes: the same unary box applied on several
    parallel wires (equal boxes commute past each other), interleaved with another box."""
    x = ("a", 0)
    n = rng.randint(2, 3)

    def bx(nm, dom, cod):
        return dict(kind="g", name=nm, dom=dom, cod=cod, dagger=False, data=None)
    boxes, offsets = [bx("src", [], [x] * n)], [0]
    steps = []
    for w in range(n):
        steps += [(w, "f")] * rng.randint(1, 2)
        if rng.random() < 0.5:
            steps.append((w, "g"))
    rng.shuffle(steps)
    for w, nm in steps:
        boxes.append(bx(nm, [x], [x]))
        offsets.append(w)
    boxes.append(bx("snk", [x] * n, []))
    offsets.append(0)
    return ("mk", [], [], boxes, offsets)


def exchange_class(d, cap=250):
    """Closure of {d} under legal adjacent exchanges (both preferences), by the independent
    simulation of the exchange rule; diagrams rebuilt with the scanning public constructor."""
    from discopy.monoidal import Diagram
    key = lambda x: (tuple(map(repr, x.boxes)), tuple(x.offsets))
    seen = {key(d): d}
    todo = [d]
    while todo and len(seen) < cap:
        cur = todo.pop()
        for i in range(len(cur.boxes) - 1):
            for left in (False, True):
                for (a, b) in ((i, i + 1), (i + 1, i)):
                    sim = simulate(cur, a, b, left)
                    if sim[0] != "ok":
                        continue
                    new = Diagram(cur.dom, cur.cod, sim[1], sim[2])
                    if key(new) not in seen:
                        seen[key(new)] = new
                        todo.append(new)
    return list(seen.values()), not todo


def legal_single_exchange(prev, step, left):
    """`step` is `prev` with one adjacent pair exchanged by the documented rule."""
    for i in range(len(prev.boxes) - 1):
        sim = simulate(prev, i, i + 1, left)
        if sim[0] == "ok" and list(step.boxes) == sim[1] and list(step.offsets) == sim[2]:
            return True
    return False


# ---------------------------------------------------------------------------------- SCALING stream

def _describe(spec, limit=6000):
    """Compact, replayable description of a (possibly large) `mk` spec."""
    _, dom, cod, boxes, offsets = spec
    txt = "dom=%d cod=%d boxes=[%s] offsets=%s" % (
        len(dom), len(cod),
        " ".join("%s:%d>%d" % (b["name"], len(b["dom"]), len(b["cod"])) for b in boxes),
        list(offsets))
    return txt if len(txt) <= limit else txt[:limit] + "...(%d boxes)" % len(boxes)


def scaling_stream(rep, rng, drv, tier, seed):
    """Structured worst-case families at growing sizes (module c06_scale): for each member, both
    preferences, normal_form must return (a connected diagram: no NotImplementedError, no other
    exception), the result must be well typed, have the input's boundary, boxes and wiring, have
    no redex, be a fixed point of normal_form, and be the family's closed-form normal form; other
    members of the class (random legal exchanges) must reach the same value.  Mid-size members
    are also normalised by the Lean model (value and full trace).  The largest members need more
    passes than the interpreter's default recursion limit; the LOW-STACK part repeats the call in
    a subprocess with the recursion limit lowered far below the number of passes."""
    import time
    quick = tier == "quick"
    walls, t0 = {}, time.time()
    fams = {"monoidal": Family("monoidal"), "rigid": Family("rigid")}
    passes_seen = []

    def case_of(mem, left, spec=None, **kw):
        spec = spec or mem["spec"]
        c = dict(stream="scaling", family=mem["family"], size=mem["size"], unique_names=mem["unique"],
                 left=left, boxes=len(spec[3]), diagram=_describe(spec))
        c.update(kw)
        return c

    def judge(case, d, nf, mem, left, want):
        """The property's predicate on a returned normal form."""
        why = wf_failure(nf)
        if why:
            rep.fail("scaling:illtyped_normal_form", case, why)
            return
        if nf.dom != d.dom or nf.cod != d.cod:
            rep.fail("scaling:type_changed", case, "normal form has another boundary")
        if sorted(b.name for b in nf.boxes) != sorted(b.name for b in d.boxes):
            rep.fail("scaling:boxes_changed", case, "normal form has other boxes")
        elif mem["unique"] and sc.real_wiring(nf) != sc.spec_wiring(mem["spec"]):
            rep.fail("scaling:not_reachable_by_interchanges", case,
                     "some box of the normal form is plugged into other wires than in the input")
        if not sc.real_terminal(nf, left):
            rep.fail("normal_form_not_terminal", case, "the returned normal form still has a redex")
        if ser_diagram(nf) != want:
            rep.fail("scaling:not_the_closed_form_normal_form", case,
                     "normal form differs from the closed form of the family: offsets %r"
                     % (list(nf.offsets)[:60],))

    def normal_form_of(case, cls, d, left):
        try:
            return cls.normal_form(d, left=left)
        except NotImplementedError:
            rep.fail("connected_not_normalised", case, "NotImplementedError on a connected diagram")
        except Exception as exc:
            rep.fail("normal_form_raises:" + err_class(exc), case,
                     "normal_form raised %s" % repr(exc)[:160])
        return None

    def in_process(mem, left, famname, walks, lean, walk_steps=80):
        fam = fams[famname]
        cls = fam.m.Diagram
        spec = mem["spec"]
        d = fam.run(spec)
        want = ser_diagram(fam.run(mem["nf"][left]))
        p, st = sc.spec_passes(spec, left)
        passes_seen.append(p)
        case = case_of(mem, left, diagram_family=famname, passes=p, exchanges=st)
        rep.count("scaling:%s" % mem["family"])
        rep.count("scaling_passes:%s" % ("1" if p == 1 else "2-99" if p < 100 else "100-999"
                                           if p < 1000 else "1000+"))
        rep.case("scaling %s %d %s %s %s" % (mem["family"], mem["size"], mem["unique"], left, famname),
                 p > 1)
        nf = normal_form_of(case, cls, d, left)
        if nf is None:
            return
        judge(case, d, nf, mem, left, want)
        # fixed point, as a second call and as an empty trace
        try:
            if cls.normal_form(nf, left=left) != nf:
                rep.fail("not_idempotent", case, "normal_form(normal_form(d)) != normal_form(d)")
            if list(itertools.islice(cls.normalize(nf, left=left), 1)):
                rep.fail("normal_form_not_terminal", case, "normalize yields on a normal form")
        except Exception as exc:
            rep.fail("normal_form_raises:" + err_class(exc), case,
                     "normalising the normal form again raised %s" % repr(exc)[:160])
        # canonicity: other members of the class reach the same value
        for _ in range(walks):
            wspec = sc.spec_walk(random.Random(rng.getrandbits(32)), spec, walk_steps)
            wcase = case_of(mem, left, spec=wspec, diagram_family=famname, member="random walk")
            wnf = normal_form_of(wcase, cls, fam.run(wspec), left)
            rep.count("scaling:class_members")
            if wnf is not None and ser_diagram(wnf) != want:
                rep.fail("not_canonical:scaling", wcase,
                         "a member of the class has another normal form than the closed form")
        # the Lean model on the same input: value, and the whole trace
        if lean and famname == "monoidal":
            real = "ok " + ser_diagram(nf)
            model = drv.ask("eval " + tok_expr(("normal_form", spec, left)))
            rep.count("scaling:model_normal_form")
            if real != model:
                rep.disagree("normal_form-scaling", case, real[:300], model[:300])
            if st <= (1200 if quick else 3000):
                try:
                    steps = list(itertools.islice(cls.normalize(d, left=left), st + 10))
                except Exception as exc:
                    rep.fail("normalize_raises:" + err_class(exc), case, repr(exc)[:160])
                    return
                realt = "ok 1 " + " ".join([str(len(steps))] + [ser_diagram(x) for x in steps])
                mine = drv.ask("ntrace %d %d %s" % (1 if left else 0, p + 5, tok_expr(spec)))
                rep.count("scaling:model_trace")
                if mine != realt:
                    rep.disagree("ntrace-scaling", case, realt[:300], mine[:300])

    def rand_branches(lo, hi, shape=None):
        r = random.Random(rng.getrandbits(64))
        shape = shape or r.choice(["worst-right", "worst-left", "bubble-right", "bubble-left",
                                   "shuffle", "shuffle"])
        if shape == "bubble-right":
            m, lens = 2, [1, r.randint(lo, hi)]
        elif shape == "bubble-left":
            m, lens = 2, [r.randint(lo, hi), 1]
        else:
            m = r.randint(2, 4)
            lens = [r.randint(max(1, lo // m), max(2, hi // m)) for _ in range(m)]
        src = r.random() < 0.75
        mem = sc.branches_member(r, m, lens, shape, maxw=r.choice([1, 2, 3]), src=src,
                                 snk=(not src) or r.random() < 0.7)
        sc.self_check(mem)
        return mem

    def spiral_mem(n, mirrored, unique):
        mem = sc.spiral_member(n, mirrored, unique)
        sc.self_check(mem)
        return mem

    # ---- mid sizes: oracle + class members + the Lean model
    mids = []
    for mirrored in (False, True):
        for n in rng.sample(range(3, 10) if quick else range(3, 13), 2 if quick else 4):
            mids.append(spiral_mem(n, mirrored, rng.random() < 0.7))
    for k, shape in enumerate(["worst-right", "worst-left", "bubble-right", "bubble-left", "shuffle",
                               "shuffle"] * (1 if quick else 3)):
        mids.append(rand_branches(10, 44 if quick else 80, shape))
    for mem in mids:
        famname = "monoidal" if rng.random() < 0.75 else "rigid"
        for left in (False, True):
            in_process(mem, left, famname, walks=1 if quick else 2, lean=True)

    walls["mid_s"], t0 = round(time.time() - t0, 1), time.time()
    # ---- large sizes: more passes than the default recursion limit allows frames
    hard_mirrored = rng.random() < 0.5
    if quick:       # (member, preference under which it is far from normal, other class members)
        larges = [(spiral_mem(24, hard_mirrored, rng.random() < 0.5), hard_mirrored, 0),
                  (spiral_mem(13, not hard_mirrored, True), not hard_mirrored, 0),
                  (rand_branches(180, 220, "bubble-right" if hard_mirrored else "bubble-left"),
                   not hard_mirrored, 0)]
    else:
        larges = [(spiral_mem(26, False, True), False, 0), (spiral_mem(26, True, False), True, 0),
                  (spiral_mem(20, hard_mirrored, False), hard_mirrored, 1),
                  (rand_branches(1100, 1150, "bubble-right"), False, 0),
                  (rand_branches(500, 520, "bubble-left"), True, 1),
                  (rand_branches(100, 130, "worst-right"), False, 1),
                  (rand_branches(100, 130, "worst-left"), True, 1)]
    for mem, hard_left, walks in larges:
        in_process(mem, hard_left, "monoidal", walks=walks, lean=False, walk_steps=400)
        in_process(mem, not hard_left, "monoidal", walks=0, lean=False)     # already normal: 1 pass
    walls["large_s"], t0 = round(time.time() - t0, 1), time.time()
    # ---- LOW STACK: the same call with the recursion limit far below the number of passes.
    # The limit leaves every implementation whose stack use is bounded by the SIZE of the diagram
    # (50 frames + 2 per box) untouched; only stack growth per PASS can hit it.
    cases, metas = [], []

    def low(mem, left, famname, spec=None, member="base"):
        spec = spec or mem["spec"]
        limit = 50 + 2 * len(spec[3])
        p, st = sc.spec_passes(spec, left)
        cases.append(dict(family=famname, spec=spec, left=left, limit=limit))
        metas.append((mem, left, famname, spec, limit, p, member))

    for mirrored in (False, True):
        for n in rng.sample(range(9, 11) if quick else range(9, 16), 1 if quick else 3):
            mem = spiral_mem(n, mirrored, rng.random() < 0.5)
            famname = "monoidal" if rng.random() < 0.6 else "rigid"
            low(mem, mirrored, famname)
            low(mem, not mirrored, famname)
            low(mem, mirrored, famname, member="random walk",
                spec=sc.spec_walk(random.Random(rng.getrandbits(32)), mem["spec"], 60))
    for shape in ["worst-right", "worst-left", "shuffle"] * (1 if quick else 3):
        mem = rand_branches(20, 40 if quick else 90, shape)
        low(mem, False, "monoidal")
        low(mem, True, "monoidal")
    answers, stderr = sc.run_low_stack(cases, timeout=120 if quick else 400)
    for ans, (mem, left, famname, spec, limit, p, member) in zip(answers, metas):
        case = case_of(mem, left, spec=spec, diagram_family=famname, passes=p, member=member,
                       recursion_limit=limit, how="subprocess: sys.setrecursionlimit(%d) around "
                       "Diagram.normal_form(d, left=%s)" % (limit, left))
        rep.count("scaling:low_stack")
        rep.count("scaling:low_stack_passes_%s_limit" % ("above_1.5x" if p > 1.5 * limit else "below"))
        rep.case("lowstack %s %d %s %s %s %s" % (mem["family"], mem["size"], mem["unique"], left,
                                                famname, member), p > 1.5 * limit)
        if ans is None:
            rep.fail("low_stack_no_answer", case, "the worker produced no answer: " + stderr)
        elif ans["status"] == "err" and ans["cls"] == "notimpl":
            rep.fail("connected_not_normalised", case, "NotImplementedError on a connected diagram")
        elif ans["status"] == "err":
            rep.fail("normal_form_raises_under_low_recursion_limit:" + ans["cls"], case,
                     "normal_form needs %d passes and returns under the default recursion limit; "
                     "with the limit at %d it raised %s" % (p, limit, ans["msg"]))
        else:
            want = ser_diagram(fams[famname].run(mem["nf"][left]))
            if ans["nf"] != want:
                rep.fail("scaling:not_the_closed_form_normal_form", case,
                         "normal form under a low recursion limit differs from the closed form")
    walls["low_stack_s"] = round(time.time() - t0, 1)
    rep.extra["scaling"] = dict(
        wall=walls, max_passes=max(passes_seen), members=len(passes_seen), low_stack_cases=len(cases),
        note="closed-form normal forms verified independently (well typed, same wiring, no redex) "
             "by c06_scale.self_check; pass counts from an integer-list sweep (statistics only)")


def run(tier, seed, replay=None):
    from discopy import monoidal
    rep = Report(PROP, tier, seed)
    rep.rule = ("random monoidal diagrams (0-7 boxes; connected ones grown so that every new box "
                "consumes an existing wire, and unconstrained ones); both left settings; the code's "
                "normalize() trace (capped at %d steps) is checked step by step against the model's "
                "step relation; non-trivial = trace of >= 1 step; thorough adds exhaustive "
                "interchanger classes; SCALING stream: worst-case families (spirals of "
                "test_monoidal.build_spiral and their mirror images, parallel branches in worst-case / "
                "bubble / shuffled order, with boxes that widen and narrow their branch) at growing "
                "sizes, up to > 1100 passes in quick, compared with their closed-form normal forms; "
                "non-trivial there = more than one pass (low-stack part: passes > 1.5 x the lowered "
                "recursion limit); CONVENTIONS stream: normal_form as a METHOD of monoidal / rigid / "
                "tensor / circuit / zx diagrams (grown from each class's own boxes, with yankable "
                "cup/cap pairs), keywords normalizer= (monoidal.Diagram.normalize, the class's own, "
                "functools.partial with left baked in, lambda, recording and step-bounded wrappers, "
                "None, positional) and left=; non-trivial there = the given normalizer's trace has "
                ">= 1 step; DISCONNECTED stream: scalars, closed loops nested / side by side, "
                "independent components, a scalar inside a connected diagram, each also after random "
                "walks of legal exchanges; non-trivial there = the trace leaves the input and cycles "
                "elsewhere (tail-then-cycle)" % CAP)
    rep.partial = ["termination for connected diagrams (C06_termination) and canonicity "
                   "(C06_canonicity) are NOT proved; supported by the class exploration below",
                   "the interpreter's stack (recursion limit) is outside the Lean model: the large and "
                   "low-stack parts of the SCALING stream are oracle-only (closed-form normal forms, "
                   "checked independently to be well typed, in the class and redex-free); the model is "
                   "compared on the mid-size members only (value and full trace)",
                   "CONVENTIONS stream: tensor / circuit / zx receivers are outside the typed Lean "
                   "models of those classes here; the model is compared on what the MONOIDAL normal "
                   "form sees (every box, cup, gate, spider as a generic box with its arity): value or "
                   "NotImplementedError of d.normal_form(normalizer=monoidal.Diagram.normalize, "
                   "left=..); the class's own normalize (snake removal) is C07's subject: here only "
                   "`the result is the last step of the trace of the normalizer that was given`",
                   "the wall-clock budget around plain calls (interval timer) is outside the model; "
                   "the step-bounded normalizer is the deterministic form of the same demand"]
    rep.assumptions = ["SCALING low-stack part: an implementation may use stack proportional to the "
                       "SIZE of the diagram (limit = 50 frames + 2 per box) but not to the number of "
                       "passes; the closed forms are THE normal forms by uniqueness of the redex-free "
                       "member of a connected class (arXiv:1804.07832)",
                       "`non-termination is reported`: a trace whose first repeated yield has index T "
                       "must be answered (fixed point or NotImplementedError) within 10(T+1)+100 "
                       "rewrite steps of the given normalizer and within %.0f s of wall clock on "
                       "diagrams of at most 12 boxes; T is found by the harness's own table of "
                       "(boxes, offsets) keys over the normalize generator" % cv.GUARD_S]
    rep.lean = lean_obligations(PROP, thorough=(tier == "thorough"))
    n_diagrams = 150 if tier == "quick" else 3000
    n_classes = 25 if tier == "quick" else 900
    rng = random.Random(seed)
    drv = Driver()
    fam = Family("monoidal")
    strategy_differs = 0
    import time
    walls, tmark = {}, [time.time()]

    def lap(name):
        walls[name] = round(time.time() - tmark[0], 1)
        tmark[0] = time.time()
    walls["lean_s"] = rep.lean.get("wall_s")
    rep.extra["walls"] = walls
    try:
        for k in range(n_diagrams):
            if k % 5 == 4:
                e = twins(random.Random(rng.getrandbits(64)))
            elif k % 5 == 3:
                e = parallel_connected(random.Random(rng.getrandbits(64)))
            else:
                g = Gen(random.Random(rng.getrandbits(64)), rigid=False, maxw=5)
                e, _ = g.diagram(depth=rng.choice([0, 1, 2, 3, 3, 4, 4, 5, 6, 7]))
            d = fam.run(e)
            conn = is_connected(d)
            rep.count("connected" if conn else "disconnected")
            for left in (False, True):
                case = dict(expr=repr(e), left=left)
                gen = monoidal.Diagram.normalize(d, left=left)
                try:
                    steps = list(itertools.islice(gen, CAP))
                    finished = len(steps) < CAP
                    err = None
                except Exception as exc:
                    steps, finished, err = [], False, err_class(exc)
                if err is not None:
                    rep.fail("normalize_raises:" + err, case, "normalize raised " + err)
                    continue
                rep.count("trace_len:%s" % (len(steps) if len(steps) < 10 else "10+"))
                # -- relational correspondence: every step legal for the model, last terminal
                line = "rtrace %d %s %s" % (
                    1 if left else 0, tok_expr(e),
                    " ".join([str(len(steps))] + [tok_expr(spec_diagram(s)) for s in steps]))
                ans = drv.ask(line)
                want = "accepted terminal=%d" % (1 if finished else 0)
                if not ans.startswith("accepted") or (finished and ans != want):
                    rep.disagree("rtrace", case, want, ans)
                # -- functional comparison with the model's own transcription (strategy)
                if finished:
                    mine = drv.ask("ntrace %d %d %s" % (1 if left else 0, CAP, tok_expr(e)))
                    real = "ok 1 " + " ".join([str(len(steps))] + [ser_diagram(s) for s in steps])
                    if mine != real:
                        strategy_differs += 1
                        rep.disagree("ntrace", case, real[:300], mine[:300])
                rep.case(line, len(steps) >= 1)
                rep.sample(dict(request=line[:300], answer=ans))
                # -- oracle on the real trace
                F = IntFunctor(random.Random(rng.getrandbits(32)))
                ref = F.eval(d)
                prev = d
                for idx, s in enumerate(steps[:60]):
                    why = wf_failure(s)
                    if why:
                        rep.fail("illtyped_step", case, "step %d: %s" % (idx, why))
                        break
                    if s.dom != d.dom or s.cod != d.cod:
                        rep.fail("step_type_changed", case, "step %d" % idx)
                    if sorted(map(repr, s.boxes)) != sorted(map(repr, d.boxes)):
                        rep.fail("step_boxes_changed", case, "step %d" % idx)
                    if not legal_single_exchange(prev, s, left):
                        rep.fail("step_not_single_interchange", case, "step %d" % idx)
                    if not np.array_equal(F.eval(s), ref):
                        rep.fail("step_semantics_changed", case, "step %d" % idx)
                    prev = s
                # -- normal_form: value / NotImplementedError (under a wall-clock budget: a trace
                # that does not end must be REPORTED, a call that does not come back is a failure)
                value = [None]
                if not finished:
                    # the deterministic form first: where does the trace repeat (own table of
                    # keys), and is that reported within the step budget
                    try:
                        st2, rep_at, fin2 = cv.guarded(lambda: cv.read_trace(
                            monoidal.Diagram.normalize(d, left=left), cv.step_limit(len(d.boxes))))
                    except Exception as exc:
                        rep.fail("normalize_raises:" + err_class(exc), case, repr(exc)[:200])
                        continue
                    if rep_at is None and not fin2:
                        rep.count("unresolved_long_trace")
                        continue
                    bud = cv.budget_for(st2, rep_at, fin2)
                    gotb = cv.outcome(lambda: monoidal.Diagram.normal_form(
                        d, normalizer=cv.bounded(monoidal.Diagram.normalize, bud), left=left))
                    if gotb[0] == "gaveup":
                        rep.fail("nontermination_not_reported", dict(
                            case, call="monoidal.Diagram.normal_form(d, normalizer=BOUNDED("
                            "monoidal.Diagram.normalize, %d), left=%s)" % (bud, left)),
                            "the trace repeats at step %r a diagram it yielded before; normal_form read "
                            "%d steps without returning or raising NotImplementedError" % (rep_at, bud))
                        continue
                got = cv.outcome(lambda: monoidal.Diagram.normal_form(d, left=left),
                                 risky=not finished)
                if got[0] == "skipped":
                    continue
                if got[0] == "hang":
                    rep.fail("nontermination_not_reported", case,
                             "normalize yields more than %d steps; normal_form neither returned nor "
                             "raised NotImplementedError within %.0f s" % (CAP, cv.GUARD_S))
                    continue
                if got[0] == "ok":
                    value[0] = got[1]
                    real_nf = "ok " + ser_diagram(got[1])
                else:
                    real_nf = "err " + ("notimpl" if got[0] == "notimpl" else got[1])
                model_nf = drv.ask("eval " + tok_expr(("normal_form", e, left)))
                if real_nf != model_nf:
                    rep.disagree("normal_form", case, real_nf[:300], model_nf[:300])
                if value[0] is None:
                    rep.count("nf:" + real_nf.split(" ")[1])
                    if real_nf != "err notimpl":
                        rep.fail("normal_form_raises:" + real_nf.split(" ")[1], case, real_nf)
                    elif conn:
                        rep.fail("connected_not_normalised", case,
                                 "NotImplementedError on a connected diagram")
                else:
                    nf = value[0]
                    rep.count("nf:ok")
                    try:
                        again = monoidal.Diagram.normal_form(nf, left=left)
                        if again != nf:
                            rep.fail("not_idempotent", case, "normal_form(normal_form(d)) != normal_form(d)")
                        if list(monoidal.Diagram.normalize(nf, left=left)):
                            rep.fail("normal_form_not_terminal", case, "normalize yields on a normal form")
                    except Exception as exc:
                        rep.fail("normal_form_raises:" + err_class(exc), case,
                                 "normalising the normal form again raised %r" % (exc,))
                    # the normal form is a member of the input's class: normalising IT with the
                    # other preference must give the input's other normal form (canonicity across
                    # a two-call history on the same object)
                    if conn:
                        try:
                            other_direct = monoidal.Diagram.normal_form(d, left=not left)
                            other_via = monoidal.Diagram.normal_form(nf, left=not left)
                            if other_direct != other_via:
                                rep.fail("not_canonical:via_other_normal_form", case,
                                         "normal_form(normal_form(d, left=%s), left=%s) differs from "
                                         "normal_form(d, left=%s)" % (left, not left, not left))
                        except NotImplementedError:
                            rep.fail("connected_not_normalised", case,
                                     "NotImplementedError on a connected diagram (other preference)")
                        except Exception as exc:
                            rep.fail("normal_form_raises:" + err_class(exc), case,
                                     "normal_form with the other preference raised %r" % (exc,))
        lap("random_s")
        # ---- canonicity on whole interchanger classes of connected diagrams
        explored = exhaustive = members = 0
        while explored < n_classes:
            if explored % 3 == 2:
                e = twins(random.Random(rng.getrandbits(64)))
            elif explored % 3 == 1:
                e = parallel_connected(random.Random(rng.getrandbits(64)))
            else:
                g = Gen(random.Random(rng.getrandbits(64)), rigid=False, maxw=4)
                e, _ = g.diagram(depth=rng.choice([2, 3, 3, 4, 4, 5]))
            d = fam.run(e)
            if not is_connected(d) or len(d.boxes) < 2:
                continue
            explored += 1
            cls, complete = exchange_class(d)
            exhaustive += complete
            members += len(cls)
            for left in (False, True):
                nfs = set()
                for m in cls:
                    try:
                        nfs.add(monoidal.Diagram.normal_form(m, left=left))
                    except NotImplementedError:
                        rep.fail("connected_not_normalised", dict(expr=repr(e), left=left,
                                 member=repr(m)), "NotImplementedError in a connected class")
                        break
                    except Exception as exc:
                        rep.fail("normal_form_raises:" + err_class(exc), dict(expr=repr(e), left=left,
                                 member=repr(m)), repr(exc)[:200])
                        break
                if len(nfs) > 1:
                    rep.fail("not_canonical", dict(expr=repr(e), left=left),
                             "%d distinct normal forms in one interchanger class" % len(nfs))
            rep.case("class " + tok_expr(e), len(cls) >= 2)
        lap("classes_s")
        # ---- long traces: the spiral family (connected, worst case) and random members of its class
        spirals = 0
        for n in range(1, 5 if tier == "quick" else 7):
            e = spiral_spec(n)
            base = fam.run(e)
            members = [base] + [random_walk(random.Random(rng.getrandbits(32)), base, 40)
                                for _ in range(2 if tier == "quick" else 6)]
            for left in (False, True):
                nfs = set()
                for idx, m in enumerate(members):
                    case = dict(spiral=n, left=left, member=repr(m)[:300])
                    try:
                        steps = list(itertools.islice(monoidal.Diagram.normalize(m, left=left), 6000))
                        nfs.add(monoidal.Diagram.normal_form(m, left=left))
                    except NotImplementedError:
                        rep.fail("connected_not_normalised", case,
                                 "NotImplementedError on a member of the class of spiral(%d)" % n)
                        continue
                    except Exception as exc:
                        rep.fail("normal_form_raises:" + err_class(exc), case, repr(exc)[:200])
                        continue
                    if idx == 0 and len(steps) < 1500:
                        line = "rtrace %d %s %s" % (
                            1 if left else 0, tok_expr(e),
                            " ".join([str(len(steps))] + [tok_expr(spec_diagram(x)) for x in steps]))
                        ans = drv.ask(line)
                        if ans != "accepted terminal=1":
                            rep.disagree("rtrace-spiral", case, "accepted terminal=1", ans)
                        rep.case("spiral %d %s" % (n, left), True)
                        rep.count("spiral_trace_len:%d" % len(steps))
                    spirals += 1
                if len(nfs) > 1:
                    rep.fail("not_canonical", dict(spiral=n, left=left),
                             "%d distinct normal forms in the class of spiral(%d)" % (len(nfs), n))
        rep.extra["spiral_members_normalised"] = spirals
        lap("spirals_s")
        # ---- SCALING: worst-case families at growing sizes, closed forms, low recursion limit
        scaling_stream(rep, random.Random(rng.getrandbits(64)), drv, tier, seed)
        # ---- CALLING CONVENTIONS: normal_form as a method of every class that inherits it, with
        # its documented keywords; DISCONNECTED family: non-termination must be reported
        lap("scaling_s")
        cv.conventions_stream(rep, random.Random(rng.getrandbits(64)), drv, tier)
        lap("conventions_s")
        cv.disconnected_stream(rep, random.Random(rng.getrandbits(64)), drv, tier,
                               [parallel_connected, twins])
        lap("disconnected_s")
        # ---- exhaustive small scope: ALL diagrams over the 8-box signature up to 3 (quick) / 4
        # (thorough) boxes: traces accepted by the model, normal forms compared, and the space
        # partitioned into interchanger classes (closure under legal exchanges) to check
        # canonicity and "NotImplementedError only for disconnected diagrams" on every class
        a_, b_ = ("a", 0), ("b", 0)
        depth = 3 if tier == "quick" else 4
        small = enumerate_diagrams(small_signature(), [[], [a_], [a_, b_]], depth, 4)
        key = lambda x: (tuple(map(repr, x.boxes)), tuple(x.offsets), repr(x.dom))
        real = {}
        for e in small:
            d = fam.run(e)
            real[key(d)] = (e, d)
        parent = {k: k for k in real}

        def find(k):
            while parent[k] != k:
                parent[k] = parent[parent[k]]
                k = parent[k]
            return k
        nf_of = {}
        for k, (e, d) in real.items():
            for i in range(len(d.boxes) - 1):
                sim = simulate(d, i, i + 1, False)
                if sim[0] == "ok":
                    k2 = (tuple(map(repr, sim[1])), tuple(sim[2]), repr(d.dom))
                    if k2 in parent:
                        parent[find(k)] = find(k2)
            for left in (False, True):
                case = dict(expr=repr(e), left=left, stream="small-scope")
                try:
                    # only traces of <= 40 steps are used below: reading 41 steps decides that (a
                    # non-terminating diagram of this scope cycles with a period of a few steps)
                    steps = list(itertools.islice(monoidal.Diagram.normalize(d, left=left), 41))
                except Exception as exc:
                    rep.fail("normalize_raises:" + err_class(exc), case, repr(exc)[:200])
                    continue
                if len(steps) <= 40:
                    line = "rtrace %d %s %s" % (
                        1 if left else 0, tok_expr(e),
                        " ".join([str(len(steps))] + [tok_expr(spec_diagram(x)) for x in steps]))
                    ans = drv.ask(line)
                    if ans != "accepted terminal=1":
                        rep.disagree("rtrace-small", case, "accepted terminal=1", ans)
                    rep.case("small " + line[:200], len(steps) >= 1)
                got = cv.outcome(lambda: monoidal.Diagram.normal_form(d, left=left),
                                 risky=len(steps) > 40)
                if got[0] == "ok":
                    nf_of[(k, left)] = got[1]
                elif got[0] == "notimpl":
                    nf_of[(k, left)] = None
                elif got[0] == "hang":
                    rep.fail("nontermination_not_reported", case,
                             "normalize yields more than 40 steps (all diagrams of this scope that "
                             "terminate do so earlier); normal_form neither returned nor raised "
                             "NotImplementedError within %.0f s" % cv.GUARD_S)
                elif got[0] == "exc":
                    rep.fail("normal_form_raises:" + got[1], case, got[2])
        classes = {}
        for k in real:
            classes.setdefault(find(k), []).append(k)
        n_conn = 0
        for root, members in classes.items():
            conn = all(is_connected(real[k][1]) for k in members)
            if not conn:
                continue
            n_conn += 1
            for left in (False, True):
                nfs = {repr(nf_of.get((k, left))) for k in members}
                if "None" in nfs:
                    rep.fail("connected_not_normalised", dict(expr=repr(real[members[0]][0]), left=left),
                             "NotImplementedError in a connected class (small scope)")
                elif len(nfs) > 1:
                    rep.fail("not_canonical", dict(expr=repr(real[members[0]][0]), left=left),
                             "%d normal forms in one class (small scope)" % len(nfs))
        lap("small_scope_s")
        rep.extra["exhaustive_small_scope"] = dict(
            diagrams=len(real), classes=len(classes), connected_classes=n_conn, exhaustive=True,
            scope="all diagrams over the 8-box signature, domains (), a, a@b, width <= 4, "
                  "depth <= %d; classes = closure under legal adjacent exchanges within the scope" % depth,
            note="exhaustive for this finite space; support for the unproved clauses, not a theorem")
        rep.extra["interchanger_classes"] = dict(explored=explored, complete=exhaustive,
                                                 members=members,
                                                 note="support for the unproved clauses, not a theorem")
    finally:
        drv.close()
    rep.extra["strategy_differs"] = strategy_differs
    return rep.finish()
