"""C03 — equality is structural, hash-consistent and printable (cat, monoidal, rigid).

For every generated value (types, objects, boxes, diagrams, sums; plus bubbles and cat arrows on
the real code only) a POOL is built: the same value through different construction histories,
plus near-miss mutants.  On every pool the oracle checks, on the real code:
  ==  reflexive, symmetric, transitive (all pairs / triples, mixed Box / Diagram included);
  ==  holds exactly when (dom, cod, boxes, offsets) — resp. objects, terms — agree;
  a == b  =>  hash(a) == hash(b);  usable as key of a Functor's mapping;
  a box == the one-box diagram that wraps it;
  eval(repr(v)) == v   (namespace: `from discopy.<module> import *`).
Model correspondence: `repr(v)` against the model's `repr` (exact strings), `==` against the
model's `eqv` / `beqv` / `seqv`.

Values with a PAST (harness/c03hist.py): every generated diagram / box / type / sum / cat arrow is
first used (hashed, keyed in dicts, sets and a functor's mapping, compared, printed), then values
are derived from it (downgrade, dagger, slices, items, @, >>, upgrade, normal form, transpose,
bubble, repr-eval; in-place mutation of a box's `data` last) and compared — ==, hash, dict / set /
functor lookup, printed form — with a never-used twin and with a value rebuilt by fresh constructor
calls from its own fields; `hash(x)` must not change between calls on an unmutated object.  The
derived values' printed forms and `==` go to the model too (`dgrepr`, `dgeqv`, `dgboxrepr`:
Model/Downgrade.lean).  Calling conventions: list- against tuple-valued constructor arguments.

The PRO type classes (harness/c03pro.py, Model/ReprPRO.lean): PRO types through their construction
histories, boxes / diagrams / sums over PRO types, and PRO types as keys of a functor's mapping.
"""
import itertools
import random

import common
import core
from common import Driver, Report, lean_obligations, err_class, ser_ty, ser_box, ser_list
from core import Family, Gen, tok_expr, tok_ty, tok_box, ty_l, ty_r
from sums import SumGen, run_sum, tok_sexpr
import c03hist
import c03pro

PROP = "C03"
DOT = "·"


def exact_tok(x):
    """Token of a name / data payload: its Python repr, spaces made visible (the line protocol
    splits on spaces; the model treats tokens as opaque, the harness maps them back)."""
    r = repr(x)
    assert DOT not in r
    return r.replace(" ", DOT)


# this check compares printed forms exactly, so tokens must keep their inner spaces; every
# check runs in its own process, the switch does not leak
core.tokname = exact_tok
common.tokname = exact_tok


def unesc(s):
    return s.replace(DOT, " ")


# --------------------------------------------------------------------------- generators

class Gen3(Gen):
    """Names: identifier-like strings and ints (values whose own repr is injective); data: None,
    ints, floats, lists/dicts of numbers — never a string inside `data` (cat.py:500-507 recurses)."""

    def __init__(self, rng, rigid):
        super().__init__(rng, rigid=rigid, maxw=5, names=["a", "b", "c", "d", 1, 2])

    def gbox(self, dom, cod=None):
        b = super().gbox(dom, cod)
        r = self.rng
        if r.random() < 0.2:
            b["name"] = r.choice([0, 3, 7, "g_1", "Alice"])
        if r.random() < 0.25:
            b["data"] = r.choice([0, 1, -2, [1, 2], {"k": 3}, {1: [2, 3]}, 2.5, [[1], [2, 3]], []])
        return b


def histories(g, e, scans):
    """The same diagram through different construction histories: list of (label, expr)."""
    r = g.rng
    _, dom, cod, boxes, offsets = e
    n = len(boxes)
    out = [("mk", e)]

    def layer(k):
        left = scans[k][:offsets[k]]
        right = scans[k][offsets[k] + len(boxes[k]["dom"]):]
        return ("tensor", ("tensor", ("id", left), ("box", boxes[k])), ("id", right))
    if n:
        ls = [layer(k) for k in range(n)]
        acc = ls[0]
        for x in ls[1:]:
            acc = ("then", acc, x)
        out.append(("layers_left_assoc", ("then", ("id", dom), acc)))
        acc = ls[-1]
        for x in reversed(ls[:-1]):
            acc = ("then", x, acc)
        out.append(("layers_right_assoc", acc))
        k = r.randint(0, n)
        out.append(("split_mk", ("then", ("mk", dom, scans[k], boxes[:k], offsets[:k]),
                                 ("mk", scans[k], cod, boxes[k:], offsets[k:]))))
        i = r.randint(-n - 1, n + 1)
        out.append(("slices", ("then", ("slice", e, None, i), ("slice", e, i, None))))
        acc = ("getitem", e, 0)
        for k in range(1, n):
            acc = ("then", acc, ("getitem", e, k))
        out.append(("items", acc))
    else:
        out.append(("id", ("id", dom)))
        out.append(("id_then_id", ("then", ("id", dom), ("id", dom))))
    out.append(("dagger_dagger", ("dagger", ("dagger", e))))
    out.append(("unit_tensor", ("tensor", ("id", []), ("tensor", e, ("id", [])))))
    if n == 1 and dom == boxes[0]["dom"]:
        out.append(("bare_box", ("box", boxes[0])))
        out.append(("box_then_id", ("then", ("box", boxes[0]), ("id", cod))))
    return out


def mutate_box(g, b):
    r = g.rng
    b = dict(b)
    if b["kind"] != "g":
        return dict(kind="g", name="m", dom=b["dom"], cod=b["cod"], dagger=False, data=None)
    how = r.choice(["name", "data", "dagger"])
    if how == "name":
        b["name"] = "z9" if b["name"] != "z9" else "z8"
    elif how == "data":
        b["data"] = [9] if b["data"] != [9] else None
    else:
        b["dagger"] = not b["dagger"]
    return b


def mutants(g, e, scans):
    """Near misses: well-typed diagrams differing in exactly one of dom, cod, boxes, offsets."""
    r = g.rng
    _, dom, cod, boxes, offsets = e
    n = len(boxes)
    out = []
    if n:
        k = r.randrange(n)
        bs = list(boxes)
        bs[k] = mutate_box(g, boxes[k])
        out.append(("mut_box", ("mk", dom, cod, bs, offsets)))
        out.append(("drop_last", ("mk", dom, scans[-2], boxes[:-1], offsets[:-1])))
        # move a scalar / state box one wire along: same boxes, different offsets
        for k in range(n):
            if not boxes[k]["dom"] and not boxes[k]["cod"] and len(scans[k]) > offsets[k]:
                os = list(offsets)
                os[k] += 1
                out.append(("mut_offset", ("mk", dom, cod, boxes, os)))
                break
    extra = g.ob()
    out.append(("wider", ("tensor", e, ("id", [extra]))))
    out.append(("extra_box", ("then", e, ("box", g.gbox(cod, cod)))))
    return out


def ty_histories(g, t, rigid):
    r = g.rng
    k = r.randint(0, len(t))
    out = [("ty", ("ty", t)), ("tensor", ("tytensor", t[:k], t[k:])), ("slices", ("tyslices", t, k))]
    if rigid:
        out += [("l_r", ("tylr", t)), ("r_l", ("tyrl", t))]
    muts = [("longer", ("ty", t + [g.ob()]))]
    if t:
        j = r.randrange(len(t))
        s = list(t)
        s[j] = ("q" if s[j][0] != "q" else "p", s[j][1])
        muts.append(("renamed", ("ty", s)))
        if rigid:
            s = list(t)
            s[j] = (s[j][0], s[j][1] + r.choice([-1, 1]))
            muts.append(("wound", ("ty", s)))
        if t != t[::-1]:
            muts.append(("reversed", ("ty", t[::-1])))
        muts.append(("shorter", ("ty", t[:-1])))
    return out, muts


def run_ty(F, e):
    op = e[0]
    if op == "ty":
        return F.ty(e[1])
    if op == "tytensor":
        return F.ty(e[1]) @ F.ty(e[2])
    if op == "tyslices":
        t = F.ty(e[1])
        return t[:e[2]] @ t[e[2]:]
    if op == "tylr":
        return F.ty(e[1]).l.r
    if op == "tyrl":
        return F.ty(e[1]).r.l
    raise ValueError(op)


def ty_spec(e):
    return e[1] if e[0] != "tytensor" else e[1] + e[2]


# --------------------------------------------------------------------------- structural keys

def key_diagram(v):
    """(dom, cod, boxes, offsets) — what the property says `==` is determined by."""
    return "D %s | %s | %s | %s" % (ser_ty(v.dom), ser_ty(v.cod), ser_list(ser_box, v.boxes),
                                   " ".join(str(int(o)) for o in v.offsets))


def key_ty(t):
    return "T " + ser_ty(t)


def key_sum(s):
    return "S %s | %s | %s" % (ser_ty(s.dom), ser_ty(s.cod), " ; ".join(key_diagram(t) for t in s.terms))


def key_bubble(b):
    inside = b.inside
    return "B %s | %s | [%s]" % (ser_ty(b.dom), ser_ty(b.cod), key_any(inside))


def key_any(v):
    from discopy import cat, monoidal
    if isinstance(v, cat.Sum):
        return key_sum(v)
    if isinstance(v, cat.Bubble):
        return key_bubble(v)
    if isinstance(v, monoidal.Ty):
        return key_ty(v)
    if isinstance(v, monoidal.Diagram):
        if any(isinstance(b, cat.Bubble) for b in v.boxes):
            return "D %s | %s | %s | %s" % (
                ser_ty(v.dom), ser_ty(v.cod),
                " ".join(key_bubble(b) if isinstance(b, cat.Bubble) else ser_box(b) for b in v.boxes),
                " ".join(str(int(o)) for o in v.offsets))
        return key_diagram(v)
    raise TypeError(v)


# --------------------------------------------------------------------------- the pool oracle

class PoolOracle:
    def __init__(self, rep, namespaces):
        self.rep, self.ns = rep, namespaces

    def check(self, kind, fam, pool, keyfn, case):
        """pool: list of (label, value).  Returns the matrix of `==` answers (for the model)."""
        rep = self.rep
        n = len(pool)
        eq = [[None] * n for _ in range(n)]
        keys = [keyfn(v) for _, v in pool]
        hashes = []
        bub = kind == "bubble"

        def fail(sig, text, **extra):
            rep.fail(sig, dict(case, kind=kind, family=fam, **extra), text)
        for i, (li, vi) in enumerate(pool):
            try:
                hashes.append(hash(vi))
            except Exception as exc:  # noqa
                hashes.append(None)
                fail("hash_raises:" + kind, "hash(%s) raised %r" % (li, exc), value=repr(vi)[:300])
            for j, (lj, vj) in enumerate(pool):
                try:
                    eq[i][j] = bool(vi == vj)
                except Exception as exc:  # noqa
                    fail("eq_raises:" + kind, "%s == %s raised %r" % (li, lj, exc))
                    eq[i][j] = False
        for i, (li, vi) in enumerate(pool):
            if not eq[i][i]:
                fail("eq_not_reflexive:" + kind, "%s != itself" % li, value=repr(vi)[:300])
            # printed form evaluates back to an equal value
            try:
                back = eval(repr(vi), dict(self.ns[fam]))
                if not (bool(back == vi) and bool(vi == back)):
                    fail("repr_eval_unequal:" + kind, "eval(repr(v)) != v for %s" % li,
                         repr=repr(vi)[:400])
                elif keyfn(back) != keys[i]:
                    fail("repr_eval_unequal:" + kind, "eval(repr(v)) differs structurally for %s" % li,
                         repr=repr(vi)[:400])
            except Exception as exc:  # noqa
                sig = "repr_eval_fails:" + kind
                if bub and isinstance(exc, SyntaxError) and ", dom=" in repr(vi):
                    sig = "bubble_repr_unbalanced_paren"
                fail(sig, "eval(repr(v)) raised %s for %s" % (type(exc).__name__, li),
                     repr=repr(vi)[:400])
        for i, j in itertools.combinations(range(n), 2):
            li, lj = pool[i][0], pool[j][0]
            pair = dict(a=li, b=lj, repr_a=repr(pool[i][1])[:300], repr_b=repr(pool[j][1])[:300])
            if eq[i][j] != eq[j][i]:
                fail("eq_not_symmetric:" + kind, "(%s == %s) is %s but (%s == %s) is %s" % (
                    li, lj, eq[i][j], lj, li, eq[j][i]), **pair)
            same = keys[i] == keys[j]
            if eq[i][j] != same:
                sig = "eq_not_structural:" + kind
                if bub and eq[i][j] and not same:
                    sig = "bubble_eq_ignores_inside"
                fail(sig, "%s == %s is %s but their (dom, cod, boxes, offsets) %s" % (
                    li, lj, eq[i][j], "agree" if same else "differ"), **pair)
            if eq[i][j] and hashes[i] is not None and hashes[i] != hashes[j]:
                sig = "hash_inconsistent:" + kind
                if bub and not same:
                    sig = "bubble_eq_ignores_inside"
                fail(sig, "%s == %s but their hashes differ" % (li, lj), **pair)
        for i, j, k in itertools.permutations(range(n), 3):
            if eq[i][j] and eq[j][k] and not eq[i][k]:
                fail("eq_not_transitive:" + kind, "%s == %s == %s but %s != %s" % (
                    pool[i][0], pool[j][0], pool[k][0], pool[i][0], pool[k][0]))
                break
        return eq


def namespaces():
    ns = {}
    for name in ("cat", "monoidal", "rigid"):
        d = {}
        exec("from discopy.%s import *" % name, d)
        ns[name] = d
    # a sum (or bubble) of rigid diagrams is a `monoidal.Sum` (`rigid` defines none) whose terms
    # print with rigid constructors: evaluate it where both are visible
    from discopy import monoidal
    ns["rigid"].setdefault("Sum", monoidal.Sum)
    ns["rigid"].setdefault("Bubble", monoidal.Bubble)
    return ns


# --------------------------------------------------------------------------- functor keys

def functor_key_checks(rep, fam, F, g, e, scans):
    """Equal values can be used interchangeably as keys of a Functor's mapping."""
    m = F.m
    _, dom, cod, boxes, offsets = e
    gens = []
    for b in boxes:
        if b["kind"] == "g":
            u = dict(b, dagger=False)
            if b["dagger"]:
                u["dom"], u["cod"] = b["cod"], b["dom"]
            if all(u != x for x in gens):
                gens.append(u)
    obs = []
    for sc in scans:
        for o in sc:
            if (o[0], 0) not in obs:
                obs.append((o[0], 0))
    for b in boxes:
        for o in list(b["dom"]) + list(b["cod"]):
            if (o[0], 0) not in obs:
                obs.append((o[0], 0))
    case = dict(family=fam, expr=repr(e)[:600])
    try:
        ob = {F.ty([o]): F.ty([o]) for o in obs}
        img = lambda u: F.box(dict(u, name=("img", u["name"])))          # same types, new name
        # keys: for half of the generators the Box instance, for the others the wrapping diagram
        ar = {}
        for k, u in enumerate(gens):
            box = F.box(u)
            key = box if k % 2 == 0 else m.Diagram(box.dom, box.cod, [box], [0])
            ar[key] = img(u)
        functor = m.Functor(ob, ar)
        d = F.run(e)                       # boxes built afresh: equal, not identical, to the keys
        out = functor(d)
        want = [("img", b["name"]) if b["kind"] == "g" else None for b in boxes]
        got = [b.name if kind == "g" else None
               for b, kind in zip(out.boxes, [common.box_kind(b) for b in out.boxes])]
        if fam == "monoidal" and got != want:
            rep.fail("functor_key_lookup", case, "functor image has boxes %r, expected %r" % (got, want))
        for u in gens:
            box = F.box(u)
            wrap = m.Diagram(box.dom, box.cod, [box], [0])
            for probe in (box, wrap):
                if probe not in ar or not bool(ar[probe] == img(u)):
                    rep.fail("functor_key_lookup", case,
                             "mapping lookup with an equal key failed for %r" % (probe,))
        rep.count("functor-key-checks")
    except Exception as exc:  # noqa
        rep.fail("functor_key_lookup", case, "functor application raised %r" % (exc,))


# --------------------------------------------------------------------------- the check

def run(tier, seed, replay=None):
    rep = Report(PROP, tier, seed)
    quick = tier != "thorough"
    rep.rule = ("pools of one value built through 6-10 construction histories (public constructor, "
                "layer-wise composition in both bracketings, split, slices, items, double dagger, "
                "unit tensors, bare box instance) plus 3-5 near-miss mutants; all pairs and triples "
                "checked; non-trivial = pool of a value with >= 2 boxes / objects / terms; distinct "
                "by (kind, family, token form of the value); history streams: each value is used in a "
                "random subset of 8 ways (hash, hash / set of its boxes, dict key, functor mapping, hash of "
                "its types, ==, repr; 10 % not at all), then 17-22 derivations (downgrade, dagger, slice, "
                "item, tensor, composition, upgrade, normal form, transpose, bubble, repr-eval and their "
                "compositions with downgrade) are compared with a never-used twin built through another "
                "construction history and with a rebuild from the derived value's own fields, and one "
                "of 5 in-place mutations of a box's data is compared with a fresh box carrying the new "
                "payload; non-trivial = value with >= 2 boxes / objects / terms; PRO streams: one PRO type "
                "(monoidal.PRO / rigid.PRO) through 15-19 construction histories plus 2-6 near misses, the diagram "
                "pools evaluated over PRO types, functors whose object mapping is keyed by a PRO(1) built through "
                "one of 9 histories (non-trivial = PRO type of >= 2 wires / diagram of >= 2 boxes)")
    rep.partial = [
        "`repr` determines the value up to ==: proved on the printed STRING (repr_inj, val_/sum_/"
        "reprBox_/reprTy_inj) under the explicit token-hygiene hypothesis TokensSafe (name and data "
        "tokens non-empty and free of , ( ) [ ] = : identifier-like strings, ints, floats); for "
        "list-/dict-valued data only the syntax-tree statement repr_inj_tree is proved "
        "(ReprInjAnyData is an unproved def); that Python's eval rebuilds an equal value is runtime "
        "behaviour — `eval(repr(v)) == v` is executed by the oracle on every generated value",
        "bubbles and cat.Arrow values are checked by the oracle on the real code only (no model)",
        "histories: the model's values carry no history and no identity, so that a value's hash / == / "
        "printed form do not depend on what was done to it (or to the objects it shares) before is "
        "checked by the oracle of the history streams on the real code; the model covers the derived "
        "VALUES (downgrade_total, downgrade_eqv_congr, downgrade_repr_congr, reprM_congr, box_downgrade_spec; "
        "in-place mutation = the value with the new payload); derivations through bubbles and values "
        "mixing monoidal and rigid classes (upgrade after downgrade) are oracle-only",
        "the printed form of a DOWNGRADED value does not determine it (downgraded_repr_not_inj): "
        "repr_inj is not claimed for them; finding F43b",
        "PRO types: pro_eq_iff, reprPRO_congr / pro_hash_congr, reprPRO_inj, pro_tensor, pro_slice are about the "
        "VALUES; that hash() is defined on the classes at all (a class that overrides __eq__ without __hash__ is "
        "unhashable) is checked by the oracle on every PRO value it builds; printed forms and functor images of "
        "PRO-TYPED boxes / diagrams / sums are oracle-only (the model prints types as Ty), their == goes to the model",
    ]
    rep.assumptions = [
        "names are identifier-like strings or ints, data is None / numbers / lists and dicts of "
        "numbers: values whose own repr is injective modulo == (no 1 == True == 1.0 collisions, "
        "never a string inside `data`: cat.py:500-507 recurses forever on it)",
        "generator boxes never carry the derived names of Swap/Cup/Cap (cat.Box.__eq__ compares "
        "names, not classes; the property speaks of values of the same class)",
        "eval namespace: `from discopy.<module> import *`; for rigid values additionally "
        "monoidal.Sum / monoidal.Bubble (rigid defines neither)",
        "comparisons across classes (a rigid value against its downgrade, a Swap/Cup/Cap against the "
        "generic box carrying the same name, PRO(n) against Ty) are outside the property (`of the same "
        "class`): derived values are compared with values of their own classes",
        "in-place mutation is applied to list- and dict-valued `data` only (the documented mutable "
        "attribute, cat.py:539-551); names, types and the private fields are never mutated",
        "every __hash__ in scope is hash(repr(self)) except cat.Ob / rigid.Ob (hash of the compared "
        "fields): repr_congr is hash consistency",
    ]
    rep.lean = lean_obligations(PROP, thorough=not quick)
    rng = random.Random(seed)
    drv = Driver()
    fams = {"monoidal": Family("monoidal"), "rigid": Family("rigid")}
    oracle = PoolOracle(rep, namespaces())
    lines, expect = [], []          # model requests and (stream, case, real answer)

    def ask(stream, case, line, real, nontrivial=False):
        lines.append(line)
        expect.append((stream, case, real, nontrivial))

    def real_repr(fn):
        try:
            return "ok " + repr(fn())
        except Exception as exc:  # noqa
            return "err " + err_class(exc)

    try:
        # ---------------------------------------------------------------- diagrams and boxes
        n_d = 160 if quick else 1500
        for k in range(n_d):
            fam = "rigid" if k % 2 else "monoidal"
            F = fams[fam]
            g = Gen3(random.Random(rng.getrandbits(64)), rigid=(fam == "rigid"))
            if k % 5 == 4:                                   # a one-box value on the box's own domain
                b = g.gbox(g.ty(0, 3))
                e, scans = ("mk", b["dom"], b["cod"], [b], [0]), [list(b["dom"]), list(b["cod"])]
            else:
                e, scans = g.diagram(depth=g.rng.choice([0, 1, 1, 2, 2, 3, 4, 5]))
            specs = histories(g, e, scans) + mutants(g, e, scans)
            pool, kept = [], []
            for label, x in specs:
                try:
                    pool.append((label, F.run(x)))
                    kept.append((label, x))
                except Exception as exc:  # noqa
                    rep.fail("history_raises:" + label, dict(family=fam, expr=repr(x)[:600]),
                             "building the value through %s raised %r" % (label, exc))
            case = dict(expr=repr(e)[:800])
            eq = oracle.check("diagram", fam, pool, key_diagram, case)
            nb = len(e[3])
            rep.count("diagram-pools:" + fam)
            rep.count("diagram-boxes:%s" % (nb if nb < 6 else "6+"))
            rep.count("pool-size:%d" % len(pool))
            rep.case("diagram %s %s" % (fam, tok_expr(e)), nb >= 2)
            rep.sample(dict(kind="diagram", family=fam, repr=repr(pool[0][1])[:300],
                            histories=[l for l, _ in kept]))
            for (label, x), (_, v) in zip(kept, pool):
                ask("repr", dict(family=fam, history=label, expr=repr(x)[:600]),
                    "repr " + tok_expr(x), "ok " + repr(v), nb >= 2)
            for i, j in itertools.combinations(range(len(pool)), 2):
                (li, xi), (lj, xj) = kept[i], kept[j]
                if xi[0] == "box" or xj[0] == "box":
                    b, other, vb = (xi[1], xj, eq[i][j]) if xi[0] == "box" else (xj[1], xi, eq[j][i])
                    if other[0] != "box":
                        ask("beqv", dict(family=fam, a=li, b=lj), "beqv %s %s" % (tok_box(b), tok_expr(other)),
                            "ok %d" % vb)
                        continue
                ask("eqv", dict(family=fam, a=li, b=lj, expr=repr(e)[:400]),
                    "eqv %s %s" % (tok_expr(xi), tok_expr(xj)), "ok %d" % eq[i][j], nb >= 2)
            # every box of the diagram: printed form, against the model
            for b in e[3]:
                ask("reprbox", dict(family=fam, box=repr(b)), "reprbox " + tok_box(b),
                    real_repr(lambda: F.box(b)))
            if k % 2 == 0 or fam == "rigid":
                functor_key_checks(rep, fam, F, g, e, scans)

        # ---------------------------------------------------------------- types and objects
        n_t = 100 if quick else 1000
        for k in range(n_t):
            fam = "rigid" if k % 2 else "monoidal"
            F = fams[fam]
            g = Gen3(random.Random(rng.getrandbits(64)), rigid=(fam == "rigid"))
            t = g.ty(0, 4)
            hs, ms = ty_histories(g, t, fam == "rigid")
            pool = [(l, run_ty(F, x)) for l, x in hs + ms]
            if fam == "rigid":
                # CROSS-CLASS twins (round 8): the plain monoidal type / cat objects with the same names
                # meet the rigid ones — equal exactly when every winding number is 0, in both orders,
                # with equal hashes, transitively through the other members of the pool
                from discopy import monoidal as _mono, cat as _cat
                try:
                    robs = [F.ob(o) for o in t]
                    pool.append(("plain_twin", _mono.Ty(*[o.name for o in robs])))
                    pool.append(("plain_twin_of_base", _mono.Ty(*[_cat.Ob(o.name) for o in robs])))
                    rep.count("ty-pools:cross_class_twins:" + ("all_z_zero" if all(o[1] == 0 for o in t)
                                                                else "some_adjoint"))
                except Exception as exc:  # noqa
                    rep.fail("construction_raises:plain_twin", dict(ty=repr(t)), repr(exc)[:200])
            oracle.check("ty", fam, pool, key_ty, dict(ty=repr(t)))
            rep.count("ty-pools:" + fam)
            rep.case("ty %s %s" % (fam, tok_ty(t)), len(t) >= 2)
            for (l, x), (_, v) in zip(hs + ms, pool):
                if x[0] in ("ty", "tytensor"):
                    ask("reprty", dict(family=fam, ty=repr(x)),
                        ("reprty " if fam == "rigid" else "reprtym ") + tok_ty(ty_spec(x)), "ok " + repr(v))
            obs = [(l, F.ob(o)) for l, o in [("ob%d" % i, o) for i, o in enumerate(t)]
                   + [("ob_mut", (t[0][0], t[0][1] + 1) if t and fam == "rigid" else ("zz", 0))]]
            if fam == "rigid" and t:
                from discopy import cat as _cat
                obs.append(("plain_ob0", _cat.Ob(obs[0][1].name)))
                obs.append(("plain_ob_last", _cat.Ob(obs[len(t) - 1][1].name)))
            oracle.check("ob", "cat" if fam == "monoidal" else fam, obs,
                         lambda o: "O %s %d" % (exact_tok(o.name), getattr(o, "z", 0)), dict(ty=repr(t)))
            for (l, v), o in zip(obs, t):
                ask("reprob", dict(family=fam, ob=repr(o)), "reprob %s %d" % (exact_tok(o[0]), o[1]),
                    "ok " + repr(v))
            # a type keys a functor's object mapping
            try:
                ob = {F.ty([(o[0], 0)]): F.ty([("img", 0)]) for o in t}
                image = F.m.Functor(ob, {})(F.ty(t))
                if len(image) != len(t):
                    rep.fail("functor_key_lookup", dict(family=fam, ty=repr(t)), "wrong image length")
            except Exception as exc:  # noqa
                rep.fail("functor_key_lookup", dict(family=fam, ty=repr(t)),
                         "object mapping lookup raised %r" % (exc,))

        # ---------------------------------------------------------------- sums
        n_s = 80 if quick else 800
        for k in range(n_s):
            fam = "rigid" if k % 2 else "monoidal"
            F = fams[fam]
            g = Gen3(random.Random(rng.getrandbits(64)), rigid=(fam == "rigid"))
            g.maxw = 4
            sg = SumGen(g)
            spec, dom, cod, nt = sg.sum()
            ts = spec[1]
            Z = ("smk", [], list(dom), list(cod))
            hs = [("smk", spec), ("explicit", ("smk", ts, list(dom), list(cod))),
                  ("plus_zero", ("sadd", spec, Z)), ("zero_plus", ("sadd", Z, spec)),
                  ("dagger_dagger", ("sdagger", ("sdagger", spec)))]
            if nt:
                acc = ("sadd", Z, ("ssingle", ts[0]))
                for t in ts[1:]:
                    acc = ("sadd", acc, ("ssingle", t))
                hs.append(("term_by_term", acc))
            ms = [("extra_term", ("smk", ts + [sg.close(*g.diagram(dom, 1), cod)], list(dom), list(cod)))]
            if nt:
                ms.append(("dropped_term", ("smk", ts[:-1], list(dom), list(cod))))
            if nt >= 2 and repr(ts[0]) != repr(ts[-1]):
                ms.append(("swapped_terms", ("smk", [ts[-1]] + ts[1:-1] + [ts[0]], list(dom), list(cod))))
            ms.append(("wider", ("stensor", spec, ("smk", [("id", [("a", 0)])], None, None))))
            pool = [(l, run_sum(F, x)) for l, x in hs + ms]
            eq = oracle.check("sum", fam, pool, key_sum, dict(sum=repr(spec)[:800]))
            rep.count("sum-pools:" + fam)
            rep.count("sum-terms:%d" % nt)
            rep.case("sum %s %s" % (fam, tok_sexpr(spec)), nt >= 2)
            for (l, x), (_, v) in zip(hs + ms, pool):
                ask("srepr", dict(family=fam, history=l, expr=repr(x)[:600]), "srepr " + tok_sexpr(x),
                    "ok " + repr(v), nt >= 2)
            for i, j in itertools.combinations(range(len(pool)), 2):
                ask("seqv", dict(family=fam, a=(hs + ms)[i][0], b=(hs + ms)[j][0]),
                    "seqv %s %s" % (tok_sexpr((hs + ms)[i][1]), tok_sexpr((hs + ms)[j][1])),
                    "ok %d" % eq[i][j], nt >= 2)

        # ---------------------------------------------------------------- bubbles (real code only)
        n_b = 40 if quick else 400
        for k in range(n_b):
            fam = "rigid" if k % 2 else "monoidal"
            F = fams[fam]
            g = Gen3(random.Random(rng.getrandbits(64)), rigid=(fam == "rigid"))
            sg = SumGen(g)
            dom = g.ty(0, 2)
            (e1, e2), cod = sg.terms(dom, 2)
            d1, d1b, d2 = F.run(e1), F.run(e1), F.run(e2)
            if bool(d1 == d2):
                e2 = ("then", e1, ("box", g.gbox(cod, cod)))
                d2 = F.run(e2)
            X, Y = F.ty(g.ty(0, 2)), F.ty(g.ty(0, 2))
            B = type(d1.bubble())
            pool = [("bubble", d1.bubble()), ("bubble_again", d1b.bubble()),
                    ("Bubble()", B(d1)), ("other_inside", d2.bubble()),
                    ("typed", B(d1, X, Y)), ("typed_again", d1b.bubble(dom=X, cod=Y)),
                    ("typed_other_inside", B(d2, X, Y)),
                    ("in_diagram", F.m.Id(F.ty([("a", 0)])) @ d1.bubble()),
                    ("in_diagram_other", F.m.Id(F.ty([("a", 0)])) @ d2.bubble())]
            oracle.check("bubble", fam, pool, key_any, dict(inside=repr(e1)[:500], other=repr(e2)[:500]))
            rep.count("bubble-pools:" + fam)
            rep.case("bubble %s %s" % (fam, tok_expr(e1)), True)

        # ---------------------------------------------------------------- cat arrows (real code only)
        from discopy import cat
        n_c = 60 if quick else 600
        for k in range(n_c):
            r = random.Random(rng.getrandbits(64))
            obs = [cat.Ob(n) for n in ("x", "y", "z", 1)]

            def box(dom, cod, r=r):
                kw = {"data": r.choice([1, [2, 3], {"k": 1}])} if r.random() < 0.3 else {}
                b = cat.Box(r.choice(["f", "g", 5]), dom, cod, **kw)
                return b if r.random() < 0.75 else cat.Box(b.name, cod, dom, **kw).dagger()
            scan, boxes = r.choice(obs), []
            dom = scan
            for _ in range(r.choice([0, 1, 1, 2, 3])):
                cod = r.choice(obs)
                boxes.append(box(scan, cod))
                scan = cod
            a = cat.Arrow(dom, scan, boxes)
            pool = [("Arrow", a), ("again", cat.Arrow(dom, scan, list(boxes))),
                    ("composed", cat.Id(dom).then(*boxes)), ("dagger_dagger", a[::-1][::-1]),
                    ("slices", a[:1] >> a[1:])]
            if len(boxes) == 1:
                pool.append(("bare_box", boxes[0]))
            pool.append(("longer", a >> box(scan, scan)))
            if boxes:
                pool.append(("shorter", cat.Arrow(dom, boxes[-1].dom, boxes[:-1])))

            def key_arrow(v):
                return "A %r %r %s" % (v.dom.name, v.cod.name, " ; ".join(
                    "%r %r %r %r %r" % (b.name, b.dom.name, b.cod.name, b.data, b.is_dagger)
                    for b in v.boxes))
            oracle.check("arrow", "cat", pool, key_arrow, dict(arrow=repr(a)[:500]))
            if boxes:
                s1, s2 = cat.Sum([a, a]), cat.Sum([a]) + cat.Sum([a])
                oracle.check("catsum", "cat", [("Sum", s1), ("plus", s2), ("one", cat.Sum([a])),
                                               ("zero", cat.Sum([], dom, scan))],
                             lambda s: "S %r %r %s" % (s.dom.name, s.cod.name,
                                                       " + ".join(key_arrow(t) for t in s.terms)),
                             dict(arrow=repr(a)[:500]))
            rep.count("cat-pools")
            rep.case("cat %r" % (a,), len(boxes) >= 2)

        # ---------------------------------------------------------------- values with a past
        c03hist.run_history(rep, random.Random(rng.getrandbits(64)), oracle.ns, ask, Gen3, histories, quick)
        c03hist.run_containers(rep, random.Random(rng.getrandbits(64)), oracle.ns, Gen3, quick)

        # ---------------------------------------------------------------- the PRO type classes
        c03pro.run_pro(rep, random.Random(rng.getrandbits(64)), oracle, ask, quick, Gen3, histories, mutants,
                       key_diagram, key_sum)

        # ---------------------------------------------------------------- model answers
        answers = drv.ask_many(lines)
        for (stream, case, real, nontrivial), line, model in zip(expect, lines, answers):
            model = unesc(model)
            rep.count("model:" + stream)
            rep.case(line, nontrivial)
            if real != model:
                rep.disagree(stream, dict(case, line=line[:1500]), real[:1500], model[:1500])
    finally:
        drv.close()
    return rep.finish()
