"""C04 — functors are functorial."""
import random

from common import Driver, Report, ser_result, ser_diagram, ser_ty, wf_failure, lean_obligations, \
    err_class, tokname
from core import Family, Gen, tok_expr, tok_ty, tok_box, spec_box, ty_l, ty_r
from sums import SumGen, run_sum, sum_class, tok_sexpr, ser_sum_result
from c04img import run_image_stream
from c04cat import run_cat_stream
from c04ob import run_obmap_stream, make_ob, flavours_for
from c04mix import run_monoidal_on_rigid, run_total_boxmap

PROP = "C04"
TARGET = ["p", "q", "r"]


def img_ty(obmap, t):
    """Independent computation of the image of a type spec."""
    out = []
    for name, z in t:
        cur = list(obmap[name])
        for _ in range(abs(z)):
            cur = ty_l(cur) if z < 0 else ty_r(cur)
        out += cur
    return out


def gen_functor(rng, rigid, boxes, malformed=False, names=("a", "b", "c", "d")):
    """Random object map (images of length 0-3) and box map (images 0-4 boxes deep)."""
    tg = Gen(rng, rigid=rigid, maxw=7, names=TARGET)
    obmap = {}
    for n in names:
        k = rng.choice([0, 1, 1, 1, 2, 2, 3])
        obmap[n] = tg.ty(k, k)
    armap = []
    seen = set()
    for b in boxes:
        if b["kind"] != "g":
            continue
        base = dict(b)
        if base["dagger"]:
            base = dict(base, dom=b["cod"], cod=b["dom"], dagger=False)
        key = tok_box(base)
        if key in seen:
            continue
        seen.add(key)
        dom, cod = img_ty(obmap, base["dom"]), img_ty(obmap, base["cod"])
        e, scans = tg.grow(dom, rng.choice([0, 1, 1, 2, 3]))
        _, _, cur, bs, os = e
        if cur != cod or rng.random() < 0.3:
            bs = bs + [dict(kind="g", name="h%d" % rng.randint(0, 3), dom=list(cur), cod=list(cod),
                            dagger=False, data=None)]
            os = os + [0]
        if malformed and rng.random() < 0.5:
            cod = cod + [("p", 0)]
            bs = bs + [dict(kind="g", name="bad", dom=[], cod=[("p", 0)], dagger=False, data=None)]
            os = os + [len(cod) - 1]
        armap.append((base, ("mk", dom, cod, bs, os)))
    return obmap, armap


def tok_functor(obmap, armap):
    obs = sorted(obmap.items())
    return "%d %s %d %s" % (
        len(obs), " ".join("%s %s" % (tokname(n), tok_ty(t)) for n, t in obs),
        len(armap), " ".join("%s %s" % (tok_box(b), tok_expr(e)) for b, e in armap))


OB_FLAVOURS = ("by_name", "quiver", "mapping", "callable_obj", "by_name_z", "dict_stray", "aware",
               "missing", "quiver_lookup")     # c04ob.make_ob; the last three rigid-only ones fall back


def real_functor(fam, obmap, armap, style, ob_flavour=None):
    """`ob_flavour`: how the object map is handed over (c04ob.make_ob); None = as `style` says."""
    m = fam.m
    ob = {fam.ty([(n, 0)]): fam.ty(t) for n, t in obmap.items()}
    ar = {fam.box(b): fam.run(e) for b, e in armap}
    if ob_flavour is not None:
        obj = make_ob(fam, obmap, ob_flavour)
        return m.Functor(ob=obj, ar=(lambda b: ar[b]) if style != "dict" else ar)
    if style == "callable":
        return m.Functor(ob=lambda t: ob[t], ar=lambda b: ar[b])
    if style == "total":
        # a box map defined on every box (also on daggered ones, where a functor must not use it:
        # the image of a daggered box is the dagger of the image of the box)
        def total(b):
            if b.is_dagger:
                F0 = m.Functor(ob=ob, ar={})
                return m.Box("junk", F0(b.dom), F0(b.cod))
            return ar[b]
        return m.Functor(ob=lambda t: ob[t], ar=total)
    return m.Functor(ob=ob, ar=ar)


def rand_bound(r, n):
    """A Python slice bound: omitted, in range, negative, or beyond either end."""
    return None if r.random() < 0.2 else r.randint(-n - 2, n + 2)


def real_slice_answer(F, d, i, j):
    """Same line as the driver's `functorslice`: F(d[i:j]) | i' j' | F(d)[i':j']."""
    n = len(d.boxes)
    lo, hi, _ = slice(i, j).indices(n)
    lens = []
    for bx in d.boxes:
        try:
            lens.append(len(F(bx).boxes))
        except Exception:  # noqa  (the model counts 0 boxes for an image that raises)
            lens.append(0)
    i2, j2 = sum(lens[:lo]), sum(lens[:hi])
    return "%s | %d %d | %s" % (ser_result(lambda: F(d[i:j])), i2, j2,
                                ser_result(lambda: F(d)[i2:j2])), (lo, hi, i2, j2)


def has_wide_swap(obmap, boxes):
    for b in boxes:
        if b["kind"] == "s" and all(len(img_ty(obmap, [o])) >= 2 for o in b["dom"]):
            return True
    return False


def run(tier, seed, replay=None):
    rep = Report(PROP, tier, seed)
    rep.rule = ("random monoidal/rigid diagrams (0-6 boxes incl. swaps, cups, caps, daggered boxes, "
                "winding numbers) and random functors: object images of length 0-3, box images 0-4 "
                "boxes deep, given as dict or callable; ~8% ill-typed box maps; slices with arbitrary "
                "Python bounds (omitted, negative, beyond the ends, start > stop); formal sums of 0-4 "
                "terms; non-trivial = diagram of >= 2 boxes and at least one object image of "
                "length != 1; image stream: box images that are formal sums of 0-3 terms, bubbles, bare "
                "boxes (incl. Swap/Cup/Cap for a generic box), identities, diagrams with a Sum box; source "
                "diagrams with Sum / Bubble boxes; non-trivial there = >= 2 boxes and a sum image used; "
                "cat stream: cat.Functor on plain cat.Arrows of 0-5 boxes (objects cat.Ob, or monoidal.Ty of "
                "length 0-2 mapped as a whole), the same image families (plain 0-3 boxes, bare box, identity, "
                "sums of 0-3 terms, bubbles, arrows with a Sum box), mappings as dict / callable / Quiver / "
                "mixed; non-trivial = >= 2 boxes and a sum image used; object-map stream: 14 flavours of "
                "object map (dict, dict with stray entries for adjoint objects, KeyError-raising lookup, total "
                "functions of the name / of (name, z), adjoint-aware function, Quivers, callable object, "
                "Mapping, dict with __missing__, lambda t: t / t @ t / Ty()) x image length 0-3 x winding "
                "number -2..2 x shapes (types and their .l .r .l.l .r.r .l.r, Id, boxes with adjoints, "
                "composite, Cup / Cap in both orientations, nested cups / caps, transposes, snake); every "
                "third case of the main stream uses one of these flavours; non-trivial = rigid with z != 0; "
                "monoidal-on-rigid stream: monoidal.Functor on rigid types / diagrams (generic and daggered boxes, "
                "swaps) where one name occurs with several winding numbers, each (name, z) with its own image of "
                "length 0-3 (monoidal or rigid target), 6 object-map forms x 3 box-map forms, every fifth case "
                "with all z = 0; non-trivial = rigid source of >= 2 objects / >= 1 box; total-box-map stream: "
                "rigid (monoidal every fourth) functors, 10 box-map forms of which 6 answer for every box incl. "
                "cups / caps / swaps x 3 object-map forms, object images of length 0-3, random diagrams of 1-6 "
                "boxes with cups / caps / swaps + pinned Cup / Cap / snake / swap sweep; non-trivial = rigid with "
                "a cup, cap or swap")
    rep.partial = ["F_dagger, F_sum_dagger: proved under the box-level dagger law only (false as == for "
                   "Swap(x, y) with two multi-wire images: finding F6, decided witness F6_swap_witness)",
                   "images of bubbles (cat.py:836-838) are not modelled",
                   "sum images: F_then_sumimg, F_tensor_sumimg, F_typing_sumimg, F_id_sumimg, F_box_sumimg proved; "
                   "the dagger law is refuted for >= 2 boxes with >= 2-term images (F_dagger_sumimg_witness, "
                   "finding F4c04a); the image of a formal sum whose terms have sum images is nested "
                   "(finding F4c04b) and not modelled",
                   "bubble images, images containing a Sum box, source Sum / Bubble boxes: oracle only "
                   "(structure compared with an independent reference, laws as ==), no model",
                   "cat level: CF_image, CF_typing, CF_id, CF_then, CF_thenN proved for plain images "
                   "(CFunctor, Model/CatArrow.lean); sum images at the cat level are compared with the "
                   "monoidal model FunctorS.applyS on the embedded request (one-wire types, offsets 0): no "
                   "theorem states that embedding; bubble / Sum-box images at the cat level oracle only",
                   "object maps: the model receives every flavour as its base-object table (Functor.ob1 derives "
                   "adjoints from the base image, F_adjoint_l / F_adjoint_r); Python's dispatch on "
                   "Mapping / callable / __contains__ is not modelled",
                   "monoidal functor on rigid sources: compared with the monoidal model on the un-renamed request "
                   "((name, z) -> a fresh name); no theorem states that embedding; cups / caps are not put in these "
                   "sources (generic boxes for a monoidal functor)",
                   "total box maps: `box in ar` for callables / Mappings is not modelled; the model never consults "
                   "the box map for cups / caps / swaps (F_cup, F_cap, F_swap)"]
    import os, sys, time
    t0 = time.time()
    lap = (lambda what: sys.stderr.write("[c04 %s %.1fs]\n" % (what, time.time() - t0))) \
        if os.environ.get("VERIF_TIMING") else (lambda what: None)
    rep.lean = lean_obligations(PROP, thorough=(tier == "thorough"))
    lap("lean")
    n_cases = 150 if tier == "quick" else 4000
    rng = random.Random(seed)
    drv = Driver()
    fams = {"monoidal": Family("monoidal"), "rigid": Family("rigid")}
    try:
        for k in range(n_cases):
            famn = "rigid" if k % 2 else "monoidal"
            fam = fams[famn]
            r = random.Random(rng.getrandbits(64))
            g = Gen(r, rigid=(famn == "rigid"), maxw=5)
            e, scans = g.diagram(depth=r.choice([0, 1, 2, 2, 3, 3, 4, 5, 6]))
            e2, _ = g.diagram(depth=r.choice([0, 1, 2, 3]))
            eb, _ = g.diagram(dom=scans[-1], depth=r.choice([0, 1, 2, 3]))
            edd = g.grow(scans[0], r.choice([0, 1, 2]))[0]
            sg = SumGen(g)
            sterms, _ = sg.terms(scans[0], r.choice([0, 1, 1, 2, 3]), cod=scans[-1])
            tterms, tcod = sg.terms(scans[-1], r.choice([0, 1, 1, 2]))
            s_terms = ([e] if r.random() < 0.85 else []) + sterms
            explicit = (not s_terms) or r.random() < 0.3
            S = ("smk", s_terms, scans[0] if explicit else None, scans[-1] if explicit else None)
            S2 = ("smk", sterms, scans[0], scans[-1])
            T = ("smk", tterms, scans[-1], tcod)
            allboxes = e[3] + e2[3] + eb[3] + edd[3] + [b for t in sterms + tterms for b in t[3]]
            malformed = (k % 12 == 11)
            obmap, armap = gen_functor(r, famn == "rigid", allboxes, malformed)
            style = ("callable", "dict", "total", "dict")[k % 4]
            # every third case hands the object map over in another flavour (total callables of the
            # object's name, Quivers, Mappings, dicts with stray entries for adjoint objects, ...)
            ob_flavour = None
            if k % 3 == 2:
                ob_flavour = OB_FLAVOURS[(k // 3) % len(OB_FLAVOURS)]
                if ob_flavour not in flavours_for(famn == "rigid"):
                    ob_flavour = "by_name"
            F = real_functor(fam, obmap, armap, style, ob_flavour)
            rep.count("obmap:" + (ob_flavour or ("dict" if style == "dict" else "lookup")))
            ftok = tok_functor(obmap, armap)
            case = dict(family=famn, expr=repr(e), obmap=repr(obmap), armap=repr(armap)[:2000],
                        style=style, ob_flavour=ob_flavour)
            d = fam.run(e)
            # ---- the object map alone: F(t) is made of the images of the BASE objects, each taken to
            #      its |z|-fold adjoint — however the map is handed over (the box map plays no part)
            for what, spec in (("dom", scans[0]), ("cod", scans[-1])):
                try:
                    got, want = F(fam.ty(spec)), fam.ty(img_ty(obmap, spec))
                    bad = None if got == want else "F(%s) = %s, expected %s" % (fam.ty(spec), got, want)
                except Exception as exc:
                    bad = "F(%s) raised %s" % (spec, err_class(exc))
                if bad:
                    rep.fail("type_image_not_from_base_objects:" + (ob_flavour or style),
                             dict(case, type=repr(spec)), bad)
            # ---- functional correspondence
            line = "functor %s %s" % (ftok, tok_expr(e))
            model = drv.ask(line)
            value = [None]

            def thunk():
                value[0] = F(d)
                return value[0]
            real = ser_result(thunk)
            if real != model:
                rep.disagree("functor", case, real[:400], model[:400])
            rep.count("family:" + famn)
            rep.count("style:" + style)
            rep.count("result:" + (real.split(" ")[0] if real.startswith("ok") else real.split(" ")[1]))
            nontriv = len(e[3]) >= 2 and any(len(t) != 1 for t in obmap.values())
            rep.case(line, nontriv)
            rep.sample(dict(request=line[:300], answer=real[:160]))
            # types
            tline = "functorty %s %s" % (ftok.split(" %d " % len(armap))[0] if False else
                                        "%d %s" % (len(obmap), " ".join(
                                            "%s %s" % (tokname(n), tok_ty(t)) for n, t in sorted(obmap.items()))),
                                        tok_ty(scans[-1]))
            mty = drv.ask(tline)
            try:
                rty = "ok " + ser_ty(F(fam.ty(scans[-1])))
            except Exception as exc:
                rty = "err " + err_class(exc)
            if rty != mty:
                rep.disagree("functorty", case, rty, mty)
            # ---- slices with arbitrary Python bounds, through the model
            nb = len(d.boxes)
            pi, pj = rand_bound(r, nb), rand_bound(r, nb)
            sline = "functorslice %s %s %s %s" % (ftok, tok_expr(e), "N" if pi is None else pi,
                                                  "N" if pj is None else pj)
            smodel = drv.ask(sline)
            sreal, (lo, hi, i2, j2) = real_slice_answer(F, d, pi, pj)
            if sreal != smodel:
                rep.disagree("functorslice", dict(case, bounds=repr((pi, pj))), sreal[:600], smodel[:600])
            rep.count("slice:" + ("empty" if lo >= hi else "nonempty") +
                      ("/moved" if (i2, j2) != (lo, hi) else "/same"))
            rep.count("slicebound:" + ("omitted" if pi is None or pj is None else
                                       "negative" if pi < 0 or pj < 0 else
                                       "beyond" if pi > nb or pj > nb else "plain"))
            rep.case(sline, nontriv and lo < hi)
            # ---- formal sums, through the model
            uline = "functorsum %s %s" % (ftok, tok_sexpr(S))
            umodel = drv.ask(uline)
            ureal = ser_sum_result(lambda: F(run_sum(fam, S)))
            if ureal != umodel:
                rep.disagree("functorsum", dict(case, sum=repr(S)[:1500]), ureal[:600], umodel[:600])
            rep.count("sumterms:%d" % len(s_terms))
            rep.count("sumresult:" + (ureal.split(" ")[0] if ureal.startswith("ok") else ureal.split(" ")[1]))
            rep.case(uline, nontriv and len(s_terms) >= 2)
            if malformed or value[0] is None:
                if value[0] is None and not malformed:
                    rep.fail("functor_raises:" + real.split(" ")[1], case, real)
                continue
            Fd = value[0]
            # ---- oracle: the laws of the property on the real code
            why = wf_failure(Fd)
            if why:
                rep.fail("illtyped_image", case, why)
                continue
            want_dom, want_cod = fam.ty(img_ty(obmap, scans[0])), fam.ty(img_ty(obmap, scans[-1]))
            if Fd.dom != want_dom or Fd.cod != want_cod or F(d.dom) != want_dom or F(d.cod) != want_cod:
                rep.fail("dom_cod_not_image", case, "dom/cod of the image are not the images of dom/cod")

            def law(name, lhs, rhs, sig=None):
                try:
                    a, b = lhs(), rhs()
                    ok = (a == b)
                except Exception as exc:
                    ok, a, b = False, "raised " + err_class(exc), ""
                rep.count("law:" + name)
                if not ok:
                    rep.fail(sig or ("law_" + name), case, "%s: %s != %s" % (name, str(a)[:200], str(b)[:200]))
            b_ = fam.run(eb)
            d2 = fam.run(e2)
            law("then", lambda: F(d >> b_), lambda: F(d) >> F(b_))
            law("tensor", lambda: F(d @ d2), lambda: F(d) @ F(d2))
            law("id", lambda: F(fam.m.Id(d.cod)), lambda: fam.m.Id(F(d.cod)))
            wide = has_wide_swap(obmap, e[3])
            law("dagger", lambda: F(d[::-1]), lambda: F(d)[::-1],
                "dagger_law:swap_with_both_images_ge2" if wide else "law_dagger")
            n = len(d.boxes)
            i, j = sorted((r.randint(0, n), r.randint(0, n)))
            lens = [len(F(bx).boxes) for bx in d.boxes]
            law("slice", lambda: F(d[i:j]), lambda: F(d)[sum(lens[:i]):sum(lens[:j])]
                if i < j else F(d[i:j]))
            law("slice_pybounds", lambda: F(d[pi:pj]), lambda: F(d)[i2:j2])
            # REVERSED slices with arbitrary Python bounds (round 8): d[a:b:-1] is the dagger of the
            # forward slice of the same boxes — the identity "where it starts" when it selects none
            rstart, rstop, _ = slice(pi, pj, -1).indices(n)
            rlo, rhi = rstop + 1, rstart + 1
            rep.count("slice_reversed:" + ("empty" if rlo >= rhi else "nonempty") +
                      (":negative_start" if isinstance(pi, int) and pi < 0 else ""))
            fwd = (lambda: d[rlo:rhi]) if rlo < rhi else (lambda: d[rhi:rhi])
            law("slice_reversed", lambda: F(d[pi:pj:-1]), lambda: F(fwd()[::-1]))
            law("slice_reversed_value", lambda: d[pi:pj:-1], lambda: fwd()[::-1])
            Sv, S2v, Tv = run_sum(fam, S), run_sum(fam, S2), run_sum(fam, T)
            mksum = sum_class(fam)
            law("sum_image", lambda: F(Sv),
                lambda: mksum([F(t) for t in Sv.terms], F(Sv.dom), F(Sv.cod)))
            law("sum_empty", lambda: F(mksum([], d.dom, d.cod)), lambda: mksum([], F(d.dom), F(d.cod)))
            # the three binary laws on sums in turn (each maps up to 4 x 3 products twice)
            if k % 3 == 0:
                law("sum_add", lambda: F(Sv + S2v), lambda: F(Sv) + F(S2v))
            elif k % 3 == 1:
                law("sum_then", lambda: F(Sv >> Tv), lambda: F(Sv) >> F(Tv))
            else:
                law("sum_tensor", lambda: F(Sv @ Tv), lambda: F(Sv) @ F(Tv))
            dd = fam.run(edd)
            if dd.cod == d.cod:
                law("sum", lambda: F(d + dd), lambda: F(d) + F(dd))
            law("sum_single", lambda: F(d + d), lambda: F(d) + F(d))
            if famn == "rigid":
                t = fam.ty(scans[-1])
                law("adjoint_l", lambda: F(t.l), lambda: F(t).l)
                law("adjoint_r", lambda: F(t.r), lambda: F(t).r)
                for bx in d.boxes:
                    kind = type(bx).__name__
                    if kind == "Cup":
                        law("cup", lambda: F(bx), lambda: fam.m.Diagram.cups(F(bx.dom[:1]), F(bx.dom[1:])))
                    elif kind == "Cap":
                        law("cap", lambda: F(bx), lambda: fam.m.Diagram.caps(F(bx.cod[:1]), F(bx.cod[1:])))
            for bx in d.boxes:
                if type(bx).__name__ == "Swap":
                    law("swap", lambda: F(bx), lambda: fam.m.Diagram.swap(F(bx.dom[:1]), F(bx.dom[1:])))
        lap("main")
        # ---- box maps whose images are not plain diagrams (formal sums, bubbles, bare special boxes,
        #      identities, diagrams containing a Sum box), source diagrams with Sum / Bubble boxes
        run_image_stream(rep, drv, fams, random.Random(seed * 7919 + 404),
                         80 if tier == "quick" else 400,
                         max_terms=12 if tier == "quick" else 24)
        lap("image")
        # ---- the same image families at the level of the free category (cat.Functor on cat.Arrow)
        run_cat_stream(rep, drv, random.Random(seed * 104729 + 411),
                       160 if tier == "quick" else 1000,
                       max_terms=12 if tier == "quick" else 24)
        lap("cat")
        # ---- object maps of every flavour x winding numbers x image lengths x shapes
        run_obmap_stream(rep, drv, fams, random.Random(seed * 15485863 + 17),
                         1, per_cell=5 if tier == "quick" else None)
        lap("obmap")
        # ---- a MONOIDAL functor on rigid sources: every (name, winding number) its own generator
        run_monoidal_on_rigid(rep, drv, fams, random.Random(seed * 32452843 + 61),
                              120 if tier == "quick" else 1500, gen_functor, tok_functor)
        lap("monoidal_on_rigid")
        # ---- TOTAL callable box maps (answering for cups / caps / swaps too) x object-map forms
        run_total_boxmap(rep, drv, fams, random.Random(seed * 49979687 + 67),
                         45 if tier == "quick" else 600, gen_functor, tok_functor)
        lap("total_boxmap")
    finally:
        drv.close()
    return rep.finish()
