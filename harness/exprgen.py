"""Random operation sequences (expressions) over a diagram family, with static typing
so that most compositions are well-typed, plus a malformed share."""
from core import Gen, ty_l, ty_r


class ExprGen:
    def __init__(self, rng, rigid=False, ops=None, malformed=0.1, maxw=6, mixed=False, nary=False):
        self.rng = rng
        self.mixed = mixed      # also ask for adjoint wires plugged into boxes on the plain wire
        self.g = Gen(rng, rigid=rigid, maxw=maxw)
        self.rigid = rigid
        self.malformed = malformed
        self.ops = ops or ["then", "tensor", "dagger", "slice", "slicerev", "getitem", "interchange",
                           "normal_form", "swap", "perm"] + (["cups", "caps", "transpose"] if rigid else [])
        if nary and ops is None:    # the n-ary calling convention of then / tensor (opt-in)
            self.ops = self.ops + ["thenN", "thenN", "thenN", "tensorN"]

    # every generator returns (expr, dom, cod, nboxes) with dom/cod None when not tracked
    def leaf(self, dom=None):
        r = self.rng
        if dom is None and r.random() < 0.1:
            b = self.g.gbox(self.g.ty(0, 3))
            return ("box", b), b["dom"], b["cod"], 1
        if dom is None and r.random() < 0.05:
            t = self.g.ty(0, 4)
            return ("id", t), t, t, 0
        e, scans = self.g.diagram(dom)
        return e, scans[0], scans[-1], len(e[3])

    def fixed_dom(self, dom, depth):
        r = self.rng
        if depth <= 0 or r.random() < 0.4:
            return self.leaf(dom)
        if r.random() < 0.5:
            a, ad, ac, an = self.fixed_dom(dom, depth - 1)
            b, bd, bc, bn = self.fixed_dom(ac, depth - 1)
            return ("then", a, b), ad, bc, an + bn
        k = r.randint(0, len(dom))
        a, ad, ac, an = self.fixed_dom(dom[:k], depth - 1)
        b, bd, bc, bn = self.fixed_dom(dom[k:], depth - 1)
        return ("tensor", a, b), dom, ac + bc, an + bn

    def expr(self, depth):
        r = self.rng
        if depth <= 0 or r.random() < 0.25:
            return self.leaf()
        op = r.choice(self.ops)
        if op == "then":
            a, ad, ac, an = self.expr(depth - 1)
            if ac is None or r.random() < self.malformed:
                b, bd, bc, bn = self.expr(depth - 1)
                return ("then", a, b), ad, bc, an + bn
            if self.mixed and any(z for _, z in ac) and r.random() < 0.5:
                # ill-typed on purpose: same names, winding numbers dropped
                flat = [(n, 0) for n, _ in ac]
                if r.random() < 0.5:
                    b, bn = ("box", self.g.gbox(flat, [(n, 0) for n, _ in self.g.ty(0, 2)])), 1
                else:
                    b, bd, bc, bn = self.fixed_dom(flat, depth - 1)
                if r.random() < 0.3:
                    a, b = b, a         # plain first, adjoint second
                return ("then", a, b), None, None, an + bn
            b, bd, bc, bn = self.fixed_dom(ac, depth - 1)
            return ("then", a, b), ad, bc, an + bn
        if op == "thenN":
            return self.then_n(depth)
        if op == "tensorN":
            recv, rd, rc, rn = self.expr(depth - 1)
            n = r.choice([0, 1, 2, 2, 3, 4])
            args, dom, cod, total = [], rd, rc, rn
            for _ in range(n):
                b, bd, bc, bn = self.expr(max(0, depth - 2))
                args.append(b)
                dom = None if dom is None or bd is None else dom + bd
                cod = None if cod is None or bc is None else cod + bc
                total += bn
            forms = ["method", "method", "class", "base"] + (["op"] if n == 1 else [])
            return ("tensorN", r.choice(forms), recv, args), dom, cod, total
        if op == "tensor":
            a, ad, ac, an = self.expr(depth - 1)
            b, bd, bc, bn = self.expr(depth - 1)
            dom = None if ad is None or bd is None else ad + bd
            cod = None if ac is None or bc is None else ac + bc
            return ("tensor", a, b), dom, cod, an + bn
        if op == "dagger":
            a, ad, ac, an = self.expr(depth - 1)
            return ("dagger", a), ac, ad, an
        if op == "slice":
            a, ad, ac, an = self.expr(depth - 1)
            lo, hi = -an - 2, an + 2
            s = r.choice([None, r.randint(lo, hi)])
            t = r.choice([None, r.randint(lo, hi)])
            return ("slice", a, s, t), None, None, an
        if op == "slicerev":
            a, ad, ac, an = self.expr(depth - 1)
            lo, hi = -an - 2, an + 2
            s = r.choice([None, r.randint(lo, hi)])
            t = r.choice([None, r.randint(lo, hi)])
            return ("slicerev", a, s, t), None, None, an
        if op == "getitem":
            a, ad, ac, an = self.expr(depth - 1)
            i = r.randint(-an - 1, an) if r.random() < self.malformed or an == 0 \
                else r.randint(-an, an - 1)
            return ("getitem", a, i), None, None, 1
        if op == "interchange":
            a, ad, ac, an = self.expr(depth - 1)
            if an == 0 or r.random() < self.malformed:
                i, j = r.randint(-2, an + 1), r.randint(-2, an + 1)
            else:
                i = r.randint(0, an - 1)
                j = min(an - 1, max(0, i + r.choice([-3, -2, -1, -1, 0, 1, 1, 2, 3])))
            return ("interchange", a, i, j, r.random() < 0.5), ad, ac, an
        if op == "normal_form":
            a, ad, ac, an = self.expr(depth - 1)
            return ("normal_form", a, r.random() < 0.5), ad, ac, an
        if op == "swap":
            l, rr = self.g.ty(0, 3), self.g.ty(0, 3)
            return ("swap", l, rr), l + rr, rr + l, len(l) * len(rr)
        if op == "perm":
            n = r.randint(0, 5)
            p = list(range(n))
            r.shuffle(p)
            dom = self.g.ty(n, n)
            if r.random() < self.malformed:
                if n and r.random() < 0.5:
                    p[r.randrange(n)] = r.randint(-1, n)
                else:
                    dom = dom + self.g.ty(1, 1)
                return ("perm", p, dom), None, None, 0
            cod = [None] * n
            for i in range(n):
                cod[p[i]] = dom[i]
            return ("perm", p, dom), dom, cod, n
        if op == "transpose":
            a, ad, ac, an = self.expr(depth - 1)
            left = r.random() < 0.5
            if ad is None or ac is None:
                return ("transpose", a, left), None, None, an
            if left:
                return ("transpose", a, left), ty_l(ac), ty_l(ad), an + len(ad) + len(ac)
            return ("transpose", a, left), ty_r(ac), ty_r(ad), an + len(ad) + len(ac)
        if op in ("cups", "caps"):
            l = self.g.ty(0, 3)
            rr = ty_r(l) if r.random() < 0.5 else ty_l(l)
            if r.random() < self.malformed:
                rr = self.g.ty(len(l), len(l))
            if op == "cups":
                return ("cups", l, rr), l + rr, [], len(l)
            return ("caps", l, rr), [], l + rr, len(l)
        raise ValueError(op)

    def other_ty(self, t):
        """A type that differs from `t`."""
        for _ in range(20):
            u = self.g.ty(0, 3)
            if u != t:
                return u
        return list(t) + self.g.ty(1, 1)

    def then_n(self, depth, broken=None):
        """recv.then(a_1, ..., a_n) with n in 0..4.  The receiver is often an identity (the
        `Id(x).then(*arrows)` idiom); `broken`: exactly one junction does not match — any of them,
        the one between the receiver and the first argument included."""
        r = self.rng
        n = r.choice([0, 1, 1, 2, 2, 2, 3, 3, 4])
        if broken is None:
            broken = n > 0 and r.random() < max(self.malformed, 0.25)
        if r.random() < 0.4:
            t = self.g.ty(0, 3)
            recv, rd, rc, rn = ("id", t), t, t, 0
        else:
            recv, rd, rc, rn = self.expr(depth - 1)
        bad_at = r.randrange(n) if broken and n else -1
        args, scan, total = [], rc, rn
        for k in range(n):
            start = scan
            if start is None:
                start = self.g.ty(0, 3)
            elif k == bad_at:
                if self.mixed and any(z for _, z in scan) and r.random() < 0.5:
                    start = [(nm, 0) for nm, _ in scan]     # same names, winding numbers dropped
                else:
                    start = self.other_ty(scan)
            if r.random() < 0.15:
                a, ac, an = ("id", start), start, 0
            else:
                a, _, ac, an = self.fixed_dom(start, max(0, depth - 2))
            args.append(a)
            scan, total = ac, total + an
        forms = ["method", "method", "class", "base"] + (["op", "op", "rop"] if n == 1 else [])
        e = ("thenN", r.choice(forms), recv, args)
        if bad_at >= 0 or rc is None:
            return e, None, None, total
        return e, rd, scan, total

    def malformed_mk(self):
        """Public constructor with offsets that may be out of range / negative,
        wrong codomain, or lengths that differ."""
        r = self.rng
        e, scans = self.g.diagram(depth=r.randint(1, 4))
        _, dom, cod, boxes, offsets = e
        offsets = list(offsets)
        how = r.choice(["off", "off", "neg", "cod", "len", "dom"])
        k = r.randrange(len(offsets))
        if self.mixed:
            ks = [i for i, b in enumerate(boxes)
                  if b["kind"] == "g" and any(z for _, z in b["dom"])]
            if ks:
                k = r.choice(ks)
                boxes = list(boxes)
                boxes[k] = dict(boxes[k], dom=[(n, 0) for n, _ in boxes[k]["dom"]])
                return ("mk", dom, cod, boxes, offsets), None, None, len(boxes)
        if how == "off":
            offsets[k] += r.choice([-3, -2, -1, 1, 2, 3, 7])
        elif how == "neg":
            offsets[k] = offsets[k] - len(scans[k]) - r.choice([0, 0, 1])
        elif how == "cod":
            cod = cod + self.g.ty(1, 1) if r.random() < 0.5 or not cod else cod[:-1]
        elif how == "len":
            offsets = offsets + [0]
        else:
            dom = dom[1:] if dom else self.g.ty(1, 1)
        return ("mk", dom, cod, boxes, offsets), None, None, len(boxes)
