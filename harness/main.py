"""Entry point: `main.py <property> [--tier quick|thorough] [--replay file]`."""
import argparse
import importlib
import os
import sys
import traceback

sys.path.insert(0, os.path.dirname(os.path.abspath(__file__)))


def library_frame(exc):
    """If the innermost frame of the traceback lies in the discopy tree under test, return
    'harness-file:line -> library-file:line'; None when the harness itself failed."""
    import discopy
    lib = os.path.dirname(os.path.abspath(discopy.__file__)) + os.sep
    here = os.path.dirname(os.path.abspath(__file__)) + os.sep
    frames = traceback.extract_tb(exc.__traceback__)
    if not frames or not os.path.abspath(frames[-1].filename).startswith(lib):
        return None
    caller = [f for f in frames if os.path.abspath(f.filename).startswith(here)]
    c = caller[-1] if caller else frames[0]
    return "%s:%d -> %s:%d" % (os.path.relpath(c.filename, here), c.lineno,
                               os.path.basename(frames[-1].filename), frames[-1].lineno)


def main():
    ap = argparse.ArgumentParser()
    ap.add_argument("prop")
    ap.add_argument("--tier", default=os.environ.get("VERIF_TIER", "quick"))
    ap.add_argument("--replay", default=None)
    args = ap.parse_args()
    seed = int(os.environ.get("VERIF_SEED", "0") or 0)
    tier = args.tier if args.tier in ("quick", "thorough") else "quick"
    if args.replay:
        # a replay file records the seed and tier of the run that produced it; every random
        # choice derives from the seed, so re-running with them reproduces the reported case
        import json
        rp = json.load(open(args.replay))
        seed, tier = int(rp.get("seed", seed)), rp.get("tier", tier)
        print("replaying %s: seed=%d tier=%s; reported: %s" % (
            args.replay, seed, tier, json.dumps(rp.get("violation"), default=str)[:1500]))
    try:
        mod = importlib.import_module("props." + args.prop.lower())
        code = mod.run(tier, seed, replay=args.replay)
    except Exception as exc:
        traceback.print_exc()
        where = library_frame(exc)
        if where is None:
            print("HARNESS-ERROR property=%s (exit 2; not a violation)" % args.prop)
            sys.exit(2)
        # The exception was raised INSIDE discopy, by a call the check makes on every run and
        # that goes through on the tree the check was built against: the library's behaviour
        # changed under a stream of the correspondence.  Verdict rule of DESIGN.md section 4:
        # a broken correspondence without a failing input in hand is reported as such, naming
        # the stream (here: the harness line that made the call) in the replay file.
        import json
        from common import VERIF, Report
        prop = args.prop.upper()
        rep = Report.current
        if rep is not None and rep.failures:
            # failing inputs were already found before the crash: report them (verdict rules of
            # section 4: a failing input in hand takes precedence), the crash is recorded beside them
            rep.count("stream_crashed_in_library:" + where)
            rep.extra["stream_crash"] = dict(where=where, exception=repr(exc)[:500])
            sys.exit(rep.finish())
        path = os.path.join(VERIF, "replays", "%s_%s_%d.json" % (prop, tier, seed))
        os.makedirs(os.path.dirname(path), exist_ok=True)
        with open(path, "w") as f:
            json.dump(dict(property=prop, tier=tier, seed=seed, violation=dict(
                kind="correspondence-broken", no_input=True,
                theorem_or_stream="library call raised where the check expects none: " + where,
                exception=repr(exc)[:500],
                traceback=traceback.format_exc()[-3000:])), f, indent=1)
        print("VIOLATION property=%s replay=%s no-failing-input-found" % (prop, path))
        sys.exit(1)
    sys.exit(code)


if __name__ == "__main__":
    main()
