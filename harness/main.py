"""Entry point: `main.py <property> [--tier quick|thorough] [--replay file]`."""
import argparse
import importlib
import os
import sys
import traceback

sys.path.insert(0, os.path.dirname(os.path.abspath(__file__)))


def main():
    ap = argparse.ArgumentParser()
    ap.add_argument("prop")
    ap.add_argument("--tier", default=os.environ.get("VERIF_TIER", "quick"))
    ap.add_argument("--replay", default=None)
    args = ap.parse_args()
    seed = int(os.environ.get("VERIF_SEED", "0") or 0)
    tier = args.tier if args.tier in ("quick", "thorough") else "quick"
    if args.replay:
        # a replay file records the seed and tier of the run that produced it; every random
        # choice derives from the seed, so re-running with them reproduces the reported case
        import json
        rp = json.load(open(args.replay))
        seed, tier = int(rp.get("seed", seed)), rp.get("tier", tier)
        print("replaying %s: seed=%d tier=%s; reported: %s" % (
            args.replay, seed, tier, json.dumps(rp.get("violation"), default=str)[:1500]))
    try:
        mod = importlib.import_module("props." + args.prop.lower())
        code = mod.run(tier, seed, replay=args.replay)
    except Exception:
        traceback.print_exc()
        print("HARNESS-ERROR property=%s (exit 2; not a violation)" % args.prop)
        sys.exit(2)
    sys.exit(code)


if __name__ == "__main__":
    main()
