"""Helpers of the C12 check (classical-quantum evaluation).

* exact scalars: recognition of complex floats in Z[zeta_8][1/2] (tokens `a,b,c,d/k` of the Lean model)
* serialisers: discopy circuits / CQMap expressions -> request lines of `Driver/CQCmd.lean`
* `Sem`: an independent numpy semantics of mixed circuits, built wire by wire from the clauses
  of property C12 (pure boxes are doubled, Measure is the Born rule, Discard is the trace /
  marginal, Encode and MixedState are the adjoints, classical gates act on the diagonal).
  It shares nothing with discopy's CQMap (no CQ types, no swap network, no functor).
"""
import math

import numpy as np

SQ = math.sqrt(0.5)
TOL = 1e-9
KMAX = 10


# ------------------------------------------------------------------ exact scalars

def norm_d8(a, b, c, d, k):
    while k > 0 and a % 2 == 0 and b % 2 == 0 and c % 2 == 0 and d % 2 == 0:
        a, b, c, d, k = a // 2, b // 2, c // 2, d // 2, k - 1
    return (a, b, c, d, k)


def _rec_real(x, k):
    """x * 2^k = a + s / sqrt 2 with integers a, s (|s| small): (a, s) or None."""
    y = x * (1 << k)
    bound = int(abs(y) * 1.5) + 2
    tol = TOL * (1 << k)
    for s in sorted(range(-bound, bound + 1), key=abs):
        r = y - s * SQ
        a = round(r)
        if abs(r - a) < tol:
            return a, s
    return None


_cache = {}


def recognise(z):
    """complex float -> normalised (a, b, c, d, k) with |z - value| < TOL, or None."""
    z = complex(z)
    key = (round(z.real, 11), round(z.imag, 11))
    if key in _cache:
        return _cache[key]
    out = None
    for k in range(KMAX + 1):
        re = _rec_real(z.real, k)
        if re is None:
            continue
        im = _rec_real(z.imag, k)
        if im is None:
            continue
        (a, s), (c, t) = re, im        # s = b - d, t = b + d
        kk = k
        if (s + t) % 2:
            a, s, c, t, kk = 2 * a, 2 * s, 2 * c, 2 * t, k + 1
        out = norm_d8(a, (s + t) // 2, c, (t - s) // 2, kk)
        break
    _cache[key] = out
    return out


def tok_d8(v):
    return "%d,%d,%d,%d/%d" % v


def d8_to_complex(v):
    a, b, c, d, k = v
    zeta = complex(SQ, SQ)
    return (a + b * zeta + c * 1j + d * zeta ** 3) / (1 << k)


def parse_d8(tok):
    n, k = tok.split("/")
    a, b, c, d = (int(x) for x in n.split(","))
    return (a, b, c, d, int(k))


def tok_entries(arr):
    """flattened array -> '<n> tok tok ...' or None if some entry is not recognised."""
    flat = np.asarray(arr).reshape(-1)
    toks = []
    for z in flat:
        v = recognise(z)
        if v is None:
            return None
        toks.append(tok_d8(v))
    return " ".join([str(len(toks))] + toks)


def tok_mat(rows, cols, arr):
    flat = np.asarray(arr).reshape(-1)
    if flat.size != rows * cols:
        raise ValueError("array of size %d for a %dx%d matrix" % (flat.size, rows, cols))
    toks = []
    for z in flat:
        v = recognise(z)
        if v is None:
            return None
        toks.append(tok_d8(v))
    return " ".join([str(rows), str(cols)] + toks)


def tok_dims(ds):
    ds = [int(d) for d in ds]
    return " ".join([str(len(ds))] + [str(d) for d in ds])


# ------------------------------------------------------------------ circuits -> model lines

def is_bit(ob):
    from discopy.quantum.circuit import Digit
    return isinstance(ob, Digit)


def is_classical_gate(box):
    """By class, not by the `classical` attribute the library computes: ClassicalGate and its
    subclasses (Bits, Digits, Copy, Match) are classical, also without any wire (weights)."""
    from discopy.quantum.gates import ClassicalGate
    return isinstance(box, ClassicalGate)


def tok_wty(ty):
    obs = list(ty.objects)
    return " ".join([str(len(obs))] + [("b%d" if is_bit(x) else "q%d") % x.dim for x in obs])


def ty_size(ty):
    n = 1
    for x in ty.objects:
        n *= x.dim
    return n


def cq_size(ty):
    n = 1
    for x in ty.objects:
        n *= x.dim if is_bit(x) else x.dim * x.dim
    return n


def tok_box(box):
    """One box occurrence as cat.Functor/monoidal.Functor/cqmap.Functor._ar see it.
    Returns (tokens, kind) or (None, reason) when an array entry is not in Z[zeta_8][1/2]."""
    from discopy import monoidal
    from discopy.quantum.circuit import Discard, MixedState, Measure, Encode
    from discopy.quantum.gates import Scalar
    if isinstance(box, monoidal.Swap):                       # monoidal.py:836
        return "0 W %s %s" % (tok_wty(box.left), tok_wty(box.right)), "swap"
    dag = bool(box.is_dagger)                                # cat.py:842
    b = box.dagger() if dag else box
    head = "1 " if dag else "0 "
    if isinstance(b, Discard):
        return head + "D " + tok_wty(b.dom), "discard"
    if isinstance(b, Measure):
        return head + "M %d %d %d" % (b.n_qubits, b.destructive, b.override_bits), "measure"
    if isinstance(b, MixedState):
        return head + "X " + tok_wty(b.cod), "mixedstate"
    if isinstance(b, Encode):
        return head + "E %d %d %d" % (b.n_bits, b.constructive, b.reset_bits), "encode"
    if isinstance(b, Scalar):
        v = recognise(b.array[0])
        if v is None:
            return None, "scalar-not-exact"
        return head + "S %d %s" % (b.is_mixed, tok_d8(v)), "scalar"
    if not b.is_mixed:
        m = tok_mat(ty_size(b.dom), ty_size(b.cod), b.array)
        if m is None:
            return None, "array-not-exact"
        # `N`: the model itself decides classical / quantum from the wires, as Box.__init__ does
        return head + "N %s %s %s" % (tok_wty(b.dom), tok_wty(b.cod), m), \
            ("classical" if is_classical_gate(b) else "quantum")
    if hasattr(b, "array"):
        m = tok_mat(cq_size(b.dom), cq_size(b.cod), b.array)
        if m is None:
            return None, "array-not-exact"
        return head + "A %s %s %s" % (tok_wty(b.dom), tok_wty(b.cod), m), "mixedarr"
    return None, "no-array"


def tok_circuit(c):
    parts = [tok_wty(c.dom), str(len(c.boxes))]
    for box, off in zip(c.boxes, c.offsets):
        t, why = tok_box(box)
        if t is None:
            return None, why
        parts.append("%d %s" % (off, t))
    return " ".join(parts), None


def model_cost(c):
    """Rough number of scalar multiplications of the model's mixed evaluation."""
    rows = cq_size(c.dom)
    scan = c.dom
    total = 0
    for box, off in zip(c.boxes, c.offsets):
        new = scan[:off] @ box.cod @ scan[off + len(box.dom):]
        total += (rows + 8) * cq_size(scan) * cq_size(new)
        scan = new
    return total


class Ans:
    """An answer of the real code: canonical header tokens + the array of entries."""

    def __init__(self, header, entries):
        self.header = header
        self.entries = np.asarray(entries).reshape(-1)

    def tokens(self):
        ents = tok_entries(self.entries)
        return None if ents is None else self.header + " " + ents


def ans_cq_value(v):
    """Canonical answer for the result of Circuit.eval (CQMap or Tensor)."""
    from discopy.quantum.cqmap import CQMap
    if isinstance(v, CQMap):
        return Ans("ok cq %s %s %s %s" % (
            tok_dims(v.dom.classical), tok_dims(v.dom.quantum),
            tok_dims(v.cod.classical), tok_dims(v.cod.quantum)), v.array)
    return Ans("ok tensor %s %s" % (tok_dims(v.dom), tok_dims(v.cod)), v.array)


def ans_cqmap(v):
    return Ans("ok %s %s %s %s" % (
        tok_dims(v.dom.classical), tok_dims(v.dom.quantum),
        tok_dims(v.cod.classical), tok_dims(v.cod.quantum)), v.array)


def parse_entries(text):
    toks = text.split(" ")
    if int(toks[0]) != len(toks) - 1:
        raise ValueError("bad entry list")
    return np.array([d8_to_complex(parse_d8(t)) for t in toks[1:]], dtype=complex)


def compare_answer(real, model):
    """'exact' (same canonical tokens) | 'numeric' (same header, entries equal within TOL where
    the real entries could not be written exactly in Z[zeta_8][1/2] with a small denominator, or
    were rounded to a neighbouring element) | 'differ'."""
    if isinstance(real, str):
        return "exact" if real == model else "differ"
    if real.tokens() == model:
        return "exact"
    if not model.startswith(real.header + " "):
        return "differ"
    try:
        arr = parse_entries(model[len(real.header) + 1:])
    except ValueError:
        return "differ"
    if arr.shape != real.entries.shape:
        return "differ"
    scale = max(1.0, float(np.max(np.abs(arr))) if arr.size else 1.0)
    return "numeric" if bool(np.all(np.abs(arr - real.entries) <= TOL * scale)) else "differ"


def model_array(answer):
    """numeric array of a model answer 'ok ... <n> entries' (entries are the last n tokens)."""
    toks = answer.split(" ")
    # find the entries block: last length-prefixed list
    for i in range(len(toks) - 1, 0, -1):
        if "/" not in toks[i]:
            n = int(toks[i])
            assert n == len(toks) - i - 1
            return np.array([d8_to_complex(parse_d8(t)) for t in toks[i + 1:]])
    raise ValueError(answer[:100])


# ------------------------------------------------------------------ independent semantics

ROTATIONS = ("Rx", "Ry", "Rz", "CU1", "CRz", "CRx")


def textbook_rotation(box):
    """[input, output] matrix of a rotation gate with a numeric phase, from its class name and
    phase only (qgen.std_rot_u is written out independently of discopy); None for other boxes."""
    kind = type(box).__name__
    if kind not in ROTATIONS or getattr(box, "is_dagger", False):
        return None
    try:
        phase = float(box.phase)
    except (TypeError, ValueError, AttributeError):
        return None
    import qgen
    return qgen.std_rot_u(kind, phase).T.copy()


class Sem:
    """Density-operator semantics with one pair of indices (ket side, bra side) per wire.

    A circuit denotes an array with axes (a_w, a'_w) for every input wire and every output wire.
    Classical wires only ever carry the diagonal a = a'.  The first index of a pair is the
    conjugated side (the property: 'conjugate tensored with itself')."""

    def __init__(self):
        self.fresh = 0

    def new(self):
        self.fresh += 1
        return (2 * self.fresh, 2 * self.fresh + 1)

    # superoperators of boxes: array with axes [in pairs..., out pairs...]
    @staticmethod
    def doubled(u, nin, nout):
        """u: array of shape in.. + out..  ->  conj(u)[a.., b..] * u[a'.., b'..], pairs interleaved."""
        n = nin + nout
        t = np.multiply.outer(np.conjugate(u), u)        # axes: first copy (n), second copy (n)
        order = []
        for i in range(n):
            order += [i, n + i]
        return np.transpose(t, order)

    @staticmethod
    def diagonal(m, dims_in, dims_out):
        """classical map m[in.., out..] placed on the diagonals of every pair."""
        dims = list(dims_in) + list(dims_out)
        out = np.zeros([d for d in dims for _ in (0, 1)], dtype=complex)
        for idx in np.ndindex(*dims):
            out[tuple(i for i in idx for _ in (0, 1))] = m[idx]
        return out

    @staticmethod
    def delta(d, npairs):
        """all 2*npairs indices equal."""
        out = np.zeros([d] * (2 * npairs), dtype=complex)
        for i in range(d):
            out[(i,) * (2 * npairs)] = 1
        return out

    def box_op(self, box):
        """array with axes [in pairs..., out pairs...] for one box, from the property's clauses."""
        from discopy.quantum.circuit import Discard, MixedState, Measure, Encode
        from discopy.quantum.gates import Scalar
        nin, nout = len(box.dom), len(box.cod)
        din = [x.dim for x in box.dom.objects]
        dout = [x.dim for x in box.cod.objects]
        if isinstance(box, (Encode, MixedState)):
            arr = self.box_op(box.dagger())              # the adjoint: conjugate, exchange in/out
            perm = list(range(2 * nout, 2 * (nin + nout))) + list(range(2 * nout))
            return np.conjugate(np.transpose(arr, perm))
        if isinstance(box, Discard):
            arr = np.ones(())
            for d in din:
                arr = np.multiply.outer(arr, np.eye(d))  # sum over the diagonal of every wire
            return arr.astype(complex)
        if isinstance(box, Measure):
            n = box.n_qubits
            # wires in: q_1..q_n (+ b_1..b_n); out: (q_1..q_n) + b_1..b_n
            copies = 2 if box.destructive else 3         # in qubit, out bit (, out qubit)
            one = self.delta(2, copies)
            arr = np.ones((), dtype=complex)
            for _ in range(n):
                arr = np.multiply.outer(arr, one)
            # axes now: per qubit i: [qin, (qout), bout] pairs; reorder to in.., out..
            per = 2 * copies
            ins = [[i * per, i * per + 1] for i in range(n)]
            if box.destructive:
                qouts = []
                bouts = [[i * per + 2, i * per + 3] for i in range(n)]
            else:
                qouts = [[i * per + 2, i * per + 3] for i in range(n)]
                bouts = [[i * per + 4, i * per + 5] for i in range(n)]
            order = sum(ins, []) + sum(qouts, []) + sum(bouts, [])
            arr = np.transpose(arr, order)
            if box.override_bits:                        # the old bits are forgotten
                nq = 2 * n
                for _ in range(n):
                    arr = np.multiply.outer(np.eye(2, dtype=complex), arr)
                # discarded-bit pairs were put in front; move them behind the qubit inputs
                total = arr.ndim
                order = list(range(nq, 2 * nq)) + list(range(nq)) + list(range(2 * nq, total))
                arr = np.transpose(arr, order)
            return arr
        if isinstance(box, Scalar):
            from discopy.quantum.gates import Sqrt
            if isinstance(box, Sqrt):
                # the amplitude of sqrt(z) is the principal root of its DATUM z (any sign, any
                # phase), computed here; its doubled value is |root|^2 = |z|
                import cmath
                z = cmath.sqrt(complex(box.data))
            else:
                z = complex(box.array[0])
            return np.array(z if box.is_mixed else abs(z) ** 2, dtype=complex)
        if not box.is_mixed:
            if box.is_dagger:
                u = np.asarray(box.dagger().array, dtype=complex).reshape(dout + din)
                u = np.conjugate(np.transpose(
                    u, list(range(nout, nout + nin)) + list(range(nout))))
            elif textbook_rotation(box) is not None:
                # rotations: the textbook matrix from the class name and the phase, computed
                # here (not `box.array`, not anything the library may have stored for the box)
                u = textbook_rotation(box).reshape(din + dout)
            else:
                u = np.asarray(box.array, dtype=complex).reshape(din + dout)
            if is_classical_gate(box):                   # also a weight: no wire, any value
                return self.diagonal(u, din, dout)
            return self.doubled(u, nin, nout)
        if hasattr(box, "array"):                        # a user channel given in CQ layout
            return self.from_cq_layout(np.asarray(box.array, dtype=complex), box.dom, box.cod)
        raise NotImplementedError(type(box).__name__)

    @staticmethod
    def from_cq_layout(arr, dom, cod):
        """[c.., q.., q'.. | c'.., p.., p'..]  ->  one (ket, bra) pair of axes per wire."""
        def split(ty):
            obs = list(ty.objects)
            cl = [i for i, x in enumerate(obs) if is_bit(x)]
            qu = [i for i, x in enumerate(obs) if not is_bit(x)]
            return obs, cl, qu
        dobs, dcl, dqu = split(dom)
        cobs, ccl, cqu = split(cod)
        shape = [dobs[i].dim for i in dcl] + [dobs[i].dim for i in dqu] * 2 \
            + [cobs[i].dim for i in ccl] + [cobs[i].dim for i in cqu] * 2
        arr = arr.reshape(shape)
        nd, nc = len(dobs), len(cobs)
        out = np.zeros([x.dim for x in dobs for _ in (0, 1)] + [x.dim for x in cobs for _ in (0, 1)],
                       dtype=complex)
        for idx in np.ndindex(*shape):
            pos = 0
            tgt = [None] * (2 * (nd + nc))
            for base, cl, qu in ((0, dcl, dqu), (2 * nd, ccl, cqu)):
                for w in cl:
                    tgt[base + 2 * w] = tgt[base + 2 * w + 1] = idx[pos]
                    pos += 1
                for w in qu:
                    tgt[base + 2 * w] = idx[pos]
                    pos += 1
                for w in qu:
                    tgt[base + 2 * w + 1] = idx[pos]
                    pos += 1
            out[tuple(tgt)] = arr[idx]
        return out

    def run(self, circuit):
        """array in discopy's layout [dom c.., dom q.., dom q'.., cod c.., cod q.., cod q'..]."""
        from discopy import monoidal
        dom = list(circuit.dom.objects)
        in_pairs = [self.new() for _ in dom]
        scan_pairs = [self.new() for _ in dom]
        scan_obs = list(dom)
        state = np.ones((), dtype=complex)
        labels = []
        for ob, pi, po in zip(dom, in_pairs, scan_pairs):
            if is_bit(ob):
                fac = self.delta(ob.dim, 2)
            else:
                # (a, a', b, b') with a = b, a' = b'
                fac = np.transpose(np.multiply.outer(np.eye(ob.dim), np.eye(ob.dim)), (0, 2, 1, 3))
            state = np.multiply.outer(state, fac)
            labels += [pi[0], pi[1], po[0], po[1]]
        for box, off in zip(circuit.boxes, circuit.offsets):
            nin, nout = len(box.dom), len(box.cod)
            ins = scan_pairs[off:off + nin]
            if isinstance(box, monoidal.Swap):
                nl = len(box.left)
                outs = ins[nl:] + ins[:nl]
                obs = scan_obs[off + nl:off + nin] + scan_obs[off:off + nl]
            else:
                outs = [self.new() for _ in range(nout)]
                obs = list(box.cod.objects)
                arr = self.box_op(box)
                blabels = [x for p in ins for x in p] + [x for p in outs for x in p]
                keep = [x for x in labels if x not in blabels] + [x for p in outs for x in p]
                state = np.einsum(state, labels, arr, blabels, keep)
                labels = keep
            scan_pairs = scan_pairs[:off] + outs + scan_pairs[off + nin:]
            scan_obs = scan_obs[:off] + obs + scan_obs[off + nin:]

        def layout(obs, pairs):
            cl = [p for ob, p in zip(obs, pairs) if is_bit(ob)]
            qu = [p for ob, p in zip(obs, pairs) if not is_bit(ob)]
            return cl, qu
        dc, dq = layout(dom, in_pairs)
        cc, cq = layout(scan_obs, scan_pairs)
        # classical wires: read the diagonal (same label twice on the input side of einsum)
        ren = {}
        for p in dc + cc:
            ren[p[1]] = p[0]
        src = [ren.get(x, x) for x in labels]
        out = [p[0] for p in dc] + [p[0] for p in dq] + [p[1] for p in dq] \
            + [p[0] for p in cc] + [p[0] for p in cq] + [p[1] for p in cq]
        return np.einsum(state, src, out), scan_obs
