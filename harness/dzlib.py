"""diagramize / nx2diagram: function bodies as data, their real-code runs, token forms for the
Lean driver (`dz`, `nx2d`, `nxg`, `nxgraph`, Driver/DzCmd.lean), an independent planarity check
and the property's wiring predicate.

A wire is a key tuple (value of a `drawing.Node`):
  ("I", ob, i)  ("O", ob, i)  ("D", ob, i, depth)  ("C", ob, i, depth)  ("B", boxspec, depth, attr)
with ob = (name, z), attr in {"A" (absent), "N" (None), int}.
A body is (calls, ret): calls = [(boxspec, [wire keys], offset kw or None)], ret = [wire keys].
"""
from common import tokname, err_class, ser_diagram
from core import tok_ty, tok_box, spec_box

# ------------------------------------------------------------------ keys, tokens, real nodes


def tok_ob(o):
    return "%s %d" % (tokname(o[0]), o[1])


def tok_attr(a):
    return a if a in ("A", "N") else str(int(a))


def tok_node(k):
    t = k[0]
    if t in ("I", "O"):
        return "%s %s %d" % (t, tok_ob(k[1]), k[2])
    if t in ("D", "C"):
        return "%s %s %d %d" % (t, tok_ob(k[1]), k[2], k[3])
    return "B %s %d %s" % (tok_box(k[1]), k[2], tok_attr(k[3]))


def tok_nodes(ks):
    return " ".join([str(len(ks))] + [tok_node(k) for k in ks])


def tok_call(c):
    b, ins, off = c
    return "%s %s %s" % (tok_box(b), tok_nodes(ins), "N" if off is None else str(off))


def tok_dz(sig, has_id, dom, cod, calls, ret):
    return "dz %s %d %s %s %s %s" % (
        " ".join([str(len(sig))] + [tok_box(b) for b in sig]), 1 if has_id else 0,
        tok_ty(dom), tok_ty(cod),
        " ".join([str(len(calls))] + [tok_call(c) for c in calls]), tok_nodes(ret))


def key_obj(k):
    """`node.obj` of a key (None: the node has no `obj`)."""
    return k[1] if k[0] != "B" else None


def ob_spec(x):
    return (x.name, getattr(x, "z", 0))


def canon_box(b, pool):
    """`diagram2nx` works on `diagram.downgrade()` (drawing.py:100, monoidal.py:328-332, 684-693):
    Swap / Cup / Cap boxes come back as plain `monoidal.Box` copies that Python's `==` identifies
    with the originals.  Serialise a box up to that equality: the member of `pool` it equals."""
    for b0 in pool or ():
        if b0 == b:
            return b0
    return b


def ser_diagram_like(d, pool):
    from common import ser_ty, ser_box, ser_list

    def sb(b):
        return ser_box(canon_box(b, pool))

    def sl(layer):
        left, box, right = layer
        return "%s %s %s" % (ser_ty(left), sb(box), ser_ty(right))
    ls = d.layers
    return "%s %s %s %s %s %s %s" % (
        ser_ty(d.dom), ser_ty(d.cod), ser_list(sb, d.boxes),
        ser_list(lambda o: str(int(o)), d.offsets),
        ser_ty(ls.dom), ser_ty(ls.cod), ser_list(sl, ls.boxes))


def key_of(node, attr="data", pool=None):
    """Key of a real `drawing.Node`.  `attr="live"`: read the live `offset` attribute of a box node
    (what `getattr(node, "offset", 0)` sees), else the one in `node.data`."""
    k = node.kind
    if k in ("input", "output"):
        return ("I" if k == "input" else "O", ob_spec(node.obj), node.i)
    if k in ("dom", "cod"):
        return ("D" if k == "dom" else "C", ob_spec(node.obj), node.i, node.depth)
    if attr == "live":
        a = getattr(node, "offset", "A")
    else:
        a = node.data.get("offset", "A")
    return ("B", spec_box(canon_box(node.box, pool)), node.depth, "N" if a is None else a)


class Maker:
    """Real values for one case: ONE Python box object per distinct box spec (cat.Box.__call__
    looks `_apply` up on the object), fresh per case (a failed `diagramize` leaves `_apply` set)."""

    def __init__(self, F):
        self.F = F
        self.boxes = {}

    def box(self, spec):
        t = tok_box(spec)
        if t not in self.boxes:
            self.boxes[t] = self.F.box(spec)
        return self.boxes[t]

    def node(self, k):
        from discopy.drawing import Node
        F = self.F
        t = k[0]
        if t == "I":
            return Node("input", obj=F.ob(k[1]), i=k[2])
        if t == "O":
            return Node("output", obj=F.ob(k[1]), i=k[2])
        if t == "D":
            return Node("dom", obj=F.ob(k[1]), i=k[2], depth=k[3])
        if t == "C":
            return Node("cod", obj=F.ob(k[1]), i=k[2], depth=k[3])
        kw = {}
        if k[3] != "A":
            kw["offset"] = None if k[3] == "N" else k[3]
        return Node("box", box=self.box(k[1]), depth=k[2], **kw)


def make_fn(mk, calls, ret, ret_style, log):
    """The Python function whose run is the body `(calls, ret)`.  Wires that the run itself
    produced (parameters, values returned by earlier calls) are passed as those very objects;
    any other key is a fabricated `Node`.  `log` receives the keys of what each call returned."""
    def fn(*params):
        live = {}
        for p in params:
            live.setdefault(key_of(p), p)
        log.append([key_of(p) for p in params])

        def wire(k):
            return live[k] if k[0] != "B" and k in live else mk.node(k)
        for b, ins, off in calls:
            kw = {} if off is None else {"offset": off}
            out = mk.box(b)(*[wire(k) for k in ins], **kw)
            outs = out if isinstance(out, tuple) else (out,)
            log.append([key_of(n) for n in outs])
            for n in outs:
                live.setdefault(key_of(n), n)
        r = tuple(wire(k) for k in ret)
        if ret_style == "single" and len(r) == 1:
            return r[0]
        if ret_style == "none" and len(r) == 0:
            return None         # `tuplify(None)` is `(None,)`: only equivalent when cod is empty
        return r
    return fn


class Session:
    """`signature = diagramize(dom, cod, boxes, id_factory)`: ONE signature object (and one set of
    box objects), used to declare one or several functions (`signature(fn1)`, `signature(fn2)`,
    ...).  Each declaration must stand on its own."""

    def __init__(self, F, sig, has_id, dom, cod):
        from discopy.drawing import diagramize
        self.F, self.mk, self.cod = F, Maker(F), cod
        self.exc = None
        try:
            boxes = [self.mk.box(b) for b in sig]
            self.signature = diagramize(F.ty(dom), F.ty(cod), boxes,
                                        id_factory=F.m.Id if has_id else None)
        except Exception as exc:  # noqa
            self.exc = exc

    def declare(self, calls, ret, ret_style="tuple"):
        """Returns (answer line, diagram or None, log)."""
        log = []
        if self.exc is not None:
            return "err " + err_class(self.exc), None, log
        try:
            style = ret_style if (ret_style != "none" or not self.cod) else "tuple"
            d = self.signature(make_fn(self.mk, calls, ret, style, log))
            return "ok " + ser_diagram(d), d, log
        except Exception as exc:  # noqa: the class is the observation
            return "err " + err_class(exc), None, log


def real_dz(F, sig, has_id, dom, cod, calls, ret, ret_style="tuple"):
    """Run the real `diagramize` with a fresh signature object."""
    return Session(F, sig, has_id, dom, cod).declare(calls, ret, ret_style)


def variants(rng, g, case):
    """One or two further bodies for the SAME signature (same dom, cod, boxes): the body again,
    the body followed by an endomorphism box on one returned wire, the body followed by a scalar
    box.  The signature of the whole group (returned) contains every box used."""
    import copy
    out = []
    planar = case["mutation"] is None
    for _ in range(rng.choice([1, 1, 2])):
        kind = rng.choice(["again", "endo", "scalar"]) if planar else "again"
        c = copy.deepcopy(case)
        c["mutation"] = "variant:" + kind + ("" if planar else ":of_malformed")
        n = len(c["calls"])
        if kind == "endo" and c["ret"]:
            j = rng.randrange(len(c["ret"]))
            t = key_obj(c["ret"][j])
            b = g.gbox([t], [t])
            c["calls"].append((b, [c["ret"][j]], None))
            c["ret"][j] = ("C", t, 0, n)
            c["sig"] = dedupe_sig(c["sig"] + [b])
        elif kind == "scalar":
            b = g.gbox([], [])
            c["calls"].append((b, [], rng.randint(0, len(c["ret"]))))
            c["sig"] = dedupe_sig(c["sig"] + [b])
        out.append(c)
    sig = dedupe_sig([b for c in [case] + out for b in c["sig"]])
    return out, sig


# ------------------------------------------------------------------ bodies from diagrams


def inputs_of(dom):
    return [("I", o, i) for i, o in enumerate(dom)]


def outs_of(box, depth):
    return [("C", o, i, depth) for i, o in enumerate(box["cod"])]


def body_of_mk(e, rng):
    """The planar body describing the `mk` expression `e` (wires taken in scan order).  The
    `offset=` keyword is given where it is needed (calls without arguments) and, being ignored
    otherwise, sometimes given anyway — right or wrong."""
    _, dom, cod, boxes, offsets = e
    scan = inputs_of(dom)
    calls = []
    for k, (b, off) in enumerate(zip(boxes, offsets)):
        m = len(b["dom"])
        kw = off
        if m > 0:
            kw = rng.choice([None, None, None, off, rng.randint(-2, 6)])
        calls.append((b, scan[off:off + m], kw))
        scan = scan[:off] + outs_of(b, k) + scan[off + m:]
    return calls, list(scan)


def dedupe_sig(boxes):
    seen, out = set(), []
    for b in boxes:
        t = tok_box(b)
        if t not in seen:
            seen.add(t)
            out.append(b)
    return out


MUTATIONS = ["swap_args", "skip_arg", "reuse_consumed", "dup_arg", "drop_ret", "extra_ret",
             "perm_ret", "no_offset", "bad_offset", "not_in_sig", "arity", "type_mismatch",
             "fab_input", "fab_cod", "box_as_wire", "dom_as_wire", "no_sig_no_id", "ret_box",
             "ret_type", "ret_consumed"]


WIRE_MUTATIONS = ["swap_args", "skip_arg", "reuse_consumed", "dup_arg", "drop_ret", "perm_ret",
                  "no_offset", "bad_offset", "ret_consumed"]


def fixed_cases():
    """The bodies about which Props/C20.lean proves concrete facts (docstring snake, non-planar
    use accepted, permuted return accepted, wire used twice, unused wire, missing / clamped
    offset, fabricated parameter): checked against the real code on every run."""
    x, xr = ("x", 0), ("x", 1)

    def gb(name, dom, cod):
        return dict(kind="g", name=name, dom=dom, cod=cod, dagger=False, data=None)
    cup = dict(kind="u", name=None, dom=[x, xr], cod=[], dagger=False, data=None)
    cap = dict(kind="a", name=None, dom=[], cod=[xr, x], dagger=False, data=None)
    f, s = gb("f", [x, x], [x]), gb("s", [], [x])
    I = lambda i: ("I", x, i)
    C = lambda i, k, o=x: ("C", o, i, k)

    def case(fam, sig, dom, cod, calls, ret, name):
        return (fam, dict(sig=sig, has_id=False, dom=dom, cod=cod, calls=calls, ret=ret, scans=[],
                          mutation="fixed:" + name, ret_style="tuple"))
    return [
        case("rigid", [cup, cap], [x], [x], [(cap, [], 1), (cup, [I(0), C(0, 0, xr)], None)],
             [C(1, 0)], "snake"),
        case("monoidal", [f], [x, x, x], [x, x], [(f, [I(0), I(2)], None)], [C(0, 0), I(1)],
             "nonplanar_accepted"),
        case("monoidal", [f], [x, x], [x, x], [], [I(1), I(0)], "swap_accepted"),
        case("monoidal", [f], [x, x], [x, x], [(f, [I(0), I(1)], None), (f, [I(0), I(1)], None)],
             [C(0, 0), C(0, 1)], "used_twice"),
        case("monoidal", [f], [x, x, x], [x], [(f, [I(0), I(1)], None)], [C(0, 0)], "unused_wire"),
        case("monoidal", [s], [x], [x, x], [(s, [], None)], [I(0), C(0, 0)], "missing_offset"),
        case("monoidal", [s], [x], [x, x], [(s, [], 5)], [I(0), C(0, 0)], "offset_clamped"),
        case("monoidal", [f], [x], [x], [(f, [I(0), I(7)], None)], [C(0, 0)], "fabricated_input"),
    ]


def mutate(rng, g, case, kind):
    """One malformation of a planar case (dict with sig, has_id, dom, cod, calls, ret).  Returns
    False when it does not apply."""
    calls, ret = case["calls"], case["ret"]
    withargs = [k for k, c in enumerate(calls) if len(c[1]) >= 1]
    with2 = [k for k, c in enumerate(calls) if len(c[1]) >= 2]
    noargs = [k for k, c in enumerate(calls) if len(c[1]) == 0]

    def setcall(k, **kw):
        b, ins, off = calls[k]
        calls[k] = (kw.get("box", b), kw.get("ins", ins), kw.get("off", off))
    if kind == "swap_args" and with2:
        k = rng.choice(with2)
        ins = list(calls[k][1])
        i = rng.randrange(len(ins) - 1)
        ins[i], ins[i + 1] = ins[i + 1], ins[i]
        setcall(k, ins=ins)
    elif kind == "skip_arg" and withargs:
        # take a wire further right instead of the adjacent one (non-contiguous)
        k = rng.choice(withargs)
        scan = case["scans"][k]
        ins = list(calls[k][1])
        pos = scan.index(ins[-1])
        if pos + 1 >= len(scan):
            return False
        ins[-1] = scan[rng.randrange(pos + 1, len(scan))]
        setcall(k, ins=ins)
    elif kind == "reuse_consumed" and withargs and len(calls) >= 2:
        k = rng.randrange(1, len(calls))
        if not calls[k][1]:
            return False
        earlier = [w for c in calls[:k] for w in c[1]]
        if not earlier:
            return False
        ins = list(calls[k][1])
        ins[rng.randrange(len(ins))] = rng.choice(earlier)
        setcall(k, ins=ins)
    elif kind == "dup_arg" and with2:
        k = rng.choice(with2)
        ins = list(calls[k][1])
        ins[1] = ins[0]
        setcall(k, ins=ins)
    elif kind == "drop_ret" and ret:
        del ret[rng.randrange(len(ret))]
    elif kind == "extra_ret":
        pool = ret + [w for c in calls for w in c[1]] + inputs_of(case["dom"])
        if not pool:
            return False
        ret.insert(rng.randint(0, len(ret)), rng.choice(pool))
    elif kind == "perm_ret" and len(ret) >= 2:
        i = rng.randrange(len(ret) - 1)
        ret[i], ret[i + 1] = ret[i + 1], ret[i]
    elif kind == "no_offset" and noargs:
        setcall(rng.choice(noargs), off=None)
    elif kind == "bad_offset" and noargs:
        k = rng.choice(noargs)
        n = len(case["scans"][k])
        setcall(k, off=rng.choice([-1, -2, -n - 1, n + 1, n + 3, rng.randint(0, n)]))
    elif kind == "not_in_sig" and calls:
        k = rng.randrange(len(calls))
        t = tok_box(calls[k][0])
        case["sig"] = [b for b in case["sig"] if tok_box(b) != t]
    elif kind == "arity" and calls:
        k = rng.randrange(len(calls))
        ins = list(calls[k][1])
        if ins and rng.random() < 0.5:
            del ins[rng.randrange(len(ins))]
        else:
            pool = case["scans"][k] or inputs_of(case["dom"])
            if not pool:
                return False
            ins.append(rng.choice(pool))
        setcall(k, ins=ins)
    elif kind == "type_mismatch" and [k for k in withargs if calls[k][0]["kind"] == "g"]:
        # (only plain boxes: a Cup / Swap with a changed domain is not a constructible value)
        k = rng.choice([k for k in withargs if calls[k][0]["kind"] == "g"])
        b = dict(calls[k][0])
        dom = list(b["dom"])
        i = rng.randrange(len(dom))
        dom[i] = (dom[i][0] + "q", dom[i][1])
        b["dom"] = dom
        t = tok_box(calls[k][0])
        case["sig"] = dedupe_sig([b if tok_box(s) == t else s for s in case["sig"]])
        setcall(k, box=b)
    elif kind == "fab_input" and withargs:
        k = rng.choice(withargs)
        ins = list(calls[k][1])
        i = rng.randrange(len(ins))
        ins[i] = ("I", key_obj(ins[i]), rng.choice([len(case["dom"]), len(case["dom"]) + 3]))
        setcall(k, ins=ins)
    elif kind == "fab_cod" and withargs:
        k = rng.choice(withargs)
        ins = list(calls[k][1])
        i = rng.randrange(len(ins))
        ins[i] = ("C", key_obj(ins[i]), rng.randint(0, 5), rng.choice([k, k + 1, len(calls) + 2, 0]))
        setcall(k, ins=ins)
    elif kind == "box_as_wire" and withargs:
        k = rng.choice(withargs)
        ins = list(calls[k][1])
        ins[rng.randrange(len(ins))] = ("B", calls[k][0], rng.randint(0, k), rng.choice(["A", "N", 0]))
        setcall(k, ins=ins)
    elif kind == "dom_as_wire" and withargs:
        k = rng.choice(withargs)
        ins = list(calls[k][1])
        i = rng.randrange(len(ins))
        ins[i] = (rng.choice(["D", "O"]), key_obj(ins[i]), i, rng.randint(0, k))
        if ins[i][0] == "O":
            ins[i] = ins[i][:3]
        setcall(k, ins=ins)
    elif kind == "no_sig_no_id":
        case["has_id"] = False
        if calls and rng.random() < 0.7:
            return False
        if not calls:
            case["sig"] = []
    elif kind == "ret_box" and ret and calls:
        ret[rng.randrange(len(ret))] = ("B", calls[0][0], 0, "N")
    elif kind == "ret_type" and case["cod"]:
        cod = list(case["cod"])
        i = rng.randrange(len(cod))
        cod[i] = (cod[i][0] + "q", cod[i][1])
        case["cod"] = cod
    elif kind == "ret_consumed" and ret:
        earlier = [w for c in calls for w in c[1]]
        if not earlier:
            return False
        ret[rng.randrange(len(ret))] = rng.choice(earlier)
    else:
        return False
    return True


def make_case(rng, g, e, malformed):
    """A `dz` case from a well-typed `mk` expression; `malformed`: apply one mutation."""
    _, dom, cod, boxes, offsets = e
    calls, ret = body_of_mk(e, rng)
    scans, scan = [], inputs_of(dom)
    for k, (b, off) in enumerate(zip(boxes, offsets)):
        scans.append(list(scan))
        scan = scan[:off] + outs_of(b, k) + scan[off + len(b["dom"]):]
    sig = dedupe_sig(list(boxes) + ([g.gbox(g.ty(0, 2))] if rng.random() < 0.3 else []))
    rng.shuffle(sig)
    case = dict(sig=sig, has_id=bool(not sig or rng.random() < 0.6), dom=list(dom), cod=list(cod),
                calls=calls, ret=ret, scans=scans, mutation=None,
                ret_style=rng.choice(["tuple", "single", "none"]))
    if malformed:
        kinds = list(MUTATIONS)
        rng.shuffle(kinds)
        if rng.random() < 0.5:      # half of the malformed bodies misuse WIRES
            first = [k for k in kinds if k in WIRE_MUTATIONS]
            kinds = first + [k for k in kinds if k not in WIRE_MUTATIONS]
        for kind in kinds:
            if mutate(rng, g, case, kind):
                case["mutation"] = kind
                break
    return case


# ------------------------------------------------------------------ independent planarity check


def py_planar(case):
    """Offsets of the calls if the body uses its wires in planar order (every call takes a
    contiguous block of the currently open wires, in order, with the right types and a box of
    the signature; a call without arguments names its position with `offset=`; exactly the open
    wires are returned, of the declared codomain), else None.  Searches every position."""
    sigt = {tok_box(b) for b in case["sig"]}
    scan = inputs_of(case["dom"])
    offs = []
    for k, (b, ins, kw) in enumerate(case["calls"]):
        if tok_box(b) not in sigt:
            return None
        if [key_obj(w) for w in ins] != list(b["dom"]):
            return None
        m = len(ins)
        if m == 0:
            if kw is None or not 0 <= kw <= len(scan):
                return None
            off = kw
        else:
            found = [p for p in range(len(scan) - m + 1) if scan[p:p + m] == list(ins)]
            if not found:
                return None
            off = found[0]
        offs.append(off)
        scan = scan[:off] + outs_of(b, k) + scan[off + m:]
    if scan != list(case["ret"]):
        return None
    if [key_obj(w) for w in case["ret"]] != list(case["cod"]):
        return None
    return offs


def tok_planar(offs):
    return "NP" if offs is None else " ".join(["P", str(len(offs))] + [str(o) for o in offs])


# ------------------------------------------------------------------ the property's predicate


def follow_up(d, k, p):
    """The wire at type position `p` after `k` boxes of the real diagram `d`, found by walking
    up through the layers: ("I", i) or ("C", depth, i)."""
    while k > 0:
        box, off = d.boxes[k - 1], d.offsets[k - 1]
        m, c = len(box.dom), len(box.cod)
        if p >= off + c:
            p = p - c + m
        elif p >= off:
            return ("C", k - 1, p - off)
        k -= 1
    return ("I", p)


def short(k):
    return ("I", k[2]) if k[0] == "I" else ("C", k[3], k[2]) if k[0] == "C" else k


def wiring_failures(F, case, d):
    """C20's last clause on a real result: `d` is well typed, from `dom` to `cod`, its boxes are
    the called boxes in program order, and the wire entering port `j` of box `k` — found by
    walking up the DIAGRAM — is the wire the body passed as argument `j` of call `k`; the
    diagram's outputs are the returned wires."""
    from common import wf_failure
    out = []
    w = wf_failure(d)
    if w:
        return [("diagramize_ill_typed", w)]
    if d.dom != F.ty(case["dom"]) or d.cod != F.ty(case["cod"]):
        out.append(("diagramize_wrong_type", "%s -> %s" % (d.dom, d.cod)))
    want = [F.box(b) for b, _, _ in case["calls"]]
    if list(d.boxes) != want:
        return out + [("diagramize_wrong_boxes", "%r" % (d.boxes,))]
    for k, (b, ins, _) in enumerate(case["calls"]):
        off = d.offsets[k]
        for j, wkey in enumerate(ins):
            got = follow_up(d, k, off + j)
            if got != short(wkey):
                out.append(("diagramize_wrong_wiring",
                            "box %d port %d is fed by %r, the body passes %r" % (k, j, got, short(wkey))))
    if len(d.cod) != len(case["ret"]):
        out.append(("diagramize_wrong_wiring", "returned %d wires, diagram has %d outputs"
                    % (len(case["ret"]), len(d.cod))))
    else:
        for i, wkey in enumerate(case["ret"]):
            got = follow_up(d, len(d.boxes), i)
            if got != short(wkey):
                out.append(("diagramize_wrong_wiring",
                            "output %d is %r, the body returns %r" % (i, got, short(wkey))))
    return out


# ------------------------------------------------------------------ graphs


def graph_tokens(graph, attr="live", pool=None):
    """`<nodes> <edges>`: nodes in `graph.nodes` order, edges grouped by source in node order,
    successors in insertion order (`graph.edges()`)."""
    ns = [key_of(n, attr, pool) for n in graph.nodes]
    es = [(key_of(a, attr, pool), key_of(b, attr, pool)) for a, b in graph.edges()]
    return "%s %s" % (tok_nodes(ns),
                      " ".join([str(len(es))] + [tok_node(a) + " " + tok_node(b) for a, b in es]))


def set_attrs(graph, attrs):
    """`node.offset = …` on box nodes (attrs[k]: "A" leaves it absent)."""
    for node in graph.nodes:
        if node.kind == "box" and node.depth < len(attrs) and attrs[node.depth] != "A":
            a = attrs[node.depth]
            node.offset = None if a == "N" else a


def real_nx2diagram(F, graph, pool=None):
    from discopy.drawing import nx2diagram
    try:
        d = nx2diagram(graph, F.m.Ty, F.m.Id)
        return "ok " + ser_diagram_like(d, pool), d
    except Exception as exc:  # noqa
        return "err " + err_class(exc), None


GRAPH_MUTATIONS = ["remove_edge", "add_edge", "remove_node", "dup_in_edge", "box_to_box", "none"]


def mutate_graph(rng, graph, kind):
    nodes = list(graph.nodes)
    edges = list(graph.edges())
    if kind == "remove_edge" and edges:
        graph.remove_edge(*rng.choice(edges))
    elif kind == "add_edge" and len(nodes) >= 2:
        a, b = rng.choice(nodes), rng.choice(nodes)
        graph.add_edge(a, b)
    elif kind == "remove_node" and nodes:
        graph.remove_node(rng.choice(nodes))
    elif kind == "dup_in_edge":
        doms = [n for n in nodes if n.kind == "dom"]
        srcs = [n for n in nodes if n.kind in ("input", "cod")]
        if not doms or not srcs:
            return False
        graph.add_edge(rng.choice(srcs), rng.choice(doms))
    elif kind == "box_to_box":
        bs = [n for n in nodes if n.kind == "box"]
        if len(bs) < 2:
            return False
        a, b = rng.sample(bs, 2)
        graph.add_edge(a, b)
    elif kind == "none":
        pass
    else:
        return False
    return True
