"""Numeric TYPES of box data (scalars, phases): every kind of number a user can hand to discopy.

The VALUE space is kept exactly representable — Gaussian rationals with power-of-two denominators
(re, im : fractions.Fraction) — so that the same value can be built in every type, read back from
whatever object discopy stores (`exact`), and handed to the Lean model as an element of ℤ[ζ₈]/2^e
(`cyc8.from_gaussian`).  The TYPE is what varies: Python int / bool / float / complex / Fraction /
Decimal, numpy float16/32/64/longdouble, int8/32/64, uint8, complex64/128/clongdouble, 0-d arrays,
elements taken out of arrays, sympy Integer / Rational / Float / `Rational + I*Rational` / `Float + I*Float`.

Nothing here imports discopy.
"""
import decimal
import fractions
import numbers

import numpy as np

Fraction = fractions.Fraction


class Kind:
    """One numeric type.  `make(re, im)` builds the value; flags say which values it can hold."""

    def __init__(self, name, make, cplx=False, ints=False, nonneg=False, prec="hi", circuits=True,
                 family="python"):
        self.name, self.make, self.cplx, self.ints, self.nonneg = name, make, cplx, ints, nonneg
        self.prec, self.circuits, self.family = prec, circuits, family

    def __repr__(self):
        return self.name


def _f(x):
    """Fraction -> float; exact for the dyadic values used here."""
    return x.numerator / x.denominator


def _sym_rat(x):
    import sympy
    return sympy.Rational(x.numerator, x.denominator)


def _sym_add(re, im):
    import sympy
    return _sym_rat(re) + sympy.I * _sym_rat(im)


def _sym_fadd(re, im):
    import sympy
    return sympy.Float(_f(re)) + sympy.I * sympy.Float(_f(im))


def _elem(dtype, pos):
    """The value as an ELEMENT taken out of an array of that dtype (the way data reaches discopy from
    a parameter vector)."""
    def make(re, im):
        v = complex(_f(re), _f(im)) if np.dtype(dtype).kind == "c" else (
            int(re) if np.dtype(dtype).kind in "iu" else _f(re))
        arr = np.array([7, v, 3], dtype=dtype) if pos == 1 else np.array([v, 5], dtype=dtype)
        return arr[pos]
    return make


def _zero_d(dtype):
    def make(re, im):
        v = complex(_f(re), _f(im)) if np.dtype(dtype).kind == "c" else (
            int(re) if np.dtype(dtype).kind in "iu" else _f(re))
        return np.array(v, dtype=dtype)
    return make


def _np_real(t):
    return lambda re, im: t(_f(re))


def _np_int(t):
    return lambda re, im: t(int(re))


def _np_cplx(t):
    return lambda re, im: t(complex(_f(re), _f(im)))


def _sym_integer(re, im):
    import sympy
    return sympy.Integer(int(re))


def _sym_float(re, im):
    import sympy
    return sympy.Float(_f(re))


KINDS = [
    # ---- real-valued types
    Kind("int", lambda re, im: int(re), ints=True),
    Kind("bool", lambda re, im: bool(re), ints=True, nonneg=True),
    Kind("float", lambda re, im: _f(re)),
    Kind("Fraction", lambda re, im: Fraction(re)),
    Kind("Decimal", lambda re, im: decimal.Decimal(re.numerator) / decimal.Decimal(re.denominator),
         circuits=False),
    Kind("np.float16", _np_real(np.float16), prec="f16", family="numpy"),
    Kind("np.float32", _np_real(np.float32), prec="f32", family="numpy"),
    Kind("np.float64", _np_real(np.float64), family="numpy"),
    Kind("np.longdouble", _np_real(np.longdouble), family="numpy"),
    Kind("np.int8", _np_int(np.int8), ints=True, family="numpy"),
    Kind("np.int32", _np_int(np.int32), ints=True, family="numpy"),
    Kind("np.int64", _np_int(np.int64), ints=True, family="numpy"),
    Kind("np.uint8", _np_int(np.uint8), ints=True, nonneg=True, family="numpy"),
    Kind("ndarray0d[float32]", _zero_d(np.float32), prec="f32", family="numpy-0d"),
    Kind("ndarray0d[float64]", _zero_d(np.float64), family="numpy-0d"),
    Kind("ndarray0d[int64]", _zero_d(np.int64), ints=True, family="numpy-0d"),
    Kind("element[float32]", _elem(np.float32, 1), prec="f32", family="numpy-element"),
    Kind("element[float64]", _elem(np.float64, 0), family="numpy-element"),
    Kind("element[int32]", _elem(np.int32, 1), ints=True, family="numpy-element"),
    Kind("sympy.Integer", _sym_integer, ints=True, family="sympy"),
    Kind("sympy.Rational", lambda re, im: _sym_rat(re), family="sympy"),
    Kind("sympy.Float", _sym_float, family="sympy"),
    # ---- complex-valued types (also hold real values: imaginary part 0)
    Kind("complex", lambda re, im: complex(_f(re), _f(im)), cplx=True),
    Kind("np.complex64", _np_cplx(np.complex64), cplx=True, prec="f32", family="numpy"),
    Kind("np.complex128", _np_cplx(np.complex128), cplx=True, family="numpy"),
    Kind("np.clongdouble", _np_cplx(np.clongdouble), cplx=True, family="numpy"),
    Kind("ndarray0d[complex64]", _zero_d(np.complex64), cplx=True, prec="f32", family="numpy-0d"),
    Kind("ndarray0d[complex128]", _zero_d(np.complex128), cplx=True, family="numpy-0d"),
    Kind("element[complex64]", _elem(np.complex64, 1), cplx=True, prec="f32", family="numpy-element"),
    Kind("element[complex128]", _elem(np.complex128, 0), cplx=True, family="numpy-element"),
    Kind("element[clongdouble]", _elem(np.clongdouble, 1), cplx=True, family="numpy-element"),
    Kind("sympy.Rational+I*Rational", _sym_add, cplx=True, family="sympy"),
    Kind("sympy.Float+I*Float", _sym_fadd, cplx=True, family="sympy"),
]
BY_NAME = {k.name: k for k in KINDS}
REAL_KINDS = [k for k in KINDS if not k.cplx]
COMPLEX_KINDS = [k for k in KINDS if k.cplx]
PLAIN = ("int", "float", "complex")          # what the generators used before


def fits(kind, re, im):
    if im != 0 and not kind.cplx:
        return False
    if kind.ints and re.denominator != 1:
        return False
    if kind.nonneg and re < 0:
        return False
    if kind.name == "bool" and re not in (0, 1):
        return False
    if kind.name in ("np.int8",) and not -128 <= re <= 127:
        return False
    return True


# --------------------------------------------------------------------------- exact reading

def _exact_real(x):
    """Fraction of a real number of any type, exactly; None if that is impossible."""
    if isinstance(x, bool):
        return Fraction(int(x))
    if isinstance(x, (int, Fraction)):
        return Fraction(x)
    if isinstance(x, decimal.Decimal):
        return Fraction(x) if x.is_finite() else None
    if isinstance(x, float):
        return Fraction(x) if x == x and abs(x) != float("inf") else None
    if isinstance(x, np.generic):
        if x.dtype.kind in "iub":
            return Fraction(int(x))
        if x.dtype.kind == "f":
            if not np.isfinite(x):
                return None
            f = float(x)
            if type(x)(f) != x:             # longdouble with more than 53 significant bits
                return None
            return Fraction(f)
        return None
    if isinstance(x, numbers.Rational):
        return Fraction(int(x.numerator), int(x.denominator))
    return None


def exact(x):
    """(re, im) as Fractions of ANY numeric object — python, numpy scalar, 0-d / 1-element array, sympy
    number — or None if the object is not an exactly readable finite number.  Independent of how the
    object was made: it reads only the object."""
    if isinstance(x, np.ndarray):
        if x.size != 1:
            return None
        x = x.reshape(-1)[0]
    if isinstance(x, (complex, np.complexfloating)):
        re, im = _exact_real(x.real), _exact_real(x.imag)
        return None if re is None or im is None else (re, im)
    r = _exact_real(x)
    if r is not None:
        return r, Fraction(0)
    if type(x).__module__.split(".")[0] == "sympy":
        import sympy
        if getattr(x, "free_symbols", None):
            return None
        re, im = x.as_real_imag()
        out = []
        for part in (re, im):
            if part.is_Float:
                part = sympy.Rational(part)          # exact binary value of the Float
            if not part.is_Rational:
                return None
            out.append(Fraction(int(part.p), int(part.q)))
        return out[0], out[1]
    return None


def to_complex(x):
    """Python complex of any numeric object (through the exact reading where possible)."""
    e = exact(x)
    if e is not None:
        return complex(_f(e[0]), _f(e[1]))
    return complex(x)


def kind_of(x):
    """Descriptive type name of a stored datum (for coverage counts)."""
    t = type(x)
    mod = t.__module__.split(".")[0]
    if isinstance(x, np.ndarray):
        return "ndarray%dd[%s]" % (x.ndim, x.dtype)
    return t.__name__ if mod == "builtins" else "%s.%s" % (mod, t.__name__)


def show(x):
    """A Python expression that rebuilds the value (plain repr for builtin int / float / complex)."""
    if type(x) in (int, float, complex, bool):
        return repr(x)
    if isinstance(x, Fraction):
        return "Fraction(%d, %d)" % (x.numerator, x.denominator)
    if isinstance(x, decimal.Decimal):
        return "Decimal(%r)" % str(x)
    if isinstance(x, np.ndarray):
        return "np.array(%r, dtype=np.%s)" % (x.tolist(), x.dtype)
    if isinstance(x, np.generic):
        v = x.item() if x.dtype.kind != "c" and x.dtype.kind != "f" else (
            complex(x) if x.dtype.kind == "c" else float(x))
        return "np.%s(%r)" % (type(x).__name__, v)
    if type(x).__module__.split(".")[0] == "sympy":
        return "sympify(%r)" % str(x)
    return repr(x)


# --------------------------------------------------------------------------- generator

class NumGen:
    """Typed exact numbers from a `random.Random`."""

    def __init__(self, rng):
        self.rng = rng

    def dyadic(self, max_num=6, max_exp=3, ints=False, nonneg=False, zero=0.08):
        r = self.rng.random()
        if r < zero:
            return Fraction(0)
        e = 0 if ints else self.rng.randint(0, max_exp)
        n = self.rng.randint(1, max_num)
        if not nonneg and self.rng.random() < 0.5:
            n = -n
        return Fraction(n, 2 ** e)

    def scalar_value(self, kind):
        """(re, im) fitting `kind`: zero / real / purely imaginary / general, negative parts included."""
        re = self.dyadic(ints=kind.ints, nonneg=kind.nonneg)
        if kind.name == "bool":
            re = Fraction(self.rng.randint(0, 1))
        im = Fraction(0)
        if kind.cplx:
            r = self.rng.random()
            if r < 0.65:
                im = self.dyadic(zero=0.0)
            elif r < 0.80:
                re, im = Fraction(0), self.dyadic(zero=0.0)
        return re, im

    def scalar(self, kinds=None, circuits=False):
        """(kind, value object, (re, im))."""
        pool = kinds or KINDS
        if circuits:
            pool = [k for k in pool if k.circuits]
        kind = self.rng.choice(pool)
        re, im = self.scalar_value(kind)
        return kind, kind.make(re, im), (re, im)

    def phase(self, n, kinds=None, circuits=False):
        """Phase n/8 (full turns) in a random real type that can hold it: (kind, value)."""
        re = Fraction(n, 8)
        pool = [k for k in (kinds or REAL_KINDS) if fits(k, re, Fraction(0)) and k.name != "np.uint8"
                and (k.circuits or not circuits)]
        kind = self.rng.choice(pool)
        return kind, kind.make(re, Fraction(0))
