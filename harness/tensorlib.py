"""Shared pieces of the tensor checks (C08, C09): exact canonical forms of numpy arrays and
discopy Tensors, token forms for the Lean driver (Driver/TensorCmd.lean), seeded generators of
tensor expressions and of tensor-functor cases, and independent numpy reference code."""
import numpy as np

from common import err_class, tokname
from core import Gen, Family, tok_expr, tok_box, tok_ty

EXACT_LIMIT = 2 ** 50       # every float we compare is an integer below this: exact in float64


# ------------------------------------------------------------------ canonical forms

class Inexact(Exception):
    pass


def gint(x):
    """(re, im) of an integer-valued complex number, exactly."""
    x = complex(x)
    re, im = round(x.real), round(x.imag)
    if re != x.real or im != x.imag or abs(re) >= EXACT_LIMIT or abs(im) >= EXACT_LIMIT:
        raise Inexact(repr(x))
    return int(re), int(im)


def tok_nats(xs):
    xs = [int(x) for x in xs]
    return " ".join([str(len(xs))] + [str(x) for x in xs])


def tok_data(flat):
    flat = list(flat)
    out = [str(len(flat))]
    for x in flat:
        re, im = gint(x)
        out.append("%d %d" % (re, im))
    return " ".join(out)


def tok_arr(a):
    a = np.asarray(a)
    return "%s %s" % (tok_nats(a.shape), tok_data(a.reshape(-1)))


def canon_arr(a):
    return "ok " + tok_arr(a)


def dims_of(d):
    """Entries of a discopy Dim as ints."""
    return [int(x) for x in d]


def canon_tensor(t):
    """Canonical answer line for a discopy Tensor: dom, cod, shape, exact entries."""
    return "ok %s %s %s" % (tok_nats(dims_of(t.dom)), tok_nats(dims_of(t.cod)), tok_arr(t.array))


def real_line(fn, canon):
    try:
        return canon(fn())
    except Inexact:
        raise
    except Exception as exc:
        cls = err_class(exc)
        # numpy's AxisError is both a ValueError and an IndexError; the model says `value`
        if isinstance(exc, ValueError):
            cls = "value"
        return "err " + cls


# ------------------------------------------------------------------ random exact arrays

def rand_entries(rng, n, density=0.6, big=False):
    """n Gaussian integers, small and sparse so that every product stays exact."""
    out = []
    for _ in range(n):
        if rng.random() > density:
            out.append(0)
            continue
        if big:
            out.append(complex(rng.randint(-3, 3), rng.randint(-3, 3)))
        else:
            out.append(rng.choice([1, -1, 1j, -1j, 1 + 1j, 1 - 1j, 2, -2, 2j, 1, 1, -1]))
    return out


def rand_array(rng, shape, density=0.6, big=False):
    n = int(np.prod(shape, dtype=int)) if len(shape) else 1
    return np.array(rand_entries(rng, n, density, big), dtype=complex).reshape(shape)


def absbound(a):
    a = np.asarray(a)
    return float(np.max(np.abs(a.real) + np.abs(a.imag))) if a.size else 0.0


# ------------------------------------------------------------------ numpy primitives stream

def prim_case(rng, maxdim=3, maxaxes=5, malformed=0.1):
    """One random call of a modelled numpy primitive: (line for the driver, thunk on numpy)."""
    op = rng.choice(["identity", "conj", "reshape", "transpose", "moveaxis", "moveaxis",
                     "tensordot", "tensordot", "tensordotaxes", "tensordotaxes"])
    dim = lambda: rng.randint(1, maxdim)  # noqa: E731
    shape = lambda lo=0: [dim() for _ in range(rng.randint(lo, maxaxes))]  # noqa: E731
    bad = rng.random() < malformed
    if op == "identity":
        n = rng.randint(0, 6)
        return op, "nd.identity %d" % n, (lambda: np.identity(n))
    if op == "conj":
        a = rand_array(rng, shape(), big=True)
        return op, "nd.conj " + tok_arr(a), (lambda: np.conjugate(a))
    if op == "reshape":
        s = shape()
        a = rand_array(rng, s, big=True)
        flat = [x for x in s if x != 1]
        rng.shuffle(flat)
        # regroup the factors into a new shape of the same size
        new, cur = [], 1
        for x in flat:
            cur *= x
            if rng.random() < 0.5:
                new.append(cur)
                cur = 1
        new.append(cur)
        if rng.random() < 0.3:
            new.insert(rng.randint(0, len(new)), 1)
        if bad:
            new[rng.randrange(len(new))] += 1
        return op, "nd.reshape %s %s" % (tok_arr(a), tok_nats(new)), (lambda: a.reshape(new))
    if op == "transpose":
        s = shape()
        a = rand_array(rng, s, big=True)
        p = list(range(len(s)))
        rng.shuffle(p)
        if bad and p:
            p[rng.randrange(len(p))] = rng.randint(0, len(p))
        return op, "nd.transpose %s %s" % (tok_arr(a), tok_nats(p)), (lambda: a.transpose(p))
    if op == "moveaxis":
        s = shape()
        a = rand_array(rng, s, big=True)
        k = rng.randint(0, len(s))
        src = rng.sample(range(len(s)), k)
        tgt = rng.sample(range(len(s)), k)
        if bad:
            how = rng.choice(["len", "range", "dup"])
            if how == "len":
                tgt = tgt + [0]
            elif how == "range" and src:
                src[rng.randrange(k)] = len(s) + rng.randint(0, 2)
            elif src:
                tgt[rng.randrange(k)] = tgt[0]
        return op, "nd.moveaxis %s %s %s" % (tok_arr(a), tok_nats(src), tok_nats(tgt)), \
            (lambda: np.moveaxis(a, src, tgt))
    if op == "tensordot":
        mid = [dim() for _ in range(rng.randint(0, 3))]
        sa = [dim() for _ in range(rng.randint(0, 3))] + mid
        sb = mid + [dim() for _ in range(rng.randint(0, 3))]
        k = len(mid)
        if bad:
            if rng.random() < 0.5:
                k = k + rng.randint(1, 2)
            elif sb:
                sb[0] += 1
        a, b = rand_array(rng, sa), rand_array(rng, sb)
        return op, "nd.tensordot %s %s %d" % (tok_arr(a), tok_arr(b), k), \
            (lambda: np.tensordot(a, b, k))
    if op == "tensordotaxes":
        sa, sb = shape(), shape()
        k = rng.randint(0, min(len(sa), len(sb), 3))
        src = rng.sample(range(len(sa)), k)
        tgt = rng.sample(range(len(sb)), k)
        for x, y in zip(src, tgt):
            sb[y] = sa[x]
        if bad:
            how = rng.choice(["len", "range", "dup", "shape"])
            if how == "len":
                tgt = tgt + [0]
            elif how == "range" and src:
                src[rng.randrange(k)] = len(sa) + rng.randint(0, 2)
            elif how == "dup" and k >= 2:
                src[1] = src[0]
            elif src:
                sb[tgt[0]] += 1
        a, b = rand_array(rng, sa), rand_array(rng, sb)
        return op, "nd.tensordotaxes %s %s %s %s" % (
            tok_arr(a), tok_arr(b), tok_nats(src), tok_nats(tgt)), \
            (lambda: np.tensordot(a, b, (src, tgt)))
    raise ValueError(op)


# ------------------------------------------------------------------ tensor expressions (C08)

def rand_dims(rng, maxdim, lo=0, hi=3, ones=0.15):
    """A list of ints as given to Dim(...): may contain 1s (dropped by Dim)."""
    out = []
    for _ in range(rng.randint(lo, hi)):
        out.append(1 if rng.random() < ones else rng.randint(2, max(2, maxdim)))
    return out


def eff(dims):
    return [d for d in dims if d != 1]


def size(dims):
    return int(np.prod(eff(dims), dtype=int)) if eff(dims) else 1


# the ways of calling one and the same operation (all must give the same Tensor); the token
# form sent to the model does not depend on the convention
THEN_CONVS = [">>", ">>", "<<", "method", "unbound"]
TENSOR_CONVS = ["@", "@", "method", "unbound"]
ADD_CONVS = ["+", "+", "sum", "0+"]
DAGGER_CONVS = ["method", "slice"]
TRANSPOSE_CONVS = ["()", "left=True", "left=False", "pos"]
NARY_CONVS = ["method", "unbound"]
MAP_FNS = {
    "double": lambda x: x + x,
    "square": lambda x: x * x,
    "conj": lambda x: x.conjugate(),
    "neg": lambda x: -x,
    "one": lambda x: 1,
    "zero": lambda x: 0,
}


class TooBig(Exception):
    """A literal beyond `TGen.maxlit` entries was requested (only when maxlit is set)."""


class TGen:
    """Typed random tensor expressions.  Every generator returns (expr, dom, cod, bound)
    with dom/cod lists of effective dims and `bound` an upper bound of |re|+|im| of entries."""

    def __init__(self, rng, maxdim=3, maxwires=3, malformed=0.08):
        self.rng, self.maxdim, self.maxwires, self.malformed = rng, maxdim, maxwires, malformed
        self.maxlit = None      # set by bounded_texpr: refuse literals with more entries

    def dims(self, lo=0, hi=None):
        return rand_dims(self.rng, self.maxdim, lo, self.maxwires if hi is None else hi)

    def lit(self, dom=None, cod=None):
        r = self.rng
        dom = self.dims() if dom is None else dom
        cod = self.dims() if cod is None else cod
        if self.maxlit is not None and size(dom) * size(cod) > self.maxlit:
            raise TooBig()
        data = rand_entries(r, size(dom) * size(cod))
        return ("T", list(dom), list(cod), data), eff(dom), eff(cod), 2.0

    def leaf(self, dom=None, cod=None):
        r = self.rng
        if dom is not None or cod is not None:
            return self.lit(dom, cod)
        k = r.random()
        if k < 0.55:
            return self.lit()
        if k < 0.65:
            d = self.dims()
            conv = "default" if not eff(d) and r.random() < 0.5 else "dim"
            return ("id", d, conv), eff(d), eff(d), 1.0
        if k < 0.78:
            l, rr = self.dims(), self.dims()
            return ("swap", l, rr), eff(l) + eff(rr), eff(rr) + eff(l), 1.0
        if k < 0.9:
            l = self.dims()
            rr = list(reversed(l))
            if r.random() < self.malformed:
                rr = self.dims()
            if r.random() < 0.5:
                return ("cups", l, rr), eff(l) + eff(rr), [], 1.0
            return ("caps", l, rr), [], eff(l) + eff(rr), 1.0
        if k < 0.95:
            d = [r.randint(1, self.maxdim)] if r.random() < 0.85 else self.dims(0, 2)
            i, o = r.randint(0, 2), r.randint(0, 2)
            return ("spider", i, o, d), eff(d) * i, eff(d) * o, 1.0
        l, rr = self.dims(), self.dims()
        return ("zeros", l, rr), eff(l), eff(rr), 0.0

    def expr(self, depth, dom=None, cod=None):
        r = self.rng
        if depth <= 0 or r.random() < 0.3:
            return self.leaf(dom, cod)
        if dom is not None or cod is not None:
            # typed request: compose through a random middle type
            mid = self.dims()
            a, ad, ac, ab = self.expr(depth - 1, dom, mid)
            b, bd, bc, bb = self.expr(depth - 1, mid, cod)
            return ("then", a, b, r.choice(THEN_CONVS)), ad, bc, ab * bb * size(mid)
        op = r.choice(["then", "then", "tensor", "tensor", "dagger", "transpose", "conj", "add"])
        if op == "then":
            a, ad, ac, ab = self.expr(depth - 1)
            if r.random() < self.malformed:
                b, bd, bc, bb = self.expr(depth - 1)
            else:
                b, bd, bc, bb = self.expr(depth - 1, dom=ac, cod=None)
            return ("then", a, b, r.choice(THEN_CONVS)), ad, bc, ab * bb * size(ac)
        if op == "tensor":
            a, ad, ac, ab = self.expr(depth - 1)
            b, bd, bc, bb = self.expr(depth - 1)
            return ("tensor", a, b, r.choice(TENSOR_CONVS)), ad + bd, ac + bc, ab * bb
        if op == "add":
            a, ad, ac, ab = self.expr(depth - 1)
            if r.random() < self.malformed:
                b, bd, bc, bb = self.expr(depth - 1)
            else:
                b, bd, bc, bb = self.lit(ad, ac)
            return ("add", a, b, r.choice(ADD_CONVS)), ad, ac, ab + bb
        a, ad, ac, ab = self.expr(depth - 1)
        if op == "dagger":
            return ("dagger", a, r.choice(DAGGER_CONVS)), ac, ad, ab
        if op == "transpose":
            return ("transpose", a, r.choice(TRANSPOSE_CONVS)), \
                list(reversed(ac)), list(reversed(ad)), ab
        return ("conj", a), ad, ac, ab


def tok_texpr(e):
    op = e[0]
    if op == "T":
        return "T %s %s %s" % (tok_nats(e[1]), tok_nats(e[2]), tok_data(e[3]))
    if op == "id":
        return "id " + tok_nats(e[1])
    if op in ("swap", "cups", "caps", "zeros"):
        return "%s %s %s" % (op, tok_nats(e[1]), tok_nats(e[2]))
    if op == "spider":
        return "spider %d %d %s" % (e[1], e[2], tok_nats(e[3]))
    if op in ("then", "tensor", "add"):
        return "%s %s %s" % (op, tok_texpr(e[1]), tok_texpr(e[2]))
    if op in ("thenN", "tensorN"):
        return " ".join([op, tok_texpr(e[1]), str(len(e[2]))] + [tok_texpr(x) for x in e[2]])
    if op == "sum":
        _, kind, typed, dom, cod, terms = e
        return " ".join(["sum", kind, "1" if typed else "0", tok_nats(dom), tok_nats(cod),
                         str(len(terms))] + [tok_texpr(x) for x in terms])
    if op == "box":
        return "box %s %s" % (tok_nats(e[1]), tok_nats(e[2]))
    if op in ("none", "int"):
        return op
    if op == "map":
        return "map %s %s" % (e[1], tok_texpr(e[2]))
    return "%s %s" % (op, tok_texpr(e[1]))


def canon_val(v):
    """Canonical answer line for what an operation returned: a Tensor, or a Sum of Tensors
    (with its class: `t` = discopy.tensor.Sum, `m` = discopy.monoidal.Sum)."""
    from discopy import cat, monoidal, tensor
    if isinstance(v, cat.Sum):
        kind = "t" if type(v) is tensor.Sum else "m" if type(v) is monoidal.Sum \
            else "?" + type(v).__name__
        terms = []
        for t in v.terms:
            if not isinstance(t, tensor.Tensor):
                return "ok sum-with-term-of-type-" + type(t).__name__
            terms.append("%s %s %s" % (tok_nats(dims_of(t.dom)), tok_nats(dims_of(t.cod)),
                                       tok_arr(t.array)))
        return " ".join(["ok sum", kind, tok_nats(dims_of(v.dom)), tok_nats(dims_of(v.cod)),
                         str(len(terms))] + terms)
    if isinstance(v, tensor.Tensor):
        return canon_tensor(v)
    return "ok value-of-type-" + type(v).__name__


# ---- input forms of the `array` argument of Tensor(dom, cod, array) (round 7) ------------------
# The constructor takes anything numpy.array() takes; the tensor it builds is the row-major (C order)
# reading of the LOGICAL array, whatever the container, the shape it comes in (flat, dom @ cod, the
# matrix shape (prod dom, prod cod)) and the MEMORY layout of an ndarray (C, Fortran, transposed or
# strided views).  The model's value is the list of logical entries, so every form asks the same line.
ARRAY_FORMS = ["list", "tuple", "nested-list", "nd-flat", "nd-full-C", "nd-full-F", "nd-matrix-C",
               "nd-matrix-F", "nd-matrix-transposed-view", "nd-strided-view", "nd-full-moved-view",
               "nd-readonly"]
FORM_COUNTS = {}


def array_in_form(dom, cod, data, form):
    """The same logical entries `data` (row-major over dom @ cod) handed over in another form."""
    data = list(data)
    full = tuple(dom) + tuple(cod) or (1,)
    mat = (size(dom), size(cod))
    if form == "list":
        return data
    if form == "tuple":
        return tuple(data)
    base = np.array(data).reshape(full) if data else np.zeros(full)
    if form == "nested-list":
        return base.tolist()
    if form == "nd-flat":
        return np.array(data)
    if form == "nd-full-C":
        return np.ascontiguousarray(base)
    if form == "nd-full-F":
        return np.asfortranarray(base)
    if form == "nd-matrix-C":
        return np.ascontiguousarray(base.reshape(mat))
    if form == "nd-matrix-F":
        return np.asfortranarray(base.reshape(mat))
    if form == "nd-matrix-transposed-view":         # M.T of the C-ordered transpose: F-contiguous view
        return np.ascontiguousarray(base.reshape(mat).T).T
    if form == "nd-strided-view":                   # every second entry of a twice as long buffer
        buf = np.zeros(2 * len(data) or 2, dtype=base.dtype)
        buf[::2][:len(data)] = data
        return buf[::2][:len(data)] if data else np.zeros(full)
    if form == "nd-full-moved-view":                # axes rotated in memory, logical array unchanged
        if base.ndim < 2:
            return base
        return np.ascontiguousarray(np.moveaxis(base, 0, -1)).transpose(
            (base.ndim - 1,) + tuple(range(base.ndim - 1)))
    if form == "nd-readonly":
        out = np.array(data).reshape(mat) if data else np.zeros(mat)
        out.setflags(write=False)
        return out
    raise ValueError(form)


def pick_form(dom, cod, data):
    """Deterministic in the leaf (replays exactly), spread over all forms."""
    import zlib
    return ARRAY_FORMS[zlib.crc32(repr((tuple(dom), tuple(cod), list(data))).encode())
                       % len(ARRAY_FORMS)]


def run_texpr(e):
    """Evaluate a tensor expression with discopy's Tensor."""
    from discopy.tensor import Tensor, Dim, Spider
    op = e[0]
    if op == "T":
        form = pick_form(e[1], e[2], e[3])
        FORM_COUNTS[form] = FORM_COUNTS.get(form, 0) + 1
        return Tensor(Dim(*e[1]), Dim(*e[2]), array_in_form(e[1], e[2], e[3], form))
    conv = e[-1] if isinstance(e[-1], str) else None
    if op == "id":
        if conv == "default":           # `Tensor.id()`: the default argument Dim(1)
            assert not eff(e[1])
            return Tensor.id()
        return Tensor.id(Dim(*e[1]))
    if op == "swap":
        return Tensor.swap(Dim(*e[1]), Dim(*e[2]))
    if op == "cups":
        return Tensor.cups(Dim(*e[1]), Dim(*e[2]))
    if op == "caps":
        return Tensor.caps(Dim(*e[1]), Dim(*e[2]))
    if op == "zeros":
        return Tensor.zeros(Dim(*e[1]), Dim(*e[2]))
    if op == "spider":
        s = Spider(e[1], e[2], Dim(*e[3]))
        return Tensor(s.dom, s.cod, s.array)
    if op == "then":
        a, b = run_texpr(e[1]), run_texpr(e[2])
        conv = e[3] if len(e) > 3 else ">>"
        if conv == ">>":
            return a >> b
        if conv == "<<":
            return b << a
        if conv == "method":
            return a.then(b)
        if conv == "unbound":
            return type(a).then(a, b)
        raise ValueError(conv)
    if op == "tensor":
        a, b = run_texpr(e[1]), run_texpr(e[2])
        conv = e[3] if len(e) > 3 else "@"
        if conv == "@":
            return a @ b
        if conv == "method":
            return a.tensor(b)
        if conv == "unbound":
            return type(a).tensor(a, b)
        raise ValueError(conv)
    if op == "add":
        a, b = run_texpr(e[1]), run_texpr(e[2])
        conv = e[3] if len(e) > 3 else "+"
        if conv == "+":
            return a + b
        if conv == "sum":               # the builtin: 0 + a + b through __radd__
            return sum([a, b])
        if conv == "0+":
            return 0 + a + b
        raise ValueError(conv)
    if op == "dagger":
        a = run_texpr(e[1])
        return a[::-1] if len(e) > 2 and e[2] == "slice" else a.dagger()
    if op == "transpose":
        a = run_texpr(e[1])
        conv = e[2] if len(e) > 2 else "()"
        if conv == "left=True":
            return a.transpose(left=True)
        if conv == "left=False":
            return a.transpose(left=False)
        if conv == "pos":
            return a.transpose(True)
        return a.transpose()
    if op == "conj":
        return run_texpr(e[1]).conjugate()
    if op in ("thenN", "tensorN"):
        recv = run_texpr(e[1])
        args = [run_texpr(x) for x in e[2]]
        name = "then" if op == "thenN" else "tensor"
        if e[3] == "unbound":
            return getattr(type(recv), name)(recv, *args)
        return getattr(recv, name)(*args)
    if op == "sum":
        from discopy import monoidal, tensor
        _, kind, typed, dom, cod, terms = e
        cls = tensor.Sum if kind == "t" else monoidal.Sum
        terms = [run_texpr(x) for x in terms]
        return cls(terms, Dim(*dom), Dim(*cod)) if typed else cls(terms)
    if op == "box":
        from discopy import tensor
        return tensor.Box("b", Dim(*e[1]), Dim(*e[2]), [1] * (size(e[1]) * size(e[2])))
    if op == "none":
        return None
    if op == "int":
        return 3
    if op == "map":
        return run_texpr(e[2]).map(MAP_FNS[e[1]])
    raise ValueError(op)


def cups_cost(l):
    """Multiply-adds of `Tensor.cups(l, l.r)`: rigid.cups composes, one wire pair at a time,
    the running tensor (dom = l @ r) with the layer id @ cup @ id (rigid.py:449-454)."""
    l = eff(l)
    n2 = size(l) ** 2
    cur, cost = n2, n2 * n2
    for d in reversed(l):
        nxt = cur // (d * d)
        cost += cur * nxt + n2 * cur * nxt
        cur = nxt
    return cost


def texpr_cost(e):
    """(dom, cod, work, peak): effective dims of the result when the expression is well typed,
    an estimate of the multiply-adds the Lean model spends on it and the largest array built.
    Used only to keep generated cases small; never part of a comparison."""
    op = e[0]
    if op == "T":
        d, c = eff(e[1]), eff(e[2])
        return d, c, size(d) * size(c), size(d) * size(c)
    if op == "id":
        d = eff(e[1])
        return d, d, size(d) ** 2, size(d) ** 2
    if op == "swap":
        l, r = eff(e[1]), eff(e[2])
        return l + r, r + l, size(l + r) ** 2, size(l + r) ** 2
    if op == "zeros":
        l, r = eff(e[1]), eff(e[2])
        return l, r, size(l) * size(r), size(l) * size(r)
    if op == "spider":
        d = eff(e[3])
        n = size(d) ** (e[1] + e[2])
        return d * e[1], d * e[2], n, n
    if op in ("cups", "caps"):
        l, r = eff(e[1]), eff(e[2])
        if list(reversed(l)) != r:
            return l + r, [], 1, 1
        work, peak = cups_cost(l), size(l) ** 4
        return (l + r, [], work, peak) if op == "cups" else ([], l + r, work, peak)
    if op in ("box", "none", "int"):
        return (eff(e[1]), eff(e[2]), 1, 1) if op == "box" else ([], [], 1, 1)
    if op == "sum":
        dom, cod, terms = eff(e[3]), eff(e[4]), e[5]
        costs = [texpr_cost(x) for x in terms]
        if not e[2] and costs:
            dom, cod = costs[0][0], costs[0][1]
        return dom, cod, sum(c[2] for c in costs) + 1, max([c[3] for c in costs] + [1])
    if op == "map":
        ad, ac, aw, ap = texpr_cost(e[2])
        return ad, ac, aw + size(ad) * size(ac), ap
    if op in ("thenN", "tensorN"):
        # the fold of the binary operation; a Sum operand multiplies the number of products
        d, c, w, p = texpr_cost(e[1])
        mult = max(1, nterms(e[1]))
        for x in e[2]:
            bd, bc, bw, bp = texpr_cost(x)
            mult *= max(1, nterms(x))
            if op == "thenN":
                step = size(d) * size(c) * size(bc) if c == bd else 1
                d, c, out = d, bc, size(d) * size(bc)
            else:
                out = size(d) * size(c) * size(bd) * size(bc)
                d, c, step = d + bd, c + bc, 2 * out
            w, p = w + bw + mult * step, max(p, bp, out)
        return d, c, w, p
    if op in ("then", "tensor", "add"):
        ad, ac, aw, ap = texpr_cost(e[1])
        bd, bc, bw, bp = texpr_cost(e[2])
        if op == "then":
            out = size(ad) * size(bc)
            w = size(ad) * size(ac) * size(bc) if ac == bd else 1
            return ad, bc, aw + bw + w, max(ap, bp, out)
        if op == "tensor":
            out = size(ad) * size(ac) * size(bd) * size(bc)
            return ad + bd, ac + bc, aw + bw + 2 * out, max(ap, bp, out)
        return ad, ac, aw + bw + size(ad) * size(ac), max(ap, bp)
    ad, ac, aw, ap = texpr_cost(e[1])
    n = size(ad) * size(ac)
    if op == "dagger":
        return ac, ad, aw + n, ap
    if op == "transpose":
        return list(reversed(ac)), list(reversed(ad)), aw + n, ap
    return ad, ac, aw + n, ap


def nterms(e):
    """Number of terms when the expression is a Sum literal (1 otherwise)."""
    return len(e[5]) if e[0] == "sum" else 1


def bounded_texpr(gen, depth, work=400000, peak=20000, tries=30):
    """A TGen expression within the model's cost budget: regenerate (same rng, so still
    a function of the seed) until the estimate fits.  Returns (gen-tuple, rejected)."""
    rejected = 0
    gen.maxlit = peak
    for _ in range(tries):
        try:
            out = gen.expr(depth)
        except TooBig:
            rejected += 1
            continue
        _, _, w, p = texpr_cost(out[0])
        if w <= work and p <= peak:
            return out, rejected
        rejected += 1
    return gen.lit([2], [2]), rejected


def texpr_ops(e, acc=None):
    acc = [] if acc is None else acc
    acc.append(e[0])
    for x in e[1:]:
        if isinstance(x, tuple):
            texpr_ops(x, acc)
        elif isinstance(x, list) and e[0] in ("thenN", "tensorN", "sum"):
            for y in x:
                if isinstance(y, tuple):
                    texpr_ops(y, acc)
    return acc


# ------------------------------------------------------------------ independent matrix reference

def mat(t):
    """The matrix from the flattened domain to the flattened codomain."""
    return np.asarray(t.array).reshape(size(dims_of(t.dom)), size(dims_of(t.cod)))


def perm_matrix_swap(left, right):
    """Permutation matrix exchanging the block `left` with the block `right`:
    rows indexed by (l, r), columns by (r, l)."""
    nl, nr = size(left), size(right)
    m = np.zeros((nl * nr, nr * nl))
    for i in range(nl):
        for j in range(nr):
            m[i * nr + j, j * nl + i] = 1
    return m


def exact_eq(a, b):
    a, b = np.asarray(a), np.asarray(b)
    return a.shape == b.shape and bool(np.all(a == b))


# ------------------------------------------------------------------ driver helper

def ask_many(drv, lines, sink=None):
    """Pipelined questions with a writer thread: tensor lines are long, and writing a whole
    chunk before reading (common.Driver.ask_many) can fill both pipes and deadlock.
    Answers are appended to `sink` (a fresh list by default), which is returned."""
    import threading

    def writer():
        try:
            for k in range(0, len(lines), 50):
                drv.proc.stdin.write("".join(l + "\n" for l in lines[k:k + 50]))
                drv.proc.stdin.flush()
        except (BrokenPipeError, ValueError, OSError):
            pass                    # the reader notices the dead process
    th = threading.Thread(target=writer)
    th.start()
    out = [] if sink is None else sink
    try:
        for _ in lines:
            o = drv.proc.stdout.readline()
            if not o:
                raise RuntimeError("dvdriver died")
            out.append(o.rstrip("\n"))
    except BaseException:
        try:                        # unblock the writer before joining it
            drv.proc.kill()
        except Exception:
            pass
        th.join()
        raise
    th.join()
    return out


class Asker:
    """Owns the driver process for a whole run.  If the process disappears (killed from
    outside, e.g. memory pressure on a shared machine) it is restarted once per question and the
    remaining questions are asked again; a question that kills a fresh driver as well is a
    crash of the model on that input and is raised."""

    def __init__(self):
        from common import Driver
        self.Driver = Driver
        self.drv = Driver()
        self.restarts = 0

    def ask_many(self, lines):
        out = []
        retried_at = -1
        while len(out) < len(lines):
            try:
                ask_many(self.drv, lines[len(out):], sink=out)
            except RuntimeError:
                if len(out) == retried_at:
                    raise RuntimeError("dvdriver dies on: " + lines[len(out)][:300])
                retried_at = len(out)
                self.restarts += 1
                try:
                    self.drv.proc.kill()
                except Exception:
                    pass
                self.drv = self.Driver()
        return out

    def close(self):
        self.drv.close()


# ------------------------------------------------------------------ functor cases (C09)

def undagger(b):
    if b["kind"] == "g" and b["dagger"]:
        return dict(b, dom=b["cod"], cod=b["dom"], dagger=False)
    return b


def box_key(b):
    return tok_box(b)


class FCase:
    """One functor-evaluation case: a diagram spec (core `mk` expression), an object map and
    an arrow map; knows how to build the real objects and the driver tokens."""

    def __init__(self, family, e, ob, ars, ob_style="dict", ar_style="dict"):
        self.family, self.e, self.ob, self.ars = family, e, ob, ars
        self.ob_style, self.ar_style = ob_style, ar_style

    # ---- model side
    def fdims(self, ty):
        out = []
        for name, _z in ty:
            v = self.ob[name]
            out += eff([v] if isinstance(v, int) else list(v))
        return out

    def tok_functor(self):
        obs = sorted(self.ob.items(), key=lambda kv: tokname(kv[0]))
        parts = [str(len(obs))]
        for name, v in obs:
            parts.append("%s %s" % (tokname(name), tok_nats([v] if isinstance(v, int) else v)))
        parts.append(str(len(self.ars)))
        for b, a in self.ars:
            if isinstance(a, tuple):
                parts.append("%s S %d %d %s" % (tok_box(b), a[1], a[2], tok_nats(a[3])))
            else:
                parts.append("%s A %s" % (tok_box(b), tok_data(np.asarray(a).reshape(-1))))
        return " ".join(parts)

    def line(self, cmd="feval", e=None):
        return "%s %s %s" % (cmd, self.tok_functor(), tok_expr(self.e if e is None else e))

    # ---- real side
    def real_box(self, b):
        if self.family == "rigid":
            return Family("rigid").box(b)
        from discopy import tensor, rigid
        dim = lambda t: tensor.Dim(*[n for n, _ in t])  # noqa: E731
        if b["kind"] == "g":
            spec = dict(self.ars_by_key())[box_key(undagger(b))]
            if isinstance(spec, tuple):
                return tensor.Spider(len(b["dom"]), len(b["cod"]), tensor.Dim(*spec[3]))
            ub = undagger(b)
            box = tensor.Box(ub["name"], dim(ub["dom"]), dim(ub["cod"]),
                             np.asarray(spec).reshape(-1))
            return box.dagger() if b["dagger"] else box
        if b["kind"] == "s":
            return tensor.Swap(dim(b["dom"][:1]), dim(b["dom"][1:]))
        if b["kind"] == "u":
            return rigid.Cup(dim(b["dom"][:1]), dim(b["dom"][1:]))
        return rigid.Cap(dim(b["cod"][:1]), dim(b["cod"][1:]))

    def ars_by_key(self):
        return [(box_key(b), a) for b, a in self.ars]

    def real_diagram(self, e=None):
        e = self.e if e is None else e
        if self.family == "rigid":
            return Family("rigid").run(e)
        from discopy import tensor
        _, dom, cod, boxes, offsets = e
        dim = lambda t: tensor.Dim(*[n for n, _ in t])  # noqa: E731
        return tensor.Diagram(dim(dom), dim(cod), [self.real_box(b) for b in boxes], list(offsets))

    def real_functor(self):
        from discopy import tensor, rigid
        fam = Family("rigid")
        obd = {}
        for name, v in self.ob.items():
            obd[rigid.Ty(name)] = v if isinstance(v, int) else tensor.Dim(*v)
        ard = {}
        for b, a in self.ars:
            ard[fam.box(b)] = list(np.asarray(a).reshape(-1))
        ob = obd if self.ob_style == "dict" else (lambda t: obd[t])
        ar = ard if self.ar_style == "dict" else (lambda f: ard[f])
        return tensor.Functor(ob, ar)

    def real_eval(self, e=None):
        d = self.real_diagram(e)
        if self.family == "rigid":
            return self.real_functor()(d)
        return d.eval()

    # ---- independent reference: the layer-by-layer composite with plain numpy
    def ref_box_matrix(self, b):
        fd, fc = self.fdims(b["dom"]), self.fdims(b["cod"])
        if b["kind"] == "s":
            return perm_matrix_swap(self.fdims(b["dom"][:1]), self.fdims(b["dom"][1:]))
        if b["kind"] in "ua":
            pair = b["dom"] if b["kind"] == "u" else b["cod"]
            l, r = self.fdims(pair[:1]), self.fdims(pair[1:])
            if list(reversed(l)) != r:
                raise ValueError("not adjoint")
            m = np.zeros((size(l), size(r)))
            for i, idx in enumerate(np.ndindex(*l) if l else [()]):
                j = int(np.ravel_multi_index(tuple(reversed(idx)), r)) if r else 0
                m[i, j] = 1
            m = m.reshape(size(l) * size(r), 1)
            return m if b["kind"] == "u" else m.T
        spec = dict(self.ars_by_key())[box_key(undagger(b))]
        if isinstance(spec, tuple):
            _, nin, nout, d = spec
            n = size(d)
            m = np.zeros((n ** len(b["dom"]), n ** len(b["cod"])))
            for i in range(n):
                r = sum(i * n ** k for k in range(len(b["dom"])))
                c = sum(i * n ** k for k in range(len(b["cod"])))
                m[r, c] = 1
            return m
        if b["dagger"]:
            return np.asarray(spec).reshape(size(fc), size(fd)).conj().T
        return np.asarray(spec).reshape(size(fd), size(fc))

    def ref_layers(self, e=None):
        _, dom, cod, boxes, offsets = self.e if e is None else e
        scan = list(dom)
        m = np.identity(size(self.fdims(dom)))
        for b, off in zip(boxes, offsets):
            left, right = scan[:off], scan[off + len(b["dom"]):]
            layer = np.kron(np.kron(np.identity(size(self.fdims(left))), self.ref_box_matrix(b)),
                            np.identity(size(self.fdims(right))))
            m = m @ layer
            scan = left + list(b["cod"]) + right
        return m


def choose_ob(rng, names, maxdim, multi=0.2, ones=0.15):
    ob = {}
    for n in names:
        k = rng.random()
        if k < ones:
            ob[n] = 1
        elif k < ones + multi:
            ob[n] = rand_dims(rng, maxdim, 0, 2, ones=0.1)
        else:
            ob[n] = rng.randint(2, max(2, maxdim))
    return ob


def case_cost(case):
    """(max running-array size, total multiply-adds) of the single-pass evaluation."""
    _, dom, cod, boxes, offsets = case.e
    scan, worst, total = list(dom), 0, 0
    nd = size(case.fdims(dom))
    for b, off in zip(boxes, offsets):
        cur = nd * size(case.fdims(scan))
        scan = scan[:off] + list(b["cod"]) + scan[off + len(b["dom"]):]
        new = nd * size(case.fdims(scan))
        worst = max(worst, cur, new)
        total += max(cur, new) * size(case.fdims(b["dom"]))
        if b["kind"] in "ua":          # nested cups are built by Tensor.then on identities
            pair = b["dom"] if b["kind"] == "u" else b["cod"]
            total += size(case.fdims(pair)) ** 2 * len(pair) * 4
    return worst, total


def rigid_case(rng, maxdim=3, maxw=4, maxdepth=6, limit=3000, work=150000, multi=0.2):
    """Random rigid diagram (generators, daggered generators, swaps, cups, caps) with a random
    interpretation; dimensions are lowered until the evaluation is small enough."""
    names = ["a", "b", "c", "d"]
    g = Gen(rng, rigid=True, maxw=maxw, names=names)
    dom = g.ty(0, min(3, maxw))
    e, _scans = g.grow(dom, rng.randint(0, maxdepth))
    ob = choose_ob(rng, names, maxdim, multi=multi)
    case = FCase("rigid", e, ob, [], rng.choice(["dict", "dict", "call"]),
                 rng.choice(["dict", "dict", "call"]))
    for _ in range(40):
        worst, total = case_cost(case)
        if worst <= limit and total <= work:
            break
        # lower the largest dimension
        n = max(ob, key=lambda k: size([ob[k]] if isinstance(ob[k], int) else ob[k]))
        v = ob[n]
        if isinstance(v, int):
            ob[n] = max(1, v - 1)
        else:
            ob[n] = v[:-1] if len(v) > 1 else max(1, v[0] - 1) if v else 1
    seen = {}
    for b in e[3]:
        if b["kind"] != "g":
            continue
        ub = undagger(b)
        k = box_key(ub)
        if k not in seen:
            shape = case.fdims(ub["dom"]) + case.fdims(ub["cod"])
            seen[k] = (ub, rand_array(rng, shape or [1]))
    case.ars = list(seen.values())
    if e[3] and rng.random() < 0.04:      # malformed: an array of the wrong size
        gens = [i for i, (b, a) in enumerate(case.ars)]
        if gens:
            i = rng.choice(gens)
            b, a = case.ars[i]
            case.ars[i] = (b, np.concatenate([a.reshape(-1), [1]]))
    return case


def tensor_case(rng, maxdim=3, maxw=4, maxdepth=6, limit=3000, work=150000):
    """Random tensor.Diagram: tensor boxes (also daggered), swaps, spiders, cups/caps on Dims."""
    dims = list(range(2, max(2, maxdim) + 1))
    ob = {d: d for d in dims}

    def grow():
        scan = [(rng.choice(dims), 0) for _ in range(rng.randint(0, min(3, maxw)))]
        dom = list(scan)
        boxes, offsets, ars, nd = [], [], {}, size([n for n, _ in scan])
        counter = [0]
        for _ in range(rng.randint(0, maxdepth)):
            n = len(scan)
            kinds = ["gen"] * 5 + ["spider"] * 2 + ["cap"]
            if n >= 2:
                kinds += ["swap"] * 2
            if any(scan[i] == scan[i + 1] for i in range(n - 1)):
                kinds += ["cup"] * 2
            if ars and rng.random() < 0.3:
                kinds = ["reuse"]
            kind = rng.choice(kinds)
            if kind == "reuse":
                ub, arr = rng.choice(list(ars.values()))
                if isinstance(arr, tuple):
                    continue
                b = ub if rng.random() < 0.5 else dict(ub, dom=ub["cod"], cod=ub["dom"],
                                                        dagger=True)
                offs = [i for i in range(n - len(b["dom"]) + 1)
                        if scan[i:i + len(b["dom"])] == b["dom"]]
                if not offs:
                    continue
                off = rng.choice(offs)
            elif kind == "gen":
                off = rng.randint(0, n)
                k = rng.randint(0, min(2, n - off))
                cod = [(rng.choice(dims), 0) for _ in range(rng.randint(0, 2))]
                if n - k + len(cod) > maxw:
                    cod = cod[:max(0, maxw - n + k)]
                counter[0] += 1
                ub = dict(kind="g", name="t%d" % counter[0], dom=scan[off:off + k], cod=cod,
                          dagger=False, data=None)
                shape = [x for x, _ in ub["dom"]] + [x for x, _ in ub["cod"]]
                ars[box_key(ub)] = (ub, rand_array(rng, shape or [1]))
                b = ub
                if rng.random() < 0.3:
                    # use the dagger of a fresh box of the reversed type instead
                    ub2 = dict(ub, dom=cod, cod=scan[off:off + k])
                    del ars[box_key(ub)]
                    shape = [x for x, _ in ub2["dom"]] + [x for x, _ in ub2["cod"]]
                    ars[box_key(ub2)] = (ub2, rand_array(rng, shape or [1]))
                    b = dict(ub2, dom=ub2["cod"], cod=ub2["dom"], dagger=True)
            elif kind == "spider":
                d = rng.choice(dims)
                offs = [i for i in range(n + 1)]
                off = rng.choice(offs)
                k = 0
                while off + k < n and scan[off + k] == (d, 0) and k < 2 and rng.random() < 0.8:
                    k += 1
                nout = rng.randint(0, 2)
                if n - k + nout > maxw:
                    nout = max(0, maxw - n + k)
                name = "Spider(%d,%d,Dim(%d))" % (k, nout, d)
                b = dict(kind="g", name=name, dom=[(d, 0)] * k, cod=[(d, 0)] * nout,
                         dagger=False, data=None)
                ars[box_key(b)] = (b, ("S", k, nout, [d]))
            elif kind == "swap":
                off = rng.randint(0, n - 2)
                b = dict(kind="s", name=None, dom=scan[off:off + 2],
                         cod=[scan[off + 1], scan[off]], dagger=False, data=None)
            elif kind == "cup":
                off = rng.choice([i for i in range(n - 1) if scan[i] == scan[i + 1]])
                b = dict(kind="u", name=None, dom=scan[off:off + 2], cod=[], dagger=False,
                         data=None)
            else:
                if n + 2 > maxw:
                    continue
                off = rng.randint(0, n)
                x = (rng.choice(dims), 0)
                b = dict(kind="a", name=None, dom=[], cod=[x, x], dagger=False, data=None)
            boxes.append(b)
            offsets.append(off)
            scan = scan[:off] + list(b["cod"]) + scan[off + len(b["dom"]):]
        return ("mk", dom, list(scan), boxes, offsets), list(ars.values())

    for _ in range(50):
        e, ars = grow()
        case = FCase("tensor", e, ob, ars)
        worst, total = case_cost(case)
        if worst <= limit and total <= work:
            return case
    return FCase("tensor", ("mk", [], [], [], []), ob, [])
