"""Semantic diagram classes for C01 (circuit, zx, tensor, cartesian, biclosed, cat): every box
constructor with every flag combination, well-typed diagram growth from them, and an evaluator of
operation sequences that keeps the Lean correspondence by *shape*.

The operations of the op language (public constructor, >>, @, dagger, slices, indexing,
interchange, normal_form, swap, permutation) are class-generic code: they only read the types
(dom/cod of the diagram and of its boxes) and the offsets.  A diagram of any class is therefore
sent to the model as an `mk` expression whose boxes are opaque generators named B0, B1, ... with
the dom/cod of the real boxes (objects serialised by (name, z)); the model evaluates the same
operation sequence and the two results are compared on everything the property talks about:
dom, cod, the dom/cod of every box, the offsets and the (left, box, right) layers.  Operations
whose construction is class-specific (cups/caps/transposes of circuits, ansaetze, Copy/Swap/
Discard diagrams of cartesian, fa/ba/curry of biclosed ...) are evaluated on the real code only
(oracle) and their *result* is handed to the model as a new `mk` leaf, so that the model goes on
deciding well-typedness/refusal of everything that is done with it afterwards.
"""
import itertools

from common import err_class, wf_failure, _ob_key, ty_key, tokname
from core import tok_box, tok_ty


def clean(x):
    return "".join(str(x).split()) or "-"


def tok_ob_name(x):
    """A whitespace-free token naming an object; injective on the objects of one family."""
    if type(x).__name__ in ("Over", "Under"):
        return clean(repr(x))
    return clean(repr(x.name))


def spec_ty(objs):
    return [(tok_ob_name(x), getattr(x, "z", 0) or 0) for x in objs]


def okeys(objs):
    return [_ob_key(x) for x in objs]


# ------------------------------------------------------------------ shapes

def shape_of(d):
    """Everything C01 talks about, as plain data (box identity dropped)."""
    def t(ty):     # names as the driver echoes them (core.tok_ty applies tokname)
        return [(tokname(n), z) for n, z in spec_ty(ty.objects)]
    ls = d.layers
    return (t(d.dom), t(d.cod), [(t(b.dom), t(b.cod)) for b in d.boxes],
            [int(o) for o in d.offsets], t(ls.dom), t(ls.cod),
            [(t(l), (t(b.dom), t(b.cod)), t(r)) for l, b, r in ls.boxes])


class _Toks:
    def __init__(self, toks):
        self.t, self.i = toks, 0

    def tok(self):
        self.i += 1
        return self.t[self.i - 1]

    def many(self, f):
        return [f() for _ in range(int(self.tok()))]

    def ty(self):
        return self.many(lambda: (self.tok(), int(self.tok())))

    def box(self):
        for _ in range(4):      # kind name dagger data
            self.tok()
        return (self.ty(), self.ty())

    def layer(self):
        return (self.ty(), self.box(), self.ty())


def shape_of_line(line):
    """Shape of a driver answer `ok <diagram>`; other answers are returned unchanged."""
    if not line.startswith("ok "):
        return line
    p = _Toks(line.split(" ")[1:])
    out = (p.ty(), p.ty(), p.many(p.box), p.many(lambda: int(p.tok())), p.ty(), p.ty(),
           p.many(p.layer))
    assert p.i == len(p.t), "trailing tokens in driver answer"
    return out


def show_shape(s):
    if isinstance(s, str):
        return s

    def t(ty):
        return "[" + ",".join(n if z == 0 else "%s^%d" % (n, z) for n, z in ty) + "]"
    dom, cod, boxes, offs, ldom, lcod, layers = s
    return "dom=%s cod=%s boxes=%s offsets=%s layers: %s -> %s %s" % (
        t(dom), t(cod), " ".join("%s->%s" % (t(a), t(b)) for a, b in boxes), offs, t(ldom),
        t(lcod), " ".join("(%s|%s->%s|%s)" % (t(l), t(a), t(b), t(r)) for l, (a, b), r in layers))


# ------------------------------------------------------------------ families

class SemFamily:
    name = "?"
    dagger_ok = True          # every box class implements dagger()
    rigid_ops = True          # transpose / cups / caps are defined for the class
    model_refusals = True     # refusals are compared with the model too
    maxw = 6

    def __init__(self):
        self._cat = None

    # -- to be provided by each family
    def ty(self, objs):
        raise NotImplementedError

    def id(self, objs):
        raise NotImplementedError

    def diagram(self, dom, cod, boxes, offsets):
        raise NotImplementedError

    def atoms(self):
        raise NotImplementedError

    def build_catalogue(self):
        raise NotImplementedError

    def state(self, rng, ob):
        raise NotImplementedError

    def typed_boxes(self, rng, scan):
        return []

    def nullary(self, rng):
        return []

    def unary_extra(self):
        return []

    # -- shared
    def catalogue(self):
        if self._cat is None:
            self._cat = [(lab, b, okeys(b.dom.objects), okeys(b.cod.objects))
                         for lab, b in self.build_catalogue()]
        return self._cat

    def random_atoms(self, rng, lo=0, hi=3):
        return [rng.choice(self.atoms()) for _ in range(rng.randint(lo, hi))]


class CircuitFam(SemFamily):
    name = "circuit"

    def __init__(self):
        super().__init__()
        from discopy.quantum import circuit as qc, gates as qg
        self.qc, self.qg = qc, qg
        self._atoms = [qc.Digit(2), qc.Qudit(2)] * 5 + [qc.Digit(3), qc.Qudit(3)]

    def atoms(self):
        return self._atoms

    def ty(self, objs):
        return self.qc.Ty(*objs)

    def id(self, objs):
        return self.qc.Id(self.ty(objs))

    def diagram(self, dom, cod, boxes, offsets):
        return self.qc.Circuit(dom, cod, boxes, offsets)

    def build_catalogue(self):
        qc, qg = self.qc, self.qg
        bit, qubit = qc.bit, qc.qubit
        d3, q3 = qc.Ty(qc.Digit(3)), qc.Ty(qc.Qudit(3))
        out = []
        for n in (0, 1, 2, 3):
            for a in (True, False):
                for b in (True, False):
                    out.append(("Measure(%d,destructive=%s,override_bits=%s)" % (n, a, b),
                                qc.Measure(n, destructive=a, override_bits=b)))
                    out.append(("Encode(%d,constructive=%s,reset_bits=%s)" % (n, a, b),
                                qc.Encode(n, constructive=a, reset_bits=b)))
        out += [("Measure()", qc.Measure()), ("Encode()", qc.Encode())]
        for lab, t in (("bit", bit), ("qubit", qubit), ("bit@qubit", bit @ qubit),
                       ("qubit@bit", qubit @ bit), ("qubit**2", qubit ** 2), ("bit**2", bit ** 2),
                       ("bit**3", bit ** 3), ("bit@qubit@bit", bit @ qubit @ bit),
                       ("Digit(3)", d3), ("Qudit(3)", q3), ("Digit(3)@bit", d3 @ bit),
                       ("int 0", 0), ("int 1", 1), ("int 2", 2), ("Ty()", qc.Ty())):
            out.append(("Discard(%s)" % lab, qc.Discard(t)))
            out.append(("MixedState(%s)" % lab, qc.MixedState(t)))
        out += [("Discard()", qc.Discard()), ("MixedState()", qc.MixedState())]
        for bits in ((), (0,), (1,), (1, 0), (0, 1, 1)):
            out.append(("Bits%r" % (bits,), qg.Bits(*bits)))
            out.append(("Bits%r.dagger" % (bits,), qg.Bits(*bits, _dagger=True)))
            out.append(("Ket%r" % (bits,), qg.Ket(*bits)))
            out.append(("Bra%r" % (bits,), qg.Bra(*bits)))
        for digits, dim in (((2,), 3), ((0, 1), 4), ((), 3), ((1, 2, 0), 3)):
            out.append(("Digits(%r,dim=%d)" % (digits, dim), qg.Digits(*digits, dim=dim)))
            out.append(("Digits(%r,dim=%d).dagger" % (digits, dim),
                        qg.Digits(*digits, dim=dim, _dagger=True)))
        for g in ("SWAP", "CZ", "CX", "H", "S", "T", "X", "Y", "Z"):
            out.append((g, getattr(qg, g)))
        out += [("S.dagger", qg.S.dagger()), ("T.dagger", qg.T.dagger()),
                ("Y.dagger", qg.Y.dagger())]
        for cls in ("Rx", "Ry", "Rz", "CU1", "CRz", "CRx"):
            for ph in (0.25, -0.5):
                out.append(("%s(%s)" % (cls, ph), getattr(qg, cls)(ph)))
        for lab, g in (("X", qg.X), ("Z", qg.Z), ("S", qg.S), ("S.dagger", qg.S.dagger()),
                       ("Rx(0.3)", qg.Rx(0.3)), ("H", qg.H)):
            out.append(("Controlled(%s)" % lab, qg.Controlled(g)))
        out += [("scalar(0.5)", qg.scalar(0.5)), ("scalar(1j)", qg.scalar(1j)),
                ("scalar(2,is_mixed)", qg.scalar(2, is_mixed=True)),
                ("scalar(1j,is_mixed)", qg.scalar(1j, is_mixed=True)),
                ("sqrt(2)", qg.sqrt(2)), ("MixedScalar(0.5)", qg.MixedScalar(0.5)),
                ("Scalar(1+1j,name)", qg.Scalar(1 + 1j, name="s"))]
        out += [("Copy()", qg.Copy()), ("Match()", qg.Match()),
                ("ClassicalGate NOT", qg.ClassicalGate('NOT', 1, 1, [0, 1, 1, 0])),
                ("ClassicalGate AND", qg.ClassicalGate('AND', 2, 1, [1, 1, 1, 0, 0, 0, 0, 1])),
                ("ClassicalGate 0->2", qg.ClassicalGate('c', 0, 2, [1, 0, 0, 1])),
                ("ClassicalGate 2->0", qg.ClassicalGate('e', 2, 0, [1, 0, 0, 1])),
                ("ClassicalGate 1->2 dagger",
                 qg.ClassicalGate('k', 1, 2, [1, 0, 0, 0, 0, 0, 0, 1], _dagger=True)),
                ("ClassicalGate types", qg.ClassicalGate('t', bit ** 2, bit, list(range(8)))),
                ("ClassicalGate 0->0", qg.ClassicalGate('z', 0, 0, [3]))]
        for lab, (l, r) in (("bit,qubit", (bit, qubit)), ("qubit,bit", (qubit, bit)),
                            ("bit,bit", (bit, bit)), ("qubit,qubit", (qubit, qubit)),
                            ("Digit(3),qubit", (d3, qubit)), ("bit,Qudit(3)", (bit, q3))):
            out.append(("Swap(%s)" % lab, qc.Swap(l, r)))
        out += [("Box mixed", qc.Box('f', bit @ qubit, qubit)),
                ("Box pure", qc.Box('g', qubit, qubit ** 2, is_mixed=False)),
                ("Box classical", qc.Box('h', bit ** 2, bit, is_mixed=False)),
                ("Box dagger", qc.Box('f', qubit, bit @ qubit, _dagger=True)),
                ("Box data", qc.Box('d', qc.Ty(), bit, data=[1, 2])),
                ("Box self-adjoint", qc.Box('sa', qubit, qubit, _dagger=None)),
                ("QuantumGate U", qg.QuantumGate(
                    'U', 2, [1, 0, 0, 0, 0, 1, 0, 0, 0, 0, 0, 1, 0, 0, 1, 0])),
                ("QuantumGate V dagger", qg.QuantumGate('V', 1, [1, 0, 0, 1j], _dagger=True)),
                ("QuantumGate 0 qubits", qg.QuantumGate('W', 0, [1j]))]
        return out

    def state(self, rng, ob):
        qc, qg = self.qc, self.qg
        if rng.random() < 0.3:
            return qc.MixedState(qc.Ty(ob))
        if ob.name == "bit":
            return qg.Bits(rng.randint(0, 1))
        if ob.name == "qubit":
            return qg.Ket(rng.randint(0, 1))
        if isinstance(ob, qc.Digit):
            return qg.Digits(rng.randrange(ob.dim), dim=ob.dim)
        return qc.MixedState(qc.Ty(ob))

    def typed_boxes(self, rng, scan):
        qc, qg = self.qc, self.qg
        n, out = len(scan), []
        if n >= 2:
            i = rng.randint(0, n - 2)
            out.append((qc.Swap(qc.Ty(scan[i]), qc.Ty(scan[i + 1])), i))
        i = rng.randint(0, n)
        k = rng.randint(0, min(3, n - i))
        out.append((qc.Discard(qc.Ty(*scan[i:i + k])), i))
        if n + 2 <= self.maxw:
            out.append((qc.MixedState(qc.Ty(*self.random_atoms(rng, 0, 2))), rng.randint(0, n)))
            out.append((qg.Digits(*[rng.randrange(3) for _ in range(rng.randint(0, 2))], dim=3),
                        rng.randint(0, n)))
        return out

    def nullary(self, rng):
        qc, qg = self.qc, self.qg
        l, r = self.ty(self.random_atoms(rng, 0, 3)), self.ty(self.random_atoms(rng, 0, 3))
        n = rng.randint(0, 4)
        perm = list(range(n))
        rng.shuffle(perm)
        pdom = self.ty(self.random_atoms(rng, n, n))
        simple = self.ty([rng.choice(self._atoms[:2]) for _ in range(rng.randint(0, 3))])
        nq = rng.randint(1, 3)
        a, b = rng.sample(range(4), 2)
        return [("Circuit.swap(%r, %r)" % (l, r), lambda: qc.Circuit.swap(l, r)),
                ("Circuit.permutation(%r, %r)" % (perm, pdom),
                 lambda: qc.Circuit.permutation(perm, pdom)),
                ("Circuit.permutation(%r)" % (perm,), lambda: qc.Circuit.permutation(perm)),
                ("Circuit.cups(%r, %r)" % (simple, simple[::-1]),
                 lambda: qc.Circuit.cups(simple, simple[::-1])),
                ("Circuit.caps(%r, %r)" % (simple, simple[::-1]),
                 lambda: qc.Circuit.caps(simple, simple[::-1])),
                ("IQPansatz(%d)" % nq, lambda: qc.IQPansatz(
                    nq, [0.1, 0.2, 0.3] if nq == 1 else [[0.1] * (nq - 1)] * 2)),
                ("real_amp_ansatz(%d)" % nq, lambda: qc.real_amp_ansatz(
                    [[0.1] * nq] * 2, entanglement=rng.choice(['full', 'linear', 'circular'])
                    if nq > 1 else 'linear')),
                ("random_tiling(%d)" % nq, lambda: qc.random_tiling(nq, 2, seed=rng.randint(0, 99))),
                ("rewire(CX,%d,%d)" % (a, b), lambda: qg.rewire(qg.CX, a, b)),
                ("rewire(CZ,%d,%d,dom=5)" % (a, b),
                 lambda: qg.rewire(qg.CZ, a, b, dom=qc.qubit ** 5)),
                ("Id(%d)" % n, lambda: qc.Id(n))]

    def unary_extra(self):
        return [("init_and_discard", lambda d: d.init_and_discard())]

    # -- the box classes as Model/CircuitBox.lean describes them (driver command `circuitbox`)
    @staticmethod
    def cb_ty(t):
        objs = list(t.objects)
        return " ".join([str(len(objs))] + ["%s %d" % (clean(repr(x.name)), getattr(x, "z", 0) or 0)
                                            for x in objs])

    def cbox_spec(self, b):
        """The constructor call that made `b`, read off its public attributes; None if the class
        is not one the model describes."""
        qc, qg, T = self.qc, self.qg, self.cb_ty

        def B(x):
            return "1" if x else "0"

        def df(x):
            return "N" if x.is_dagger is None else B(x.is_dagger)
        if isinstance(b, qc.Measure):
            return "measure %d %s %s" % (b.n_qubits, B(b.destructive), B(b.override_bits))
        if isinstance(b, qc.Encode):
            return "encode %d %s %s" % (b.n_bits, B(b.constructive), B(b.reset_bits))
        if isinstance(b, qc.Discard):
            return "discard " + T(b.dom)
        if isinstance(b, qc.MixedState):
            return "mixed " + T(b.cod)
        if isinstance(b, qg.Digits):
            return "digits %d %d %s" % (b.dim, len(b.digits), B(b.is_dagger))
        if isinstance(b, qg.Ket):
            return "ket %d" % len(b.bitstring)
        if isinstance(b, qg.Bra):
            return "bra %d" % len(b.bitstring)
        if isinstance(b, qg.Copy):
            return "copy"
        if isinstance(b, qg.Match):
            return "match"
        if isinstance(b, qc.Swap):
            return "swap %s %s" % (T(b.left)[2:], T(b.right)[2:])
        if isinstance(b, qg.Controlled):
            return "controlled %d" % (len(b.controlled.dom) + 1)
        if isinstance(b, qg.Rotation):
            return "rotation %d" % {"Rx": 1, "Ry": 1, "Rz": 1, "CU1": 2, "CRz": 2, "CRx": 2}[
                type(b).__name__]
        if isinstance(b, qg.Scalar):
            return "scalar"
        if isinstance(b, qg.QuantumGate):
            return "qgate %d %s" % (len(b.dom), df(b))
        if isinstance(b, qg.ClassicalGate):
            return "cgate %s %s %s" % (T(b.dom), T(b.cod), df(b))
        if type(b) is qc.Box:
            return "box %s %s %s" % (T(b.dom), T(b.cod), df(b))
        return None

    def cbox_real_line(self, b):
        """What the driver's `cbox` answers, computed from the real box and its real dagger."""
        bd = b.dagger()
        return "ok %s %s | %s | %s %s" % (self.cb_ty(b.dom), self.cb_ty(b.cod), self.cbox_spec(bd),
                                          self.cb_ty(bd.dom), self.cb_ty(bd.cod))


class ZXFam(SemFamily):
    name = "zx"

    def __init__(self):
        super().__init__()
        from discopy.quantum import zx
        from discopy.rigid import PRO
        self.zx, self.PRO = zx, PRO
        self._atoms = list(PRO(1).objects)

    def atoms(self):
        return self._atoms

    def ty(self, objs):
        return self.PRO(len(objs))

    def id(self, objs):
        return self.zx.Id(len(objs))

    def diagram(self, dom, cod, boxes, offsets):
        return self.zx.Diagram(dom, cod, boxes, offsets)

    def build_catalogue(self):
        zx, PRO = self.zx, self.PRO
        out = []
        for cls in ("Z", "X", "Y"):
            for n, m in ((0, 0), (0, 1), (1, 0), (1, 1), (1, 2), (2, 1), (2, 2), (0, 3), (3, 1)):
                for ph in (0, 0.25):
                    out.append(("%s(%d,%d,%s)" % (cls, n, m, ph), getattr(zx, cls)(n, m, ph)))
        out += [("H", zx.H), ("Had()", zx.Had()), ("SWAP", zx.SWAP),
                ("Swap(PRO(1),PRO(1))", zx.Swap(PRO(1), PRO(1))),
                ("Scalar(0.5)", zx.Scalar(0.5)), ("scalar(1j)", zx.scalar(1j)),
                ("Box 2->1", zx.Box('b', PRO(2), PRO(1))),
                ("Box 0->2 data", zx.Box('c', PRO(0), PRO(2), data=3)),
                ("Box 1->0 dagger", zx.Box('e', PRO(1), PRO(0), _dagger=True))]
        return out

    def state(self, rng, ob):
        return rng.choice([self.zx.Z, self.zx.X])(0, 1, rng.choice([0, 0.5]))

    def nullary(self, rng):
        zx, PRO = self.zx, self.PRO
        l, r, n = rng.randint(0, 3), rng.randint(0, 3), rng.randint(0, 4)
        perm = list(range(n))
        rng.shuffle(perm)
        return [("zx.Diagram.swap(%d, %d)" % (l, r), lambda: zx.Diagram.swap(l, r)),
                ("zx.Diagram.swap(PRO(%d), PRO(%d))" % (l, r),
                 lambda: zx.Diagram.swap(PRO(l), PRO(r))),
                ("zx.Diagram.permutation(%r)" % (perm,), lambda: zx.Diagram.permutation(perm)),
                ("zx.Diagram.cups(PRO(%d), PRO(%d))" % (n, n),
                 lambda: zx.Diagram.cups(PRO(n), PRO(n))),
                ("zx.Diagram.caps(PRO(%d), PRO(%d))" % (n, n),
                 lambda: zx.Diagram.caps(PRO(n), PRO(n))),
                ("zx.Id(%d)" % n, lambda: zx.Id(n))]


class TensorFam(SemFamily):
    name = "tensor"

    def __init__(self):
        super().__init__()
        from discopy import tensor
        self.tn = tensor
        self._atoms = list(tensor.Dim(2, 3).objects)

    def atoms(self):
        return self._atoms

    def ty(self, objs):
        return self.tn.Dim(*[o.name for o in objs])

    def id(self, objs):
        return self.tn.Id(self.ty(objs))

    def diagram(self, dom, cod, boxes, offsets):
        return self.tn.Diagram(dom, cod, boxes, offsets)

    def build_catalogue(self):
        tn = self.tn
        Dim = tn.Dim
        out = []
        for lab, dom, cod in (("1->2", Dim(1), Dim(2)), ("2->1", Dim(2), Dim(1)),
                              ("2,3->3", Dim(2, 3), Dim(3)), ("3->2,2", Dim(3), Dim(2, 2)),
                              ("1->1", Dim(1), Dim(1)), ("2->2", Dim(2), Dim(2)),
                              ("3,2->2,3", Dim(3, 2), Dim(2, 3))):
            size = 1
            for x in (dom @ cod).objects:
                size *= x.name
            out.append(("tensor.Box %s" % lab, tn.Box('m' + lab, dom, cod, list(range(size)))))
        out.append(("tensor.Box dagger", tn.Box('v', Dim(2), Dim(3), list(range(6)), _dagger=True)))
        for n, m in ((0, 0), (0, 1), (1, 0), (1, 2), (2, 1), (2, 2), (0, 3)):
            for dim in (2, 3):
                out.append(("Spider(%d,%d,%d)" % (n, m, dim), tn.Spider(n, m, dim)))
        out += [("Spider(2,1,Dim(1))", tn.Spider(2, 1, Dim(1))),
                ("Swap(2,3)", tn.Swap(Dim(2), Dim(3))), ("Swap(2,2)", tn.Swap(Dim(2), Dim(2))),
                ("Bubble", tn.Bubble(tn.Box('w', Dim(2), Dim(2), [0, 1, 1, 0]))),
                ("bubble()", tn.Box('u', Dim(2), Dim(3), list(range(6))).bubble())]
        return out

    def state(self, rng, ob):
        return self.tn.Box('s%d' % ob.name, self.tn.Dim(1), self.tn.Dim(ob.name),
                           [rng.randint(0, 2) for _ in range(ob.name)])

    def typed_boxes(self, rng, scan):
        n, out = len(scan), []
        if n >= 2:
            i = rng.randint(0, n - 2)
            out.append((self.tn.Swap(self.ty(scan[i:i + 1]), self.ty(scan[i + 1:i + 2])), i))
        return out

    def nullary(self, rng):
        tn = self.tn
        l, r = self.ty(self.random_atoms(rng, 0, 3)), self.ty(self.random_atoms(rng, 0, 3))
        n, m, dim = rng.randint(0, 3), rng.randint(0, 3), rng.choice([1, 2, 3])
        return [("tensor.Diagram.swap(%r, %r)" % (l, r), lambda: tn.Diagram.swap(l, r)),
                ("tensor.Diagram.cups(%r, %r)" % (l, l.r), lambda: tn.Diagram.cups(l, l.r)),
                ("tensor.Diagram.caps(%r, %r)" % (l, l.l), lambda: tn.Diagram.caps(l, l.l)),
                ("tensor.Diagram.spiders(%d, %d, %d)" % (n, m, dim),
                 lambda: tn.Diagram.spiders(n, m, tn.Dim(dim))),
                ("tensor.Id(%r)" % (l,), lambda: tn.Id(l))]


class CartesianFam(SemFamily):
    name = "cartesian"
    dagger_ok = False         # cartesian.Box(name, dom, cod, function, data): no `_dagger`
    model_refusals = False    # cartesian.Diagram.id / upgrade push every type through PRO(...):
                              # after a transpose the types are rigid.Ty and indexing, `>>` error
                              # messages ... raise TypeError of their own; results are compared

    def __init__(self):
        super().__init__()
        from discopy import cartesian
        from discopy.rigid import PRO
        self.ca, self.PRO = cartesian, PRO
        self._atoms = list(PRO(1).objects)

    def atoms(self):
        return self._atoms

    def ty(self, objs):
        return self.PRO(len(objs))

    def id(self, objs):
        return self.ca.Id(len(objs))

    def diagram(self, dom, cod, boxes, offsets):
        return self.ca.Diagram(len(dom), len(cod), boxes, offsets)

    def build_catalogue(self):
        ca = self.ca
        out = [("SWAP", ca.SWAP), ("COPY", ca.COPY), ("DISCARD", ca.DISCARD), ("ADD", ca.ADD)]
        for n, m in ((0, 0), (0, 1), (1, 1), (1, 2), (2, 1), (2, 2), (3, 0)):
            out.append(("cartesian.Box %d->%d" % (n, m),
                        ca.Box('f%d%d' % (n, m), n, m, lambda *xs, m=m: tuple([0] * m))))
        out.append(("cartesian.Box data", ca.Box('k', 1, 1, lambda x: x, data={"k": 1})))
        return out

    def state(self, rng, ob):
        return self.ca.Box('c', 0, 1, lambda: 1)

    def nullary(self, rng):
        ca = self.ca
        l, r, n = rng.randint(0, 3), rng.randint(0, 3), rng.randint(0, 3)
        return [("cartesian.Swap(%d, %d)" % (l, r), lambda: ca.Swap(l, r)),
                ("cartesian.Copy(%d)" % n, lambda: ca.Copy(n)),
                ("cartesian.Discard(%d)" % n, lambda: ca.Discard(n)),
                ("cartesian.Id(%d)" % n, lambda: ca.Id(n)),
                ("cartesian.Diagram.id(%d)" % n, lambda: ca.Diagram.id(n))]


class BiclosedFam(SemFamily):
    name = "biclosed"
    dagger_ok = False         # FA/BA/FC/BC/FX/BX/Curry take no name/dom/cod: cat.Box.dagger refuses
    rigid_ops = False
    model_refusals = False    # Over/Under `==` is not symmetric with Ty `==`: refusals of `>>` are
                              # not the model's business; results that are handed back are

    def __init__(self):
        super().__init__()
        from discopy import biclosed
        self.bc = biclosed
        x, y, z = biclosed.Ty('x'), biclosed.Ty('y'), biclosed.Ty('z')
        self.x, self.y, self.z = x, y, z
        self._atoms = list((x @ y @ z).objects) + [x << y, y >> x]

    def atoms(self):
        return self._atoms

    def ty(self, objs):
        return self.bc.Ty(*objs)

    def id(self, objs):
        return self.bc.Id(self.ty(objs))

    def diagram(self, dom, cod, boxes, offsets):
        return self.bc.Diagram(dom, cod, boxes, offsets)

    def build_catalogue(self):
        bc, x, y, z = self.bc, self.x, self.y, self.z
        f = bc.Box('f', x @ y, z)
        g = bc.Box('g', x @ y @ z, y)
        out = [("FA(x<<y)", bc.FA(x << y)), ("FA((x<<y)<<z)", bc.FA((x << y) << z)),
               ("FA(x<<(y@z))", bc.FA(x << (y @ z))),
               ("BA(x>>y)", bc.BA(x >> y)), ("BA(z>>(x>>y))", bc.BA(z >> (x >> y))),
               ("FC", bc.FC(x << y, y << z)), ("BC", bc.BC(x >> y, y >> z)),
               ("FX", bc.FX(x << y, z >> y)), ("BX", bc.BX(x << y, x >> z)),
               ("Box", bc.Box('h', x @ y, z << x)), ("Box dagger", bc.Box('h', x, y, _dagger=True)),
               ("Box data", bc.Box('w', bc.Ty(), x >> y, data=1))]
        for n, left in itertools.product((1, 2), (False, True)):
            out.append(("Curry(f,%d,left=%s)" % (n, left), bc.Curry(f, n, left)))
            out.append(("Curry(g,%d,left=%s)" % (n, left), bc.Curry(g, n, left)))
        return out

    def state(self, rng, ob):
        return self.bc.Box('w:' + tok_ob_name(ob), self.bc.Ty(), self.bc.Ty(ob))

    def nullary(self, rng):
        bc = self.bc
        a, b, c = [rng.choice([self.x, self.y, self.z, self.x << self.y, self.x @ self.y])
                   for _ in range(3)]
        f = bc.Box('f', a @ b, c)
        n, left = rng.randint(1, 2), rng.random() < 0.5
        return [("biclosed.Diagram.fa(%r, %r)" % (a, b), lambda: bc.Diagram.fa(a, b)),
                ("biclosed.Diagram.ba(%r, %r)" % (a, b), lambda: bc.Diagram.ba(a, b)),
                ("biclosed.Diagram.fc(%r, %r, %r)" % (a, b, c), lambda: bc.Diagram.fc(a, b, c)),
                ("biclosed.Diagram.bc(%r, %r, %r)" % (a, b, c), lambda: bc.Diagram.bc(a, b, c)),
                ("biclosed.Diagram.fx(%r, %r, %r)" % (a, b, c), lambda: bc.Diagram.fx(a, b, c)),
                ("biclosed.Diagram.bx(%r, %r, %r)" % (a, b, c), lambda: bc.Diagram.bx(a, b, c)),
                ("biclosed.Diagram.curry(%r, %d, %s)" % (f, n, left),
                 lambda: bc.Diagram.curry(f, n, left)),
                ("biclosed.Id(%r)" % (a,), lambda: bc.Id(a))]


def all_families():
    return [CircuitFam(), ZXFam(), TensorFam(), CartesianFam(), BiclosedFam()]


# ------------------------------------------------------------------ growth

def _fits(scan_keys, dom_keys):
    k = len(dom_keys)
    return [i for i in range(len(scan_keys) - k + 1) if scan_keys[i:i + k] == dom_keys]


def grow(fam, rng, dom, depth, include=None):
    """A well-typed diagram of the family grown layer by layer from `dom` (list of objects).
    `include` = a catalogue entry that has to occur (its domain is prepared by state boxes where
    the wires are not there).  Returns (dom, cod, boxes, offsets) with real boxes/objects."""
    scan = list(dom)
    boxes, offsets = [], []
    cat = fam.catalogue()
    inc_at = rng.randint(0, depth) if include is not None else -1

    def place(box, off):
        nonlocal scan
        boxes.append(box)
        offsets.append(off)
        scan = scan[:off] + list(box.cod.objects) + scan[off + len(box.dom.objects):]

    def place_with_states(entry):
        _, box, dkeys, _ = entry
        offs = _fits(okeys(scan), dkeys)
        if offs and rng.random() < 0.7:
            return place(box, rng.choice(offs))
        off = rng.randint(0, len(scan))
        for i, ob in enumerate(box.dom.objects):
            place(fam.state(rng, ob), off + i)
        place(box, off)
    for step in range(depth + 1):
        if step == inc_at:
            place_with_states(include)
        if step == depth:
            break
        n, keys = len(scan), okeys(scan)
        wide = n >= fam.maxw
        roll = rng.random()
        if roll < 0.2:
            cands = fam.typed_boxes(rng, scan)
            if cands:
                box, off = rng.choice(cands)
                if not (wide and len(box.cod) > len(box.dom)):
                    place(box, off)
                    continue
        if roll < 0.35 and not wide:
            place_with_states(rng.choice(cat))
            continue
        fitting = [(e, offs) for e in cat for offs in [_fits(keys, e[2])]
                   if offs and (e[2] or rng.random() < 0.15)
                   and not (wide and len(e[3]) > len(e[2]))]
        if not fitting:
            if not wide:
                place(fam.state(rng, rng.choice(fam.atoms())), rng.randint(0, n))
            continue
        e, offs = rng.choice(fitting)
        place(e[1], rng.choice(offs))
    return list(dom), scan, boxes, offsets


# ------------------------------------------------------------------ evaluation of op sequences

class Val:
    """A value handed back by the library, with the model expression that denotes it."""
    __slots__ = ("d", "tok", "text", "nops")

    def __init__(self, d, tok, text, nops=0):
        self.d, self.tok, self.text, self.nops = d, tok, text, nops


class Refused(Exception):
    def __init__(self, cls, tok, text, exc):
        super().__init__(cls)
        self.cls, self.tok, self.text, self.exc = cls, tok, text, exc


class SemEval:
    """Applies operations to `Val`s on the real code, checks C01's predicate on every result
    (`on_result`), and builds the model request that denotes the same operation sequence."""

    def __init__(self, fam, on_result):
        self.fam, self.on_result = fam, on_result
        self.names = {}
        self.pairs = []        # (stream, text, model line, real shape or "err cls")

    # -- model side
    def box_name(self, b):
        key = (type(b).__name__, clean(b.name), tuple(spec_ty(b.dom.objects)),
               tuple(spec_ty(b.cod.objects)), clean(repr(b.data))[:80], bool(b.is_dagger))
        return self.names.setdefault(key, "B%d" % len(self.names))

    def spec_box(self, b):
        return dict(kind="g", name=self.box_name(b), dom=spec_ty(b.dom.objects),
                    cod=spec_ty(b.cod.objects), dagger=False, data=None)

    def mk_tok_fields(self, dom, cod, boxes, offsets):
        boxes = [self.spec_box(b) for b in boxes]
        return "mk %s %s %s %s" % (
            tok_ty(spec_ty(dom)), tok_ty(spec_ty(cod)),
            " ".join([str(len(boxes))] + [tok_box(b) for b in boxes]),
            " ".join([str(len(offsets))] + [str(int(o)) for o in offsets]))

    def mk_tok(self, d):
        """The real value as a leaf of the model: the public constructor applied to its fields."""
        return self.mk_tok_fields(d.dom.objects, d.cod.objects, d.boxes, d.offsets)

    # -- leaves
    def leaf(self, text, thunk, stream="leaf", tok=None):
        """A diagram obtained from a constructor call.  `tok` = the model request for the same
        fields where the caller knows them (grown diagrams: the model's scanning constructor is
        asked for the same dom/cod/boxes/offsets); otherwise the value handed back is given to
        the model as `mk` of its own fields (accepted iff it is well-typed)."""
        try:
            d = thunk()
        except Exception as exc:
            cls = err_class(exc)
            if tok is not None and self.fam.model_refusals:
                self.pairs.append((stream, text, "eval " + tok, "err " + cls))
            raise Refused(cls, tok, text, exc)
        if not (hasattr(d, "layers") and hasattr(d, "offsets")):
            raise Refused("notadiagram", None, text, None)
        v = Val(d, tok, text)
        self.on_result(stream, v)
        if v.tok is None:
            v.tok = self.mk_tok(d)
        self.pairs.append((stream, text, "eval " + v.tok, shape_of(d)))
        return v

    # -- modelled operations
    @staticmethod
    def box_refuses_dagger(b):
        try:
            b.dagger()
            return False
        except Exception:
            return True

    def modelled(self, op, text, tok, thunk, nops, dagger_of=None):
        try:
            d = thunk()
        except Exception as exc:
            cls = err_class(exc)
            if dagger_of is not None and any(self.box_refuses_dagger(b) for b in dagger_of.boxes):
                # a box class without dagger (tensor.Bubble, cartesian.Box, biclosed.FA ...):
                # the request is refused, which the property allows and the model does not decide
                raise Refused("box_without_dagger", tok, text, exc)
            if self.fam.model_refusals:
                self.pairs.append((op, text, "eval " + tok, "err " + cls))
            raise Refused(cls, tok, text, exc)
        v = Val(d, tok, text, nops)
        self.on_result(op, v)
        self.pairs.append((op, text, "eval " + tok, shape_of(d)))
        return v

    def then(self, a, b):
        return self.modelled("then", "(%s >> %s)" % (a.text, b.text),
                             "then %s %s" % (a.tok, b.tok), lambda: a.d >> b.d,
                             a.nops + b.nops + 1)

    on_problem = None      # callable(signature, case text, description)

    def then_n(self, recv, args, form="method"):
        """`recv.then(*args)` — the n-ary calling convention, which every diagram class delegates
        to cat.Arrow.then (monoidal.py:384-385) — in method form, as the function of the receiver's
        class, or (one argument) as `<<`.  The model folds its binary `then` over the arguments,
        checking every junction, the first one included."""
        text = {"method": "%s.then(%s)", "class": "type(%s).then(%s)", "rop": "(%s).then via <<(%s)"}[
            form] % (recv.text, ", ".join(a.text for a in args))
        tok = "thenN %s %s" % (recv.tok, " ".join([str(len(args))] + [a.tok for a in args]))

        def thunk():
            ds = [a.d for a in args]
            if form == "class":
                out = type(recv.d).then(recv.d, *ds)
            elif form == "rop":
                out = ds[0] << recv.d
            else:
                out = recv.d.then(*ds)
            scan, prev = ty_key(recv.d.cod), recv.d
            for k, x in enumerate(ds):      # the property: an ill-typed request is refused
                if ty_key(x.dom) != scan and self.on_problem is not None and self.fam.model_refusals:
                    self.on_problem(
                        "illtyped_request_accepted:thenN:" + self.fam.name, text,
                        "accepted although argument %d starts on %r and what comes before it ends "
                        "on %r; handed back %r : %r -> %r" % (k, x.dom, prev.cod, out, out.dom,
                                                              out.cod))
                    break
                scan, prev = ty_key(x.cod), x
            return out
        return self.modelled("thenN", text, tok, thunk, recv.nops + sum(a.nops for a in args) + 1)

    def tensor_n(self, recv, args, form="method"):
        text = "%s.tensor(%s)" % (recv.text, ", ".join(a.text for a in args))
        tok = "tensorN %s %s" % (recv.tok, " ".join([str(len(args))] + [a.tok for a in args]))
        return self.modelled(
            "tensorN", text, tok,
            (lambda: type(recv.d).tensor(recv.d, *[a.d for a in args])) if form == "class"
            else (lambda: recv.d.tensor(*[a.d for a in args])),
            recv.nops + sum(a.nops for a in args) + 1)

    def tensor(self, a, b):
        return self.modelled("tensor", "(%s @ %s)" % (a.text, b.text),
                             "tensor %s %s" % (a.tok, b.tok), lambda: a.d @ b.d,
                             a.nops + b.nops + 1)

    def dagger(self, a, method=False):
        return self.modelled("dagger", a.text + (".dagger()" if method else "[::-1]"),
                             "dagger " + a.tok,
                             (lambda: a.d.dagger()) if method else (lambda: a.d[::-1]),
                             a.nops + 1, dagger_of=a.d)

    @staticmethod
    def _opt(i):
        return "N" if i is None else str(i)

    @staticmethod
    def _py(i):
        return "" if i is None else str(i)

    def slice(self, a, s, t):
        return self.modelled("slice", "%s[%s:%s]" % (a.text, self._py(s), self._py(t)),
                             "slice %s %s %s" % (a.tok, self._opt(s), self._opt(t)),
                             lambda: a.d[s:t], a.nops + 1)

    def slicerev(self, a, s, t):
        return self.modelled("slicerev", "%s[%s:%s:-1]" % (a.text, self._py(s), self._py(t)),
                             "slicerev %s %s %s" % (a.tok, self._opt(s), self._opt(t)),
                             lambda: a.d[s:t:-1], a.nops + 1, dagger_of=a.d)

    def getitem(self, a, i):
        return self.modelled("getitem", "%s[%d]" % (a.text, i), "getitem %s %d" % (a.tok, i),
                             lambda: a.d[i], a.nops + 1)

    def interchange(self, a, i, j, left):
        return self.modelled("interchange", "%s.interchange(%d, %d, left=%s)" % (a.text, i, j, left),
                             "interchange %s %d %d %d" % (a.tok, i, j, 1 if left else 0),
                             lambda: a.d.interchange(i, j, left=left), a.nops + 1)

    def normal_form(self, a, left):
        from discopy import monoidal
        return self.modelled(
            "normal_form", "monoidal.Diagram.normal_form(%s, normalizer=monoidal.Diagram.normalize, "
            "left=%s)" % (a.text, left), "normal_form %s %d" % (a.tok, 1 if left else 0),
            lambda: monoidal.Diagram.normal_form(
                a.d, normalizer=monoidal.Diagram.normalize, left=left), a.nops + 1)

    # -- class-specific operations: oracle on the result, which becomes a model leaf
    def oracle_op(self, op, text, thunk, nops=1):
        v = self.leaf(text, thunk, stream=op)
        v.nops = nops
        return v

    def transpose(self, a, left):
        return self.oracle_op("transpose", "%s.transpose(left=%s)" % (a.text, left),
                              lambda: a.d.transpose(left=left), a.nops + 1)


def arrow_wf_failure(a):
    """C01's predicate for a plain cat.Arrow: reading the boxes from dom reaches cod."""
    try:
        scan = _ob_key(a.dom)
        for k, b in enumerate(a.boxes):
            if _ob_key(b.dom) != scan:
                return "box %d does not find its domain" % k
            scan = _ob_key(b.cod)
        if scan != _ob_key(a.cod):
            return "scan does not reach the codomain"
        return None
    except Exception as exc:
        return "exception while checking: %r" % (exc,)


# ------------------------------------------------------------------ the streams of C01

def _leaf_text(fam, dom, cod, boxes, offsets, route):
    try:
        return "%s[%s](dom=%r, cod=%r, boxes=%r, offsets=%r)" % (
            fam.name, route, fam.ty(dom), fam.ty(cod), boxes, offsets)
    except Exception:      # a repr of the library that raises is not this property's business
        return "%s[%s](dom=%s, cod=%s, boxes=%s, offsets=%r)" % (
            fam.name, route, spec_ty(dom), spec_ty(cod), [str(b.name) for b in boxes], offsets)


def build_leaf(fam, ev, dom, cod, boxes, offsets, route, stream="leaf"):
    """The grown diagram through one of the two public routes: the scanning constructor, or
    identity >> (Id(left) @ box @ Id(right)) >> ... layer by layer."""
    def ctor():
        return fam.diagram(fam.ty(dom), fam.ty(cod), list(boxes), list(offsets))

    def layerwise():
        scan, d = list(dom), fam.id(dom)
        for box, off in zip(boxes, offsets):
            k = len(box.dom.objects)
            d = d >> fam.id(scan[:off]) @ box @ fam.id(scan[off + k:])
            scan = scan[:off] + list(box.cod.objects) + scan[off + k:]
        return d
    return ev.leaf(_leaf_text(fam, dom, cod, boxes, offsets, route),
                   ctor if route == "constructor" else layerwise, stream=stream,
                   tok=ev.mk_tok_fields(dom, cod, boxes, offsets))


class SemRun:
    """Shared state of the semantic-class streams: report, monitor, model pairs."""

    def __init__(self, rep, monitor_hits):
        self.rep, self.monitor_hits = rep, monitor_hits
        self.pairs = []
        self.history = []

    def evaluator(self, fam, seq):
        run = self

        def on_result(stream, v):
            rep = run.rep
            rep.count("sem_op:%s:%s" % (fam.name, stream))
            why = wf_failure(v.d)
            case = dict(family=fam.name, sequence=seq, expr=v.text[:3000])
            if why is not None:
                rep.fail("illtyped_result:%s:%s" % (stream, fam.name), case, why)
            hits = run.monitor_hits[on_result.seen:]
            on_result.seen = len(run.monitor_hits)
            for hwhy, what in hits:
                rep.fail("illtyped_intermediate:%s:%s" % (stream, fam.name), case,
                         hwhy + " in " + what)
            if len(run.history) < 400:
                run.history.append((case, v.d, shape_of(v.d)))
        on_result.seen = len(run.monitor_hits)
        ev = SemEval(fam, on_result)
        ev.resync = lambda: setattr(on_result, "seen", len(run.monitor_hits))
        ev.on_problem = lambda sig, text, why: run.rep.fail(
            sig, dict(family=fam.name, sequence=seq, expr=text[:3000]), why[:1500])
        return ev

    def recheck_history(self):
        """Values handed out earlier in the case are re-read after the later calls."""
        for case, d, then in self.history:
            try:
                now = shape_of(d)
            except Exception as exc:
                now = "unreadable: %r" % (exc,)
            if now != then:
                self.rep.fail("earlier_value_spoilt:" + case["family"], case,
                              "changed after it was handed out: was %s now %s"
                              % (show_shape(then)[:300], show_shape(now)[:300]))
        self.history = []

    def collect(self, fam, ev):
        self.pairs += [(fam.name,) + p for p in ev.pairs]
        ev.pairs = []

    def compare_with_model(self, drv):
        rep = self.rep
        lines = [p[3] for p in self.pairs]
        answers = drv.ask_many(lines) if lines else []
        for (famname, op, text, line, real), ans in zip(self.pairs, answers):
            try:
                model = shape_of_line(ans)
            except Exception as exc:
                model = "unparsable driver answer (%r): %s" % (exc, ans[:200])
            nboxes = len(real[2]) if not isinstance(real, str) else 0
            rep.case("sem " + famname + " " + line, nboxes >= 2 and op != "leaf")
            rep.count("sem_result:%s:%s" % (famname, "ok" if not isinstance(real, str) else real))
            if real != model:
                rep.disagree("sem:%s:%s" % (op, famname), dict(family=famname, expr=text[:3000]),
                             show_shape(real)[:600], show_shape(model)[:600])
            rep.sample(dict(family=famname, request=line[:300], answer=show_shape(real)[:200]),
                       cap=8)
        n = len(self.pairs)
        self.pairs = []
        return n


def _attempt(rep, fam, f):
    """Run one operation; a refusal is an answer, not a failure."""
    try:
        return f()
    except Refused as r:
        rep.count("sem_refused:%s:%s" % (fam.name, r.cls))
        return None


def box_checks(rep, fam, label, box, drv=None):
    """A box is a one-box diagram: it is well-typed, and so is what its dagger hands back, which
    goes the other way (dom and cod exchanged).  Circuit boxes: the constructor's dom/cod and the
    class's dagger are compared with Model/CircuitBox.lean (driver command `circuitbox`), for the box,
    its dagger and its double dagger."""
    case = dict(family=fam.name, box=label, repr=repr(box)[:300])
    if drv is not None and hasattr(fam, "cbox_spec"):
        b = box
        for depth in range(3):
            spec = fam.cbox_spec(b)
            if spec is None:
                rep.count("sem_cbox_unmodelled:" + type(b).__name__)
                break
            try:
                real = fam.cbox_real_line(b)
            except Exception as exc:
                real = "err " + err_class(exc)
            model = drv.ask("circuitbox " + spec)
            rep.case("circuitbox " + spec, True)
            rep.count("sem_cbox:" + spec.split(" ")[0])
            if real != model:
                rep.disagree("sem:cbox", dict(case, request="circuitbox " + spec, dagger_depth=depth),
                             real, model)
            try:
                b = b.dagger()
            except Exception:
                break
    why = wf_failure(box)
    if why:
        rep.fail("illtyped_result:box:" + fam.name, case, why)
    for spelling, call in (("dagger()", lambda b: b.dagger()), ("[::-1]", lambda b: b[::-1])):
        try:
            bd = call(box)
        except Exception as exc:
            rep.count("sem_box_dagger_refused:%s:%s" % (fam.name, err_class(exc)))
            continue
        rep.count("sem_box_dagger:" + fam.name)
        why = wf_failure(bd)
        if why:
            rep.fail("illtyped_result:box_dagger:" + fam.name, dict(case, via=spelling), why)
        if (ty_key(bd.dom), ty_key(bd.cod)) != (ty_key(box.cod), ty_key(box.dom)):
            rep.fail("box_dagger_types_not_exchanged:" + fam.name, dict(case, via=spelling),
                     "box %r : %r -> %r but its dagger %r : %r -> %r"
                     % (box, box.dom, box.cod, bd, bd.dom, bd.cod))
        try:
            bdd = call(bd)
        except Exception as exc:
            rep.count("sem_box_dagger_refused:%s:%s" % (fam.name, err_class(exc)))
            continue
        if (ty_key(bdd.dom), ty_key(bdd.cod)) != (ty_key(box.dom), ty_key(box.cod)) \
                or wf_failure(bdd):
            rep.fail("box_dagger_types_not_exchanged:" + fam.name, dict(case, via=spelling + " twice"),
                     "box %r : %r -> %r but its double dagger %r : %r -> %r"
                     % (box, box.dom, box.cod, bdd, bdd.dom, bdd.cod))


def battery(rep, fam, ev, v, rng, full):
    """The fixed operation sequences applied to a diagram that contains a given box."""
    n = len(v.d.boxes)
    A = lambda f: _attempt(rep, fam, f)

    def rnd_idx():
        return rng.choice([None, rng.randint(-n - 1, n + 1)])
    picks = []
    if fam.dagger_ok:
        d1 = A(lambda: ev.dagger(v, method=rng.random() < 0.5))
        if d1 is not None:
            d2 = A(lambda: ev.dagger(d1, method=rng.random() < 0.5))
            A(lambda: ev.then(v, d1))
            if d2 is not None:
                A(lambda: ev.then(d1, d2))

        def dag_then():
            x = ev.dagger(ev.then(v, ev.dagger(v)))
            return ev.tensor(x, v)
        picks += [dag_then,
                  lambda: ev.dagger(ev.tensor(v, ev.dagger(v))),
                  lambda: ev.slicerev(v, rnd_idx(), rnd_idx()),
                  lambda: ev.dagger(ev.slicerev(v, rnd_idx(), rnd_idx())),
                  lambda: ev.dagger(ev.getitem(v, rng.randint(-n, n - 1) if n else 0)),
                  lambda: ev.dagger(ev.slice(v, rnd_idx(), rnd_idx())),
                  lambda: ev.slice(ev.dagger(v), rnd_idx(), rnd_idx())]
    else:
        picks += [lambda: ev.oracle_op("dagger_probe", v.text + "[::-1]", lambda: v.d[::-1])]
    picks += [lambda: ev.slice(v, rnd_idx(), rnd_idx()),
              lambda: ev.slice(v, rng.randint(0, n), None),
              lambda: ev.slice(v, None, rng.randint(0, n)),
              lambda: ev.getitem(v, rng.randint(-n, n - 1) if n else 0),
              lambda: ev.tensor(v, v),
              lambda: ev.then(ev.tensor(v, ev.leaf("%s.id(%r)" % (fam.name, v.d.dom),
                                                   lambda: fam.id(list(v.d.dom.objects)))),
                              ev.tensor(ev.leaf("%s.id(%r)" % (fam.name, v.d.cod),
                                                lambda: fam.id(list(v.d.cod.objects))), v)),
              lambda: ev.normal_form(v, rng.random() < 0.5) if n <= 6 else None]

    def ident(objs):
        return ev.leaf("%s.id(%r)" % (fam.name, objs), lambda: fam.id(list(objs)))

    def nary():
        """Id(dom).then(v, ..) idiom and its ill-typed variants: the broken junction is the one
        after the identity, or a later one."""
        dom, cod = list(v.d.dom.objects), list(v.d.cod.objects)
        form = rng.choice(["method", "method", "class"])
        A(lambda: ev.then_n(ident(dom), [v, ident(cod)], form))
        A(lambda: ev.then_n(v, [], form))
        A(lambda: ev.then_n(ident(dom), [v], rng.choice(["method", "class", "rop"])))
        extra = fam.random_atoms(rng, 1, 1)
        wrong = rng.choice([dom + extra, extra + dom, dom[1:]] if dom else [extra])
        A(lambda: ev.then_n(ident(wrong), [v, ident(cod)], form))          # first junction
        A(lambda: ev.then_n(ident(dom), [v, ident(cod + extra)], form))    # a later one
        A(lambda: ev.then_n(ident(wrong), [v], form))
        A(lambda: ev.tensor_n(v, [ident(extra), v][:rng.randint(0, 2)], form if form != "rop"
                              else "method"))
    picks.append(nary)

    def interchange_sweep():
        cur = v
        for i in range(min(n - 1, 6)):
            nxt = A(lambda: ev.interchange(cur, i, i + 1, rng.random() < 0.5))
            cur = nxt or cur
        if cur is not v and fam.dagger_ok:
            ev.dagger(cur)
    picks.append(interchange_sweep)
    if fam.rigid_ops and len(v.d.dom) + len(v.d.cod) <= 6:
        def transposes(left):
            t = ev.transpose(v, left)
            if fam.dagger_ok:
                ev.dagger(t)
            ev.slice(t, rnd_idx(), rnd_idx())
        picks += [lambda: transposes(True), lambda: transposes(False)]
    for name, f in fam.unary_extra():
        def extra(name=name, f=f):
            x = ev.oracle_op(name, "%s.%s()" % (v.text, name), lambda: f(v.d), v.nops + 1)
            if fam.dagger_ok:
                ev.dagger(x)
        picks.append(extra)
    if not full:
        picks = rng.sample(picks, min(len(picks), 6))
    for f in picks:
        A(f)


def random_sequence(rep, fam, ev, rng, n_steps):
    """A history: values are taken from the pool of everything handed back so far."""
    A = lambda f: _attempt(rep, fam, f)
    pool = []
    for _ in range(2):
        dom, cod, boxes, offsets = grow(fam, rng, fam.random_atoms(rng, 0, 3),
                                        rng.choice([0, 1, 2, 2, 3, 3, 4, 5]))
        x = A(lambda: build_leaf(fam, ev, dom, cod, boxes, offsets,
                                 rng.choice(["constructor", "layerwise"])))
        if x is not None:
            pool.append(x)
    label, thunk = rng.choice(fam.nullary(rng))
    x = A(lambda: ev.oracle_op("nullary", label, thunk))
    if x is not None:
        pool.append(x)
    if rng.random() < 0.3:
        lab, box, _, _ = rng.choice(fam.catalogue())
        x = A(lambda: ev.leaf("box %s" % lab, lambda: box, stream="box"))
        if x is not None:
            pool.append(x)
    if not pool:
        return
    unary = ["slice", "slice", "getitem", "interchange", "interchange", "normal_form"]
    if fam.dagger_ok:
        unary += ["dagger", "dagger", "dagger", "slicerev", "then_dagger"]
    else:
        unary += ["dagger_probe"]
    if fam.rigid_ops:
        unary += ["transpose"]
    unary += ["extra"] if fam.unary_extra() else []
    binary = ["then_fresh", "then_fresh", "then_pool", "tensor_pool", "tensor_fresh", "tensor_self",
              "then_malformed", "then_n", "then_n", "tensor_n"]
    for _ in range(n_steps):
        v = rng.choice(pool[-3:]) if rng.random() < 0.7 else rng.choice(pool)
        n = len(v.d.boxes)
        big = n > 24 or len(v.d.cod) > 9 or len(v.d.dom) > 9 or v.nops > 10
        op = rng.choice(unary + ([] if big else binary))
        if big and op in ("then_dagger", "transpose", "extra"):
            op = "slice"
        rep.count("sem_step:%s:%s" % (fam.name, op))
        lo, hi = -n - 2, n + 2
        out = None
        if op == "dagger":
            out = A(lambda: ev.dagger(v, method=rng.random() < 0.3))
        elif op == "dagger_probe":
            out = A(lambda: ev.oracle_op("dagger_probe", v.text + "[::-1]", lambda: v.d[::-1]))
        elif op in ("slice", "slicerev"):
            s = rng.choice([None, rng.randint(lo, hi)])
            t = rng.choice([None, rng.randint(lo, hi)])
            out = A(lambda: (ev.slice if op == "slice" else ev.slicerev)(v, s, t))
        elif op == "getitem":
            i = rng.randint(-n - 1, n) if rng.random() < 0.15 or n == 0 else rng.randint(-n, n - 1)
            out = A(lambda: ev.getitem(v, i))
        elif op == "interchange":
            if n == 0 or rng.random() < 0.1:
                i, j = rng.randint(-2, n + 1), rng.randint(-2, n + 1)
            else:
                i = rng.randint(0, n - 1)
                j = min(n - 1, max(0, i + rng.choice([-2, -1, -1, 0, 1, 1, 2])))
            out = A(lambda: ev.interchange(v, i, j, rng.random() < 0.5))
        elif op == "normal_form":
            if n <= 7:
                out = A(lambda: ev.normal_form(v, rng.random() < 0.5))
        elif op == "transpose":
            if len(v.d.dom) + len(v.d.cod) <= 6:
                out = A(lambda: ev.transpose(v, rng.random() < 0.5))
        elif op == "extra":
            name, f = rng.choice(fam.unary_extra())
            out = A(lambda: ev.oracle_op(name, "%s.%s()" % (v.text, name), lambda: f(v.d),
                                         v.nops + 1))
        elif op == "then_dagger":
            out = A(lambda: ev.then(v, ev.dagger(v)))
        elif op == "then_fresh":
            dom, cod, boxes, offsets = grow(fam, rng, list(v.d.cod.objects), rng.randint(1, 3))
            out = A(lambda: ev.then(v, build_leaf(fam, ev, dom, cod, boxes, offsets,
                                                  rng.choice(["constructor", "layerwise"]))))
        elif op == "then_pool":
            ws = [w for w in pool if ty_key(w.d.dom) == ty_key(v.d.cod)]
            w = rng.choice(ws or pool)
            out = A(lambda: ev.then(v, w))
        elif op == "then_malformed":
            w = rng.choice(pool)
            x = A(lambda: ev.leaf("box", lambda: fam.state(rng, rng.choice(fam.atoms())), "box"))
            if x is not None:
                out = A(lambda: ev.then(ev.tensor(v, x), w) if rng.random() < 0.5
                        else ev.then(w, ev.tensor(x, v)))
        elif op == "tensor_pool":
            w = rng.choice(pool)
            out = A(lambda: ev.tensor(v, w) if rng.random() < 0.5 else ev.tensor(w, v))
        elif op == "tensor_fresh":
            dom, cod, boxes, offsets = grow(fam, rng, fam.random_atoms(rng, 0, 2),
                                            rng.randint(0, 2))
            w = A(lambda: build_leaf(fam, ev, dom, cod, boxes, offsets, "constructor"))
            if w is not None:
                out = A(lambda: ev.tensor(v, w) if rng.random() < 0.5 else ev.tensor(w, v))
        elif op == "tensor_self":
            out = A(lambda: ev.tensor(v, v))
        elif op == "then_n":
            # recv.then(a_1..a_k), k in 0..3, receiver an identity half of the time; one junction
            # (any, the first included) broken in a third of the requests
            k = rng.choice([0, 1, 2, 2, 3])
            bad_at = rng.randrange(k) if k and rng.random() < 0.35 else -1
            recv = v
            if rng.random() < 0.5:
                objs = list(v.d.dom.objects)
                recv = A(lambda: ev.leaf("%s.id(%r)" % (fam.name, objs), lambda: fam.id(objs)))
                chain_from = objs
            else:
                chain_from = list(v.d.cod.objects)
            if recv is not None:
                args, scan = [], chain_from
                if recv is not v and k:
                    args, scan, k = [v], list(v.d.cod.objects), k - 1
                    if bad_at == 0:
                        extra = fam.random_atoms(rng, 1, 1)
                        recv = A(lambda: ev.leaf("%s.id(%r)" % (fam.name, objs + extra),
                                                 lambda: fam.id(objs + extra)))
                    bad_at -= 1
                for j in range(k):
                    start = scan + fam.random_atoms(rng, 1, 1) if j == bad_at else scan
                    dom, cod, boxes, offsets = grow(fam, rng, start, rng.randint(0, 2))
                    w = A(lambda: build_leaf(fam, ev, dom, cod, boxes, offsets, "constructor"))
                    if w is None:
                        break
                    args.append(w)
                    scan = cod
                if recv is not None:
                    out = A(lambda: ev.then_n(recv, args, rng.choice(
                        ["method", "method", "class"] + (["rop"] if len(args) == 1 else []))))
        elif op == "tensor_n":
            ws = [rng.choice(pool) for _ in range(rng.choice([0, 1, 2, 3]))]
            if sum(len(w.d.boxes) for w in ws) <= 30:
                out = A(lambda: ev.tensor_n(v, ws, rng.choice(["method", "class"])))
        if out is not None:
            pool.append(out)


def cat_arrow_stream(rep, rng, n_cases):
    """Class `cat`: plain arrows of boxes between objects, a fixed oracle-only battery kept from
    before harness/catfam.py made `cat` a full family with its own model correspondence."""
    from discopy import cat
    obs = [cat.Ob(n) for n in "abc"]

    def check(what, a, case):
        rep.count("sem_op:cat:" + what)
        why = arrow_wf_failure(a)
        if why:
            rep.fail("illtyped_result:%s:cat" % what, case, why)
    for k in range(n_cases):
        scan = rng.choice(obs)
        dom, boxes = scan, []
        for i in range(rng.randint(0, 5)):
            cod = rng.choice(obs)
            boxes.append(cat.Box("f%d" % rng.randint(0, 3), scan, cod,
                                 data=rng.choice([None, None, 1, [1, 2]]),
                                 _dagger=rng.random() < 0.2))
            scan = cod
        case = dict(family="cat", dom=repr(dom), boxes=repr(boxes))
        try:
            a = cat.Arrow(dom, scan, boxes)
            check("mk", a, case)
            n = len(boxes)
            check("dagger", a[::-1], case)
            check("dagger", a.dagger().dagger(), case)
            s, t = rng.randint(-n - 1, n + 1), rng.randint(-n - 1, n + 1)
            check("slice", a[s:t], dict(case, s=s, t=t))
            check("slicerev", a[s:t:-1], dict(case, s=s, t=t))
            check("then", a >> a[::-1], case)
            check("then", cat.Id(dom) >> a >> cat.Id(scan), case)
            for b in boxes:
                check("box", b, case)
                bd = b.dagger()
                if (_ob_key(bd.dom), _ob_key(bd.cod)) != (_ob_key(b.cod), _ob_key(b.dom)):
                    rep.fail("box_dagger_types_not_exchanged:cat", case, repr(b))
            wrong = [o for o in obs if _ob_key(o) != _ob_key(scan)]
            try:
                bad = a >> cat.Box("g", rng.choice(wrong), scan)
                check("then_malformed", bad, case)
            except cat.AxiomError:
                rep.count("sem_refused:cat:axiom")
            try:
                bad = cat.Arrow(dom, rng.choice(wrong), boxes)
                check("mk_malformed", bad, case)
            except cat.AxiomError:
                rep.count("sem_refused:cat:axiom")
        except Exception as exc:
            rep.fail("unexpected_exception:cat", case, repr(exc)[:300])
        rep.case("sem cat " + repr(case), len(boxes) >= 2)


def run_streams(rep, drv, rng, tier, monitor_hits):
    """Semantic diagram classes: every box constructor x flag combination in a grown context with
    the operation battery (systematic), random histories of operations (random), plain cat
    arrows.  Returns counts for rep.extra."""
    import random
    fams = all_families()
    run = SemRun(rep, monitor_hits)
    quick = tier == "quick"
    n_entries = compared = 0
    # ---- systematic: every catalogue entry
    for fam in fams:
        for idx, entry in enumerate(fam.catalogue()):
            label, box = entry[0], entry[1]
            r = random.Random(rng.getrandbits(64))
            rep.count("sem_catalogue:" + fam.name)
            n_entries += 1
            try:
                box_checks(rep, fam, label, box, drv)
                for rnd in range(1 if quick else 3):
                    ev = run.evaluator(fam, "systematic %s #%d %s" % (fam.name, idx, label))
                    dom, cod, boxes, offsets = grow(
                        fam, r, fam.random_atoms(r, 0, 2), r.choice([1, 2, 2, 3]), include=entry)
                    v = _attempt(rep, fam, lambda: build_leaf(
                        fam, ev, dom, cod, boxes, offsets,
                        "constructor" if (idx + rnd) % 2 else "layerwise"))
                    if v is None:     # refused: the model is asked about the same request
                        run.collect(fam, ev)
                        continue
                    battery(rep, fam, ev, v, r, full=not quick or idx % 4 == 0)
                    run.collect(fam, ev)
                    run.recheck_history()
                if len(run.pairs) > 3000:
                    compared += run.compare_with_model(drv)
            except Exception as exc:      # harness-side surprise: report it with the input
                import traceback
                rep.fail("unexpected_exception:" + fam.name, dict(family=fam.name, box=label),
                         traceback.format_exc()[-600:])
    # ---- random histories
    n_random = 150 if quick else 4000
    weights = ["circuit"] * 4 + ["zx"] * 2 + ["tensor"] * 2 + ["cartesian", "biclosed"]
    by_name = {f.name: f for f in fams}
    for k in range(n_random):
        fam = by_name[weights[k % len(weights)]]
        r = random.Random(rng.getrandbits(64))
        ev = run.evaluator(fam, "random %s #%d" % (fam.name, k))
        try:
            random_sequence(rep, fam, ev, r, r.randint(2, 7))
        except Exception as exc:
            import traceback
            rep.fail("unexpected_exception:" + fam.name,
                     dict(family=fam.name, sequence="random #%d" % k),
                     traceback.format_exc()[-600:])
        run.collect(fam, ev)
        run.recheck_history()
        if len(run.pairs) > 3000:
            compared += run.compare_with_model(drv)
    compared += run.compare_with_model(drv)
    cat_arrow_stream(rep, random.Random(rng.getrandbits(64)), 60 if quick else 1500)
    return dict(sem_catalogue_entries=n_entries, sem_random_histories=n_random,
                sem_model_comparisons=compared)
