"""Drawing ATTRIBUTES (C20, back-end clause): diagrams built from every box class of discopy that sets a
drawing attribute (`draw_as_spider`, `shape`, `color`, `drawing_name`, `tikzstyle_name`, `draw_as_wires`,
`draw_as_brakets`, `draw_as_controlled`, `draw_as_discards`, `draw_as_measures`), mixed together, and the
keyword arguments of `Diagram.draw` / `drawing.equation` / `grammar.draw`.

The back-ends are outside the Lean model (matplotlib / text output): this module is the generator plus
the property's predicate on what the back-ends produced (oracle only).  The GRAPH of these diagrams is
still compared with the model (props/c20.py feeds `shadow(d)` to the driver).

What the oracle demands (nothing more than the property and the documented meaning of the attributes):
  * no exception from either back-end, whatever documented keyword arguments are given;
  * TikZ: one node per box drawn as a spider, at the box's layout position, carrying its label, and
    (without tikzstyles) its documented shape and colour / (with tikzstyles) its style name; one filled
    polygon and one label node at the layout position per box drawn as a box;
  * matplotlib: one scatter point per spider at its layout position with the documented colour, marker
    and size; one closed filled patch per box drawn as a box and its label text.
Documented defaults (monoidal.Box docstring): colour "red" for spiders, "white" otherwise; shape "circle".
"""
import os
import re

COLOR_NAMES = ["white", "red", "green", "blue", "yellow", "black"]
SPECIAL = ["draw_as_brakets", "draw_as_controlled", "draw_as_discards", "draw_as_measures"]
F49 = "F49:discard_of_no_wires:draw_discard_IndexError"


def known_signature(diagrams, exc):
    """Finding F49: `Discard(0)` (an effect on the empty type, e.g. `Discard(qubit ** 0)`) cannot be
    drawn: quantum.drawing.draw_discard indexes `box.dom[0]`.  Only that exception, raised from there."""
    import traceback
    frames = traceback.extract_tb(exc.__traceback__)
    if isinstance(exc, IndexError) and any(f.name == "draw_discard" for f in frames[-3:]) and any(
            getattr(b, "draw_as_discards", False) and not len(b.dom) for d in diagrams for b in d.boxes):
        return F49
    return None


# ------------------------------------------------------------------ families

class Fam:
    """A family of diagrams: atomic types, identity, and box proposals for a position of the scan."""

    def __init__(self, name, atoms, empty, ident, propose, addable=True, split=None):
        self.name, self.atoms, self.empty, self.ident = name, atoms, empty, ident
        self.propose, self.addable = propose, addable
        self.split = split or atoms_of

    def ty(self, atoms):
        t = self.empty
        for a in atoms:
            t = t @ a
        return t


def atoms_of(t):
    return [t[i:i + 1] for i in range(len(t))]


def _spider_params(rng):
    """Keyword parameters of a generic box drawn as a spider: every documented shape and colour."""
    p = dict(draw_as_spider=True)
    shape = rng.choice([None, "circle", "rectangle", "rectangle"])
    if shape:
        p["shape"] = shape
    if rng.random() < 0.75:
        p["color"] = rng.choice(COLOR_NAMES)
    if rng.random() < 0.5:
        p["drawing_name"] = rng.choice(["", "s", "$\\alpha$", 0.25, "long name"])
    if rng.random() < 0.35:
        p["tikzstyle_name"] = rng.choice(["Z", "X", "H", "st"])
    return p


def _plain_params(rng):
    p = {}
    if rng.random() < 0.4:
        p["color"] = rng.choice(COLOR_NAMES)
    if rng.random() < 0.3:
        p["drawing_name"] = rng.choice(["", "g'", "$f_1$", 7])
    if rng.random() < 0.15:
        p["_dagger"] = True
    return p


def _generic(rng, mod, fam_atoms, ty, avail, room, names="abcdefg"):
    """A generic `mod.Box` with drawing attributes: spider / plain / drawn as wires / scalar."""
    kind = rng.choice(["spider"] * 6 + ["plain"] * 3 + ["wires", "scalar"])
    m = rng.randint(0, min(3, len(avail)))
    c = rng.randint(0, max(0, min(3, room + m)))
    if kind == "scalar":
        m = c = 0
        kind = rng.choice(["spider", "plain"])
    dom, cod = ty(avail[:m]), ty([rng.choice(fam_atoms) for _ in range(c)])
    if kind == "spider":
        params = _spider_params(rng)
        if rng.random() < 0.1:
            params["_dagger"] = True
    elif kind == "plain":
        params = _plain_params(rng)
    else:
        params = dict(draw_as_wires=True)
    tag = "%s_%d_%d" % (kind, m, c)
    return tag, mod.Box(rng.choice(names), dom, cod, **params)


def fam_monoidal():
    from discopy import monoidal as M
    atoms = [M.Ty("x"), M.Ty("y")]
    fam = Fam("monoidal", atoms, M.Ty(), M.Id, None)

    def propose(rng, avail, room):
        if len(avail) >= 2 and rng.random() < 0.12:
            return "swap", M.Swap(avail[0], avail[1])
        return _generic(rng, M, atoms, fam.ty, avail, room)
    fam.propose = propose
    return fam


def fam_rigid():
    from discopy import rigid as R
    from discopy.grammar import Word
    n, s = R.Ty("n"), R.Ty("s")
    atoms = [n, s, n.r, n.l, s.l]
    fam = Fam("rigid", atoms, R.Ty(), R.Id, None)

    def propose(rng, avail, room):
        r = rng.random()
        if r < 0.15 and len(avail) >= 2:
            return "swap", R.Swap(avail[0], avail[1])
        if r < 0.35 and len(avail) >= 2:
            a, b = avail[0], avail[1]
            if a.r == b or a == b.r:
                return "cup", R.Cup(a, b)
        if r < 0.45 and room >= 2:
            a = rng.choice(atoms)
            return ("cap", R.Cap(a, a.l)) if rng.random() < 0.5 else ("cap", R.Cap(a.r, a))
        if r < 0.55 and room >= 1:
            cod = fam.ty([rng.choice(atoms) for _ in range(rng.randint(1, min(3, room)))])
            return "word", Word(rng.choice(["Alice", "loves", "Bob"]), cod)
        return _generic(rng, R, atoms, fam.ty, avail, room)
    fam.propose = propose
    return fam


def fam_zx():
    from discopy.quantum import zx
    from discopy.rigid import PRO
    fam = Fam("zx", [PRO(1)], PRO(0), lambda t: zx.Id(len(t)), None)
    phases = [0, 0, 0.25, 0.5, -0.75, 1.5]

    def propose(rng, avail, room):
        r = rng.random()
        if r < 0.2 and avail:
            return "zx:H", zx.H
        if r < 0.3 and len(avail) >= 2:
            return "zx:SWAP", zx.SWAP
        if r < 0.37:
            return "zx:scalar", zx.scalar(rng.choice([0.5, 2, 1j, -0.25]))
        if r < 0.42 and len(avail) >= 2:
            return "zx:cup", zx.Diagram.cups(PRO(1), PRO(1))
        if r < 0.47 and room >= 2:
            return "zx:cap", zx.Diagram.caps(PRO(1), PRO(1))
        cls = rng.choice([zx.Z, zx.Z, zx.X, zx.X, zx.Y])
        m = rng.randint(0, min(3, len(avail)))
        c = rng.randint(0, max(0, min(3, room + m)))
        return "zx:%s_%d_%d" % (cls.__name__, m, c), cls(m, c, rng.choice(phases))
    fam.propose = propose
    return fam


def fam_circuit():
    from discopy.quantum import circuit as C, gates as G
    qubit, bit = C.qubit, C.bit
    fam = Fam("circuit", [qubit, qubit, bit], C.Ty(), C.Id, None)

    def bits(rng, k):
        return [rng.randint(0, 1) for _ in range(k)]

    def lead(avail, t):
        k = 0
        while k < len(avail) and avail[k] == t:
            k += 1
        return k

    def propose(rng, avail, room):
        ph = rng.choice([0.25, 0.5, -0.3, 1])
        nq, nb = lead(avail, qubit), lead(avail, bit)
        kinds = ["ket", "bits", "scalar", "mixedstate", "discard0"] if nq + nb == 0 or rng.random() < 0.3 \
            else ["scalar"]
        if nq >= 1:
            kinds += ["gate1"] * 3 + ["bra", "measure", "measure", "discard", "quantumgate"]
        if nq >= 2:
            kinds += ["gate2"] * 3 + ["controlled"] * 3
        if nb >= 1:
            kinds += ["bits_dagger", "encode", "copy", "discard", "classical"]
        if nb >= 2:
            kinds += ["match", "match"]
        if len(avail) >= 2:
            kinds += ["swap"]
        kind = rng.choice(kinds)
        if kind == "gate1":
            box = rng.choice([G.X, G.Y, G.Z, G.H, G.S, G.T, G.Rx(ph), G.Ry(ph), G.Rz(ph),
                              G.S.dagger(), G.T.dagger(), G.Rx(ph).dagger()])
        elif kind == "gate2":
            box = rng.choice([G.CZ, G.CRz(ph), G.CRx(ph), G.SWAP, G.CRz(ph).dagger()])
        elif kind == "controlled":
            box = rng.choice([G.CX, G.CX, G.Controlled(G.Z), G.Controlled(G.Rz(ph)), G.Controlled(G.S),
                              G.Controlled(G.Rx(ph)), G.Controlled(G.S).dagger(), G.CX.dagger()])
        elif kind == "ket":
            box = G.Ket(*bits(rng, rng.randint(0, max(0, min(3, room)))))
        elif kind == "bra":
            box = G.Bra(*bits(rng, rng.randint(1, min(3, nq))))
        elif kind == "bits":
            box = G.Bits(*bits(rng, rng.randint(0, max(0, min(3, room)))))
        elif kind == "bits_dagger":
            box = G.Bits(*bits(rng, rng.randint(1, min(3, nb)))).dagger()
        elif kind == "measure":
            k = rng.randint(1, min(2, nq))
            box = C.Measure(k, destructive=rng.random() < 0.6, override_bits=rng.random() < 0.3)
        elif kind == "encode":
            k = rng.randint(1, min(2, nb))
            box = C.Encode(k, constructive=rng.random() < 0.6, reset_bits=rng.random() < 0.3)
        elif kind == "discard":
            t = avail[0]
            box = C.Discard(fam.ty([t] * rng.randint(1, min(2, lead(avail, t)))))
        elif kind == "discard0":
            if rng.random() < 0.85:     # mostly another state instead, the empty Discard is rare
                return propose(rng, avail, room)
            box = C.Discard(0)
        elif kind == "mixedstate":
            box = rng.choice([C.MixedState(1), C.MixedState(bit), C.MixedState(2), C.MixedState(bit ** 2)])
        elif kind == "copy":
            box = G.Copy()
        elif kind == "match":
            box = G.Match()
        elif kind == "scalar":
            box = rng.choice([G.scalar(0.5), G.scalar(1j), G.sqrt(2), G.MixedScalar(0.3)])
        elif kind == "swap":
            box = C.Swap(avail[0], avail[1])
        elif kind == "quantumgate":
            k = rng.randint(1, min(3, nq))
            box = G.QuantumGate("U%d" % k, k, array=[int(i == j) for i in range(2 ** k)
                                                     for j in range(2 ** k)])
        else:   # classical
            k = rng.randint(1, min(2, nb))
            c = rng.randint(0, 2)
            box = G.ClassicalGate("f", k, c, data=[0] * 2 ** (k + c))
        return "circuit:" + kind, box
    fam.propose = propose
    return fam


def fam_tensor():
    import numpy
    from discopy import tensor as T
    atoms = [T.Dim(2), T.Dim(3)]
    # (`Id(Dim(2)) @ Spider(...)` has a rigid.Ty as codomain, not a Dim: rebuild the atoms)
    fam = Fam("tensor", atoms, T.Dim(1), T.Id, None,
              split=lambda t: [T.Dim(int(o.name)) for o in t.objects])

    def propose(rng, avail, room):
        r = rng.random()
        if r < 0.5:
            dim = avail[0] if avail and rng.random() < 0.8 else rng.choice(atoms)
            m = 0
            while m < min(3, len(avail)) and avail[m] == dim and rng.random() < 0.7:
                m += 1
            c = rng.randint(0, max(0, min(3, room + m)))
            return "tensor:spider_%d_%d" % (m, c), T.Spider(m, c, dim)
        if r < 0.6 and len(avail) >= 2:
            return "tensor:swap", T.Diagram.swap(avail[0], avail[1])
        if r < 0.7 and len(avail) >= 2 and avail[0] == avail[1]:
            return "tensor:cup", T.Diagram.cups(avail[0], avail[1])
        if r < 0.8 and room >= 2:
            a = rng.choice(atoms)
            return "tensor:cap", T.Diagram.caps(a, a)
        m = rng.randint(0, min(2, len(avail)))
        c = rng.randint(0, max(0, min(2, room + m)))
        dom, cod = fam.ty(avail[:m]), fam.ty([rng.choice(atoms) for _ in range(c)])
        params = rng.choice([{}, {}, _spider_params(rng), _plain_params(rng)])
        params.pop("_dagger", None)
        return "tensor:box_%d_%d" % (m, c), T.Box("T", dom, cod, numpy.zeros(dom @ cod or (1, )), **params)
    fam.propose = propose
    return fam


def fam_cartesian():
    from discopy import cartesian as K
    from discopy.rigid import PRO
    fam = Fam("cartesian", [PRO(1)], PRO(0), lambda t: K.Id(len(t)), None, addable=False)

    def propose(rng, avail, room):
        r = rng.random()
        if r < 0.25 and avail and room >= 1:
            return "cartesian:copy", K.Copy(rng.randint(1, min(2, len(avail), room)))
        if r < 0.4 and len(avail) >= 2:
            return "cartesian:swap", K.Swap(1, rng.randint(1, min(2, len(avail) - 1)))
        if r < 0.55 and avail:
            return "cartesian:discard", K.Discard(rng.randint(1, min(2, len(avail))))
        m = rng.randint(0, min(3, len(avail)))
        c = rng.randint(0, max(0, min(3, room + m)))
        return "cartesian:box_%d_%d" % (m, c), K.Box(rng.choice("fgh"), m, c, function=abs)
    fam.propose = propose
    return fam


FAMILY_WEIGHTS = [("monoidal", 7), ("zx", 6), ("circuit", 7), ("rigid", 3), ("tensor", 3), ("cartesian", 1)]
_BUILDERS = dict(monoidal=fam_monoidal, rigid=fam_rigid, zx=fam_zx, circuit=fam_circuit,
                 tensor=fam_tensor, cartesian=fam_cartesian)
_FAMS = {}


def family(name):
    if name not in _FAMS:
        _FAMS[name] = _BUILDERS[name]()
    return _FAMS[name]


def pick_family(rng, weights=None):
    names = [n for n, w in (weights or FAMILY_WEIGHTS) for _ in range(w)]
    return family(rng.choice(names))


def grow(fam, rng, width0, depth, maxw):
    """A diagram of `fam` grown layer by layer with the library's own `>>` and `@`; returns
    (diagram, list of box-kind tags)."""
    scan = [rng.choice(fam.atoms) for _ in range(width0)]
    d = fam.ident(fam.ty(scan))
    tags = []
    for _ in range(depth):
        for _attempt in range(10):
            # mostly a position with wires to its right: boxes WITH inputs are the common case
            off = rng.randint(0, max(0, len(scan) - rng.choice([0, 1, 1, 2, 2, 3])))
            prop = fam.propose(rng, scan[off:], maxw - len(scan))
            if prop is None:
                continue
            tag, box = prop
            m = len(box.dom)
            if m > len(scan) - off or fam.ty(scan[off:off + m]) != box.dom \
                    or len(scan) - m + len(box.cod) > maxw + 1:
                continue
            break
        else:
            continue
        d = d >> fam.ident(fam.ty(scan[:off])) @ box @ fam.ident(fam.ty(scan[off + m:]))
        scan[off:off + m] = fam.split(box.cod)
        tags.append(tag)
    return d, tags


def gen(rng, weights=None):
    """(family name, diagram with >= 1 wire or box, tags)."""
    while True:
        fam = pick_family(rng, weights)
        width0 = rng.choice([0, 1, 2, 2, 3, 3, 4])
        depth = rng.choice([1, 2, 3, 3, 4, 5, 6, 8])
        d, tags = grow(fam, rng, width0, depth, maxw=max(width0, rng.choice([3, 4, 5, 6])))
        if len(d.dom) + len(d.boxes) > 0:
            return fam.name, d, tags


def pinned():
    """A few fixed witnesses next to the generated ones: (family, diagram, tags)."""
    from discopy import monoidal as M
    from discopy.quantum import zx, circuit as C, gates as G
    x = M.Ty("x")

    def sp(name, m, c, **kw):
        return M.Box(name, x ** m, x ** c, draw_as_spider=True, **kw)
    out = [
        ("zx", zx.Z(1, 1, 0.25) >> zx.H >> zx.X(1, 2) >> zx.H @ zx.Y(1, 0), ["pinned"]),
        ("zx", zx.Z(0, 0) @ zx.H @ zx.scalar(0.5) @ zx.X(0, 1, 0.5), ["pinned"]),
        ("monoidal", sp("c", 1, 2) >> sp("s", 2, 1, shape="rectangle", color="yellow"), ["pinned"]),
        ("monoidal", sp("u", 0, 1, shape="rectangle") @ sp("v", 0, 0, shape="circle", color="black")
         @ sp("w", 0, 2, color="green") >> M.Box("f", x, x, color="blue") @ sp("e", 2, 0, shape="rectangle"),
         ["pinned"]),
        ("circuit", G.Ket(0, 1) @ G.Bits(1) >> G.CX @ C.Id(C.bit) >> G.H @ G.Rz(0.3) @ G.Copy()
         >> C.Measure() @ G.Bra(0) @ G.Match() >> C.Discard(C.bit) @ C.MixedState(C.bit) @ C.Id(C.bit), ["pinned"]),
        # finding F49, reproduced on every run: the discard of no wires
        ("circuit", C.Discard(0) @ G.X, ["pinned"]),
    ]
    return out


# ------------------------------------------------------------------ keyword arguments of draw()

KW_POOL = [
    ("draw_type_labels", [True, False]),
    ("draw_box_labels", [False]),
    ("aspect", ["equal"]),
    ("margins", [(0.2, 0.1), (0, 0)]),
    ("fontsize", [8, 20]),
    ("fontsize_types", [6]),
    ("asymmetry", [0, 0.5]),
    ("textpad", [(0.3, 0.2), (0, 0)]),
    ("figsize", [(2, 2), (3, 1)]),
    ("nodesize", [0.5, 2]),
    ("use_tikzstyles", [True]),
    ("tikz_options", ["scale=0.5"]),
]


def kw_schedule(rng, n):
    """`n` keyword-argument dicts: the defaults, every non-default value on its own, then random
    combinations of 2-6 arguments (1 in 5: defaults again)."""
    out = [{}]
    for name, values in KW_POOL:
        for v in values:
            out.append({name: v})
    out.append(dict(use_tikzstyles=True, output_tikzstyle=False))
    rng.shuffle(out)
    while len(out) < n:
        if rng.random() < 0.2:
            out.append({})
            continue
        kw = {}
        for name, values in rng.sample(KW_POOL, rng.randint(2, 6)):
            kw[name] = rng.choice(values)
        out.append(kw)
    return out[:max(n, len(out))]


PREGROUP_KW_POOL = [
    ("width", [1.0, 3.5]), ("space", [0.0, 1.5]), ("textpad", [(0.3, 0.4)]), ("textpad_words", [(0.1, 0.3)]),
    ("draw_type_labels", [False]), ("aspect", ["auto"]), ("margins", [(0.2, 0.1)]), ("fontsize", [8, 20]),
    ("fontsize_types", [6]), ("figsize", [(3, 2)]), ("use_tikzstyles", [True]),
]


def pregroup_kw(rng, k):
    singles = [{}] + [{n: v} for n, vs in PREGROUP_KW_POOL for v in vs]
    if k < len(singles):
        return singles[k]
    return {n: rng.choice(vs) for n, vs in rng.sample(PREGROUP_KW_POOL, rng.randint(2, 5))}


def gen_sentence(rng):
    """A pregroup diagram: words tensored left to right, then cups on adjacent adjoint pairs."""
    from discopy import rigid as R
    from discopy.grammar import Word
    n, s = R.Ty("n"), R.Ty("s")
    types = [n, s, n.r @ s, n.r @ s @ n.l, s @ n.l, n @ n.l, n.r @ n, n.r @ n.r @ s]
    words = [Word("w%d" % i, rng.choice(types)) for i in range(rng.randint(1, 4))]
    d = R.Id(R.Ty())
    for w in words:
        d = d @ w
    scan, n_cups = atoms_of(d.cod), 0
    for _ in range(rng.randint(0, 4)):
        offs = [i for i in range(len(scan) - 1) if scan[i].r == scan[i + 1]]
        if not offs:
            break
        i = rng.choice(offs)
        d = d >> R.Id(d.cod[:i]) @ R.Cup(scan[i], scan[i + 1]) @ R.Id(d.cod[i + 2:])
        scan[i:i + 2] = []
        n_cups += 1
    return d, words, n_cups


# ------------------------------------------------------------------ what must be on the picture

def normalise(pos):
    """Exact layout positions {key: (x, y)} -> {key: (float, float)} translated so that the smallest
    x and y are 0 (what `draw` does before handing positions to a back-end)."""
    if not pos:
        return {}
    mx, my = min(p[0] for p in pos.values()), min(p[1] for p in pos.values())
    return {k: (float(p[0] - mx), float(p[1] - my)) for k, p in pos.items()}


def census(d, boxpos=None):
    """Per box of `d`, read from the ORIGINAL boxes with the documented defaults: how it is drawn and
    where (`boxpos[k]` = normalised layout position of box k in the real graph; None = unknown)."""
    spiders, plain, special, wires = [], [], [], 0
    for k, b in enumerate(d.boxes):
        spider = bool(getattr(b, "draw_as_spider", False))
        name = getattr(b, "drawing_name", b.name)
        pos = None if boxpos is None else boxpos[k]
        if spider:
            spiders.append(dict(pos=pos, color=getattr(b, "color", "red"),
                                shape=getattr(b, "shape", "circle") or "circle",
                                name=name, style=getattr(b, "tikzstyle_name", b.name), box=safe_repr(b, 60)))
        elif getattr(b, "draw_as_wires", False):
            wires += 1
        elif any(getattr(b, a, False) for a in SPECIAL):
            special.append(next(a for a in SPECIAL if getattr(b, a, False)))
        else:
            plain.append(dict(pos=pos, name=name, color=getattr(b, "color", "white"),
                              box=safe_repr(b, 60)))
    return dict(spiders=spiders, plain=plain, special=special, wires=wires)


def classes(cen):
    """The distinct ways boxes of one diagram are drawn (for the non-triviality rule)."""
    return sorted({"spider:%s:%s" % (s["shape"], s["color"]) for s in cen["spiders"]}
                  | {"plain:%s" % b["color"] for b in cen["plain"]} | set(cen["special"])
                  | ({"wires"} if cen["wires"] else set()))


def merge_census(cs):
    out = dict(spiders=[], plain=[], special=[], wires=0)
    for c in cs:
        out["spiders"] += c["spiders"]
        out["plain"] += c["plain"]
        out["special"] += c["special"]
        out["wires"] += c["wires"]
    return out


def label(name):
    """The text a back-end writes for a drawing name (`text or ""`, then str.format)."""
    return str(name) if name else ""


NODE_RE = re.compile(r"^\\node \[(.*?)\] \((\d+)\) at \(([^,]+), ([^)]+)\) \{(.*)\};$")
POLY_RE = re.compile(r"^\\draw \[(-, fill=\{\w+\}|style=\w*box)\] ")


def parse_tikz(text):
    nodes, polygons = [], 0
    for line in text.splitlines():
        m = NODE_RE.match(line)
        if m:
            nodes.append(dict(opts=m.group(1), pos=(float(m.group(3)), float(m.group(4))), text=m.group(5)))
        elif POLY_RE.match(line):
            polygons += 1
    return nodes, polygons


def check_tikz(text, cen, kw, exact_positions=True):
    """Failures [(signature, text)] of the TikZ clause on the file content."""
    out = []
    if "\\begin{tikzpicture}" not in text or "\\end{tikzpicture}" not in text:
        return [("attr_tikz_output_malformed", text[:200])]
    nodes, polygons = parse_tikz(text)
    styles = bool(kw.get("use_tikzstyles", False))
    labels = kw.get("draw_box_labels", True)
    sp_nodes = [n for n in nodes if "fill=" in n["opts"]
                or (n["opts"].startswith("style=") and not n["opts"].startswith("style=none"))]
    if len(sp_nodes) != len(cen["spiders"]):
        out.append(("attr_tikz_spider_nodes", "%d spider nodes in the TikZ output for %d spiders (%r)" % (
            len(sp_nodes), len(cen["spiders"]), [s["box"] for s in cen["spiders"]][:6])))
    elif exact_positions:
        for s in cen["spiders"]:
            here = [n for n in sp_nodes if n["pos"] == (float(s["pos"][0]), float(s["pos"][1]))]
            if len(here) != 1:
                out.append(("attr_tikz_spider_nodes", "spider %s: %d nodes at its position %r" % (
                    s["box"], len(here), s["pos"])))
                continue
            n = here[0]
            want = label(s["name"]) if labels else ""
            if n["text"] != want:
                out.append(("attr_tikz_spider_label", "spider %s: label %r, expected %r" % (
                    s["box"], n["text"], want)))
            opts = [o.strip() for o in n["opts"].split(", ")]
            if styles:
                if "style=%s" % s["style"] not in n["opts"]:
                    out.append(("attr_tikz_spider_style", "spider %s: options %r, expected style %r" % (
                        s["box"], n["opts"], s["style"])))
            elif s["shape"] not in opts or "fill=%s" % s["color"] not in opts:
                out.append(("attr_tikz_spider_style", "spider %s: options %r, expected %s filled %s" % (
                    s["box"], n["opts"], s["shape"], s["color"])))
    n_plain = len(cen["plain"])
    if polygons < n_plain or (not cen["special"] and polygons != n_plain):
        out.append(("attr_tikz_box_polygons", "%d filled polygons for %d boxes drawn as boxes" % (
            polygons, n_plain)))
    if labels and exact_positions:
        texts = [n for n in nodes if n["opts"].startswith("style=none") and ", right" not in n["opts"]]
        for b in cen["plain"]:
            p = (float(b["pos"][0]), float(b["pos"][1]))
            if not any(n["pos"] == p and n["text"] == label(b["name"]) for n in texts):
                out.append(("attr_tikz_box_label", "box %s: no label node %r at %r" % (
                    b["box"], label(b["name"]), p)))
    return out


def check_mpl(fig, cen, kw, exact_positions=True):
    """Failures of the matplotlib clause on the artists of the (still open) figure."""
    from matplotlib.colors import to_rgba
    from matplotlib.markers import MarkerStyle
    from matplotlib.patches import PathPatch
    from matplotlib.path import Path
    from discopy.drawing import COLORS, SHAPES
    out = []
    if not fig.axes:
        return [("attr_matplotlib_no_axes", "figure without axes")]
    ax = fig.axes[0]
    points = []
    for col in ax.collections:
        offs, fcs, sizes = col.get_offsets(), col.get_facecolors(), col.get_sizes()
        nv = len(col.get_paths()[0].vertices) if col.get_paths() else 0
        for i, o in enumerate(offs):
            fc = tuple(fcs[i if len(fcs) > 1 else 0]) if len(fcs) else None
            points.append(dict(pos=(float(o[0]), float(o[1])), fc=fc, nv=nv,
                               size=float(sizes[i if len(sizes) > 1 else 0])))
    size = 300 * kw.get("nodesize", 1)
    if not cen["special"] and len(points) != len(cen["spiders"]):
        out.append(("attr_matplotlib_spider_points", "%d scatter points for %d spiders" % (
            len(points), len(cen["spiders"]))))
    elif len(points) < len(cen["spiders"]):
        out.append(("attr_matplotlib_spider_points", "%d scatter points for %d spiders" % (
            len(points), len(cen["spiders"]))))
    elif exact_positions:
        for s in cen["spiders"]:
            here = [p for p in points if p["pos"] == (float(s["pos"][0]), float(s["pos"][1]))]
            if len(here) != 1:
                out.append(("attr_matplotlib_spider_points", "spider %s: %d points at its position %r" % (
                    s["box"], len(here), s["pos"])))
                continue
            p = here[0]
            want_nv = len(MarkerStyle(SHAPES[s["shape"]]).get_path().vertices)
            if p["fc"] is None or tuple(round(v, 6) for v in p["fc"]) != tuple(
                    round(v, 6) for v in to_rgba(COLORS[s["color"]])):
                out.append(("attr_matplotlib_spider_style", "spider %s: face colour %r, expected %s" % (
                    s["box"], p["fc"], s["color"])))
            elif p["nv"] != want_nv or p["size"] != size:
                out.append(("attr_matplotlib_spider_style", "spider %s: marker with %d vertices size %s, "
                            "expected %s (%d vertices) size %s" % (
                                s["box"], p["nv"], p["size"], s["shape"], want_nv, size)))
    closed = 0
    for p in ax.patches:
        codes = p.get_path().codes
        if isinstance(p, PathPatch) and codes is not None and len(codes) and codes[-1] == Path.CLOSEPOLY:
            closed += 1
    n_plain = len(cen["plain"])
    if closed < n_plain or (not cen["special"] and closed != n_plain):
        out.append(("attr_matplotlib_box_polygons", "%d closed patches for %d boxes drawn as boxes" % (
            closed, n_plain)))
    if kw.get("draw_box_labels", True) and exact_positions:
        texts = [(t.get_position(), t.get_text()) for t in ax.texts]
        for b in cen["plain"]:
            p = (float(b["pos"][0]), float(b["pos"][1]))
            if not any((float(q[0]), float(q[1])) == p and t == label(b["name"]) for q, t in texts):
                out.append(("attr_matplotlib_box_label", "box %s: no text %r at %r" % (
                    b["box"], label(b["name"]), p)))
        for s in cen["spiders"]:
            p = (float(s["pos"][0]), float(s["pos"][1]))
            if not any((float(q[0]), float(q[1])) == p and t == label(s["name"]) for q, t in texts):
                out.append(("attr_matplotlib_spider_label", "spider %s: no text %r at %r" % (
                    s["box"], label(s["name"]), p)))
    return out


# ------------------------------------------------------------------ MatBackend.draw_spiders vs the model

def spiders_line(cen_boxes):
    """Driver line `spiders ...` (Model/Spiders.lean) for the boxes of a diagram, read with the
    documented defaults; None when a shape or colour is outside the documented values."""
    toks = []
    for k, b in enumerate(cen_boxes):
        spider = bool(getattr(b, "draw_as_spider", False))
        shape = getattr(b, "shape", None) or "circle"
        color = getattr(b, "color", "red" if spider else "white")
        if shape not in ("circle", "rectangle") or color not in COLOR_NAMES:
            return None
        toks += [str(k), "1" if spider else "0", shape[0], color]
    return "spiders %d %s" % (len(cen_boxes), " ".join(toks))


def spiders_real(fig, boxpos):
    """What `MatBackend.draw_spiders` left on the axis, in the driver's answer format: one scatter
    collection per call of nx.draw_networkx_nodes (marker -> shape, offsets -> box depth, face
    colours -> colour names); calls sorted by shape, nodes by depth."""
    from matplotlib.colors import to_rgba
    from matplotlib.markers import MarkerStyle
    from discopy.drawing import COLORS, SHAPES
    nverts = {len(MarkerStyle(SHAPES[n]).get_path().vertices): n[0] for n in ("circle", "rectangle")}
    names = {tuple(round(v, 6) for v in to_rgba(h)): n for n, h in COLORS.items()}
    depth_at = {p: k for k, p in boxpos.items()}
    calls = []
    for col in fig.axes[0].collections:
        shape = nverts.get(len(col.get_paths()[0].vertices), "?")
        fcs = col.get_facecolors()
        nodes = []
        for i, o in enumerate(col.get_offsets()):
            fc = tuple(round(v, 6) for v in fcs[i if len(fcs) > 1 else 0])
            nodes.append((depth_at.get((float(o[0]), float(o[1])), -1), names.get(fc, "?")))
        calls.append((shape, sorted(nodes)))
    calls.sort()
    return "ok " + " ".join([str(len(calls))] + [
        " ".join([s, str(len(ns))] + ["%d %s" % n for n in ns]) for s, ns in calls])


# ------------------------------------------------------------------ histories of drawing

# A drawing is a function of the diagram (the property's "faithful ... of the diagram", read on state):
# the SAME objects drawn again after the user changed a drawing attribute must give the picture of an EQUAL
# diagram built from fresh objects carrying the user's attributes, and drawing must leave the user's boxes
# as they were (no attribute added, none changed).

DRAW_ATTRS = ("draw_as_spider", "draw_as_wires", "shape", "color", "drawing_name", "tikzstyle_name")
# plain monoidal boxes most often (the only class `downgrade` does not have to change), every other
# family next to them
HIST_WEIGHTS = [("monoidal", 9), ("rigid", 4), ("tensor", 2), ("zx", 3), ("circuit", 3), ("cartesian", 1)]
HIST_KW = [{}, {}, {}, {}, {"use_tikzstyles": True}, {"use_tikzstyles": True}, {"draw_box_labels": False},
           {"nodesize": 2}, {"draw_type_labels": False}, {"asymmetry": 0.5}, {"fontsize": 8}]
HIST_ACTIONS = ["tikz"] * 8 + ["mpl"] * 8 + ["nx"] * 2 + ["tensor_tikz", "tensor_mpl",
                                                          "equation_tikz", "equation_mpl"]


def state(diagrams):
    """What a user can observe of the boxes of `diagrams`: per box (also the box under a Controlled gate
    and the boxes inside a bubble) its identity, class and every `__dict__` entry, values by repr."""
    out = []

    def visit(path, b, depth):
        out.append((path, id(b), type(b).__name__,
                    tuple(sorted((str(k), safe_repr(v, 300)) for k, v in vars(b).items()))))
        if depth < 3:
            inner = vars(b).get("controlled")
            if inner is not None and hasattr(inner, "__dict__"):
                visit(path + ".controlled", inner, depth + 1)
            inside = vars(b).get("inside")
            if inside is not None and hasattr(inside, "boxes"):
                for j, c in enumerate(inside.boxes):
                    if c is not b:
                        visit("%s.inside.boxes[%d]" % (path, j), c, depth + 1)
    for n, d in enumerate(diagrams):
        for k, b in enumerate(getattr(d, "boxes", [])):
            visit("diagram %d box %d" % (n, k), b, 0)
    return out


def state_diff(before, after):
    """Differences between two `state`s, as text (empty = the drawing left the user's objects alone)."""
    out = []
    if len(before) != len(after):
        return ["%d boxes before, %d after" % (len(before), len(after))]
    for (path, ident, cls, attrs), (_, ident2, cls2, attrs2) in zip(before, after):
        if ident != ident2 or cls != cls2:
            out.append("%s: another object (%s -> %s)" % (path, cls, cls2))
            continue
        a, b = dict(attrs), dict(attrs2)
        for k in sorted(set(a) | set(b)):
            if k not in a:
                out.append("%s (%s): attribute %r ADDED = %s" % (path, cls, k, b[k][:80]))
            elif k not in b:
                out.append("%s (%s): attribute %r REMOVED (was %s)" % (path, cls, k, a[k][:80]))
            elif a[k] != b[k]:
                out.append("%s (%s): attribute %r CHANGED %s -> %s" % (path, cls, k, a[k][:80], b[k][:80]))
    return out


def mpl_artists(fig):
    """Every artist on the axes of a figure (scatter collections, patches, texts, lines), canonical and
    sorted: two equal diagrams drawn with the same arguments put the same artists on the axis."""
    out = []
    for ax in fig.axes:
        for col in ax.collections:
            nv = [len(p.vertices) for p in col.get_paths()]
            out.append("collection offsets=%r face=%r edge=%r sizes=%r paths=%r" % (
                col.get_offsets().tolist(), col.get_facecolors().tolist(), col.get_edgecolors().tolist(),
                col.get_sizes().tolist(), nv))
        for p in ax.patches:
            path = p.get_path()
            out.append("patch %s vertices=%r codes=%r face=%r edge=%r" % (
                type(p).__name__, path.vertices.tolist(),
                None if path.codes is None else path.codes.tolist(),
                tuple(p.get_facecolor()), tuple(p.get_edgecolor())))
        for t in ax.texts:
            out.append("text %r at %r size=%r ha=%s va=%s" % (
                t.get_text(), tuple(float(v) for v in t.get_position()), t.get_fontsize(),
                t.get_ha(), t.get_va()))
        for ln in ax.lines:
            out.append("line %r" % (ln.get_xydata().tolist(), ))
    return sorted(out)


def nx_canon(graph, pos):
    """diagram2nx's answer with what the back-ends read off it: node, position, and for a box node the
    drawing attributes the graph's box carries."""
    out = []
    for node in graph.nodes:
        extra = ""
        if node.kind == "box":
            extra = " " + repr([(a, getattr(node.box, a, "<absent>")) for a in DRAW_ATTRS])
        out.append("%r at %r%s" % (node, pos[node], extra))
    out.sort()
    return out + sorted("%r -> %r" % e for e in graph.edges)


def perform(action, d, kw, tmpdir, plt, raster=False):
    """One act of drawing on `d`; returns its output in comparable form (TikZ text / sorted artists /
    graph).  Library exceptions propagate."""
    import warnings
    from discopy import drawing
    if action == "nx":
        return nx_canon(*drawing.diagram2nx(d))
    backend = action.rsplit("_", 1)[-1]
    if action.startswith("tensor"):
        both = d @ d
        draw = lambda **q: both.draw(show=False, **q)                      # noqa: E731
    elif action.startswith("equation"):
        draw = lambda **q: drawing.equation(d, d, show=False, **q)         # noqa: E731
    else:
        draw = lambda **q: d.draw(show=False, **q)                         # noqa: E731
    try:
        if backend == "tikz":
            path = os.path.join(tmpdir, "h.tikz")
            draw(to_tikz=True, path=path, **kw)
            return open(path).read()
        with warnings.catch_warnings():
            warnings.simplefilter("ignore")
            draw(**kw)
            out = mpl_artists(plt.gcf())
            if raster:
                plt.close("all")
                path = os.path.join(tmpdir, "h.png")
                draw(path=path, **dict(kw, figsize=(2, 1.5)))
                out.append("png written: %s" % (os.path.getsize(path) > 0))
            return out
    finally:
        plt.close("all")
        for f in os.listdir(tmpdir):
            os.remove(os.path.join(tmpdir, f))


def apply_op(d, op):
    kind, i, attr, value = op
    if kind == "set":
        setattr(d.boxes[i], attr, value)
    else:
        delattr(d.boxes[i], attr)


def first_difference(got, want):
    a = got.splitlines() if isinstance(got, str) else list(got)
    b = want.splitlines() if isinstance(want, str) else list(want)
    only_a = [x for x in a if x not in b][:3]
    only_b = [x for x in b if x not in a][:3]
    return "only in the drawing of the user's diagram: %r; only in the drawing of the fresh equal diagram: %r" \
        % ([x[:200] for x in only_a], [x[:200] for x in only_b])


class History:
    """The user's diagram (`diagram`, the SAME objects through the whole history), the operations the
    user did on its boxes, and a way to build an equal diagram from fresh objects with those
    operations replayed.  `shadow` is a copy no library drawing function ever sees: the operations are
    chosen from ITS attributes, so the history does not depend on what drawing did to `diagram`."""

    def __init__(self, seed, build=None, name=None):
        import random
        self.seed, self.name = seed, name
        self.build = build or (lambda: gen(random.Random(seed), HIST_WEIGHTS))
        self.family, self.diagram, self.tags = self.build()
        self.shadow = self.build()[1]
        assert self.shadow == self.diagram
        # library singletons (zx.H, gates.X, ...) are shared by every diagram: never written to
        self.mutable = sorted({i for i, (a, b) in enumerate(zip(self.diagram.boxes, self.shadow.boxes))
                               if a is not b})
        self.ops, self.log = [], []

    def fresh(self):
        d = self.build()[1]
        for op in self.ops:
            apply_op(d, op)
        return d

    def gen_ops(self, rng, first):
        """0-1 operations before the first draw (the first picture is mostly that of the constructor's
        attributes), 1-3 between draws."""
        if not self.mutable:
            return []
        out = []
        for _ in range(rng.choice([0, 0, 1]) if first else rng.choice([1, 1, 2, 3])):
            i = rng.choice(self.mutable)
            b = self.shadow.boxes[i]
            r = rng.random()
            own = [a for a in DRAW_ATTRS if a in vars(b)]
            if r < 0.38:
                op = ("set", i, "draw_as_spider", not getattr(b, "draw_as_spider", False))
            elif r < 0.48:
                op = ("set", i, "shape", rng.choice(["circle", "rectangle"]))
            elif r < 0.62:
                op = ("set", i, "color", rng.choice(COLOR_NAMES))
            elif r < 0.70:
                op = ("set", i, "drawing_name", rng.choice(["", "renamed", "$\\beta$", 3]))
            elif r < 0.76:
                op = ("set", i, "tikzstyle_name", rng.choice(["Z", "X", "mystyle"]))
            elif r < 0.84:
                op = ("set", i, "draw_as_wires", not getattr(b, "draw_as_wires", False))
            elif own:
                op = ("del", i, rng.choice(own), None)
            else:
                op = ("set", i, "draw_as_spider", not getattr(b, "draw_as_spider", False))
            apply_op(self.shadow, op)
            out.append(op)
        return out

    def step(self, ops, action, kw, tmpdir, plt, raster=False, shadow_done=True):
        """The user applies `ops` to the boxes, then draws.  Returns (failures [(signature, text)],
        counters).  `shadow_done`: the ops come from `gen_ops`, which applied them to the shadow."""
        fails, counts = [], []
        for op in ops:
            if not shadow_done:
                apply_op(self.shadow, op)
            try:
                apply_op(self.diagram, op)
            except Exception as exc:
                fails.append(("hist_attribute_operation_raises", "%r: %r" % (op, exc)))
            self.ops.append(op)
            counts.append("hist_op:%s_%s" % (op[0], op[2]) + (
                "=%r" % op[3] if isinstance(op[3], bool) else ""))
        self.log.append(dict(ops=[list(op) for op in ops], action=action, kwargs=repr(kw)))
        ref = self.fresh()
        assert ref == self.diagram, "history: the fresh diagram is not equal to the user's"
        backend = "diagram2nx" if action == "nx" else \
            "tikz" if action.endswith("tikz") else "matplotlib"
        before = state([self.diagram])
        got = want = None
        try:
            got = perform(action, self.diagram, kw, tmpdir, plt, raster)
        except Exception as exc:
            fails.append((known_signature([self.diagram], exc) or "hist_%s_raises" % backend,
                          "step %d (%s): %s: %s" % (len(self.log), action, type(exc).__name__,
                                                    str(exc)[:300])))
        diff = state_diff(before, state([self.diagram]))
        if diff:
            fails.append(("hist_%s_changes_user_boxes" % backend,
                          "step %d (%s): %s" % (len(self.log), action, "; ".join(diff[:6]))))
        try:
            want = perform(action, ref, kw, tmpdir, plt, raster)
        except Exception as exc:
            fails.append((known_signature([ref], exc) or "hist_fresh_diagram_%s_raises" % backend,
                          "step %d (%s) on the FRESH equal diagram: %s: %s" % (
                              len(self.log), action, type(exc).__name__, str(exc)[:300])))
        if got is not None and want is not None and got != want:
            fails.append(("hist_%s_differs_from_fresh_equal_diagram" % backend,
                          "step %d (%s): %s" % (len(self.log), action, first_difference(got, want))))
        counts.append("hist_action:" + action)
        return fails, counts

    def describe(self):
        return dict(stream="draw_history", history_seed=self.seed, pinned=self.name, family=self.family,
                    diagram=safe_repr(self.diagram), steps=list(self.log),
                    boxes_now=describe(self.diagram)[:30],
                    attributes_the_user_set=describe(self.shadow)[:30])


def pinned_histories():
    """Fixed histories next to the generated ones: [(History, [(ops, action, kwargs), ...])]."""
    from discopy import monoidal as M, rigid as R

    def frobenius(mod):
        def build():
            x = mod.Ty("x")
            copy, merge = mod.Box("copy", x, x @ x), mod.Box("merge", x @ x, x)
            return "pinned", copy >> mod.Id(x) @ copy >> merge @ mod.Id(x), ["pinned"]    # copy used twice
        return build
    out = []
    for mod, first, second in [(M, "tikz", "mpl"), (M, "mpl", "tikz"), (M, "nx", "mpl"),
                               (R, "tikz", "mpl"), (R, "mpl", "tikz")]:
        h = History(0, frobenius(mod), name="frobenius:%s:%s_then_%s" % (mod.__name__, first, second))
        out.append((h, [
            ([], first, {}),
            ([("set", 0, "draw_as_spider", True)], second, {}),
            ([("set", 2, "draw_as_spider", True), ("set", 2, "color", "green")], first if first != "nx" else "tikz",
             {"use_tikzstyles": True}),
            ([("set", 0, "draw_as_spider", False)], second, {}),
        ]))
    return out


# ------------------------------------------------------------------ the graph: shadow for the model

def shadow(d):
    """`mk` expression with the arities and offsets of `d` over one generic object: the layout of a
    diagram depends on nothing else, so the model's `layout` answer must equal diagram2nx(d)."""
    a = ("a", 0)
    boxes = [dict(kind="g", name="f0", dom=[a] * len(b.dom), cod=[a] * len(b.cod),
                  dagger=False, data=None) for b in d.boxes]
    return ("mk", [a] * len(d.dom), [a] * len(d.cod), boxes, [int(o) for o in d.offsets])


def safe_repr(x, n=1500):
    try:
        return repr(x)[:n]
    except Exception as exc:     # a box class whose __repr__ needs data the generator did not give
        return "<%s: repr raised %r>" % (type(x).__name__, exc)


def describe(d):
    """The boxes of a diagram with their drawing attributes (for the failing-input report)."""
    out = []
    for b, o in zip(d.boxes, d.offsets):
        attrs = {k: getattr(b, k) for k in ("draw_as_spider", "draw_as_wires", "shape", "color",
                                             "drawing_name", "tikzstyle_name") + tuple(SPECIAL)
                 if hasattr(b, k)}
        out.append("%s@%d %r" % (safe_repr(b, 50), o, attrs))
    return out
