"""C03, history streams — equality / hash / printed form of values with a PAST.

The pool streams of c03.py compare freshly built values.  Here every generated value is first
USED (hashed, put into sets / dicts / a functor's mapping, compared, printed), then other values
are DERIVED from it (downgrade, dagger, slices, items, tensor, composition, upgrade to a subclass,
normal form, transposes, repr-eval round trip, bubbles; for types: slices, tensor, powers, adjoints,
downgrade, upgrade) and, last, the `data` of one of its boxes is mutated in place (documented as
allowed, cat.py:539-551).  Each derived value is compared with two values that have NO past:
  twin     the same derivation applied to a separately built, never used copy of the value
           (built through a different construction history);
  rebuilt  fresh constructor calls from the fields the derived value shows (class, dom, cod,
           boxes: class/name/dom/cod/data/dagger flag, offsets) — by the property these fields
           determine the value.
The property demanded of every such pair (a, b):  `==` is symmetric and agrees with the fields;
a == b  =>  hash(a) == hash(b), each is found in a dict / set keyed by the other, the boxes of
one key a Functor's mapping that is applied to the other; and `hash(x)` of an object that was
not mutated is the same on every call.
Model correspondence: printed form and `==` of the derived values against the model
(`dgrepr` / `dgeqv` / `dgboxrepr` for the downgrades, Model/Downgrade.lean; `repr` / `eqv` else).
"""
import copy
import random

import common
from common import err_class
from core import Family, tok_expr, tok_ty, tok_box, ty_l, ty_r
from sums import SumGen, run_sum

VAL = "val"          # ("val", object): the USED object itself, inside a derivation expression


class HFamily(Family):
    """`core.Family` with the deriving operations that are not in the shared expression language;
    `data` payloads are deep-copied into the boxes (the spec must not alias a mutable payload)."""

    def __init__(self, name, ns):
        super().__init__(name)
        self.ns = ns

    def box(self, b):
        if b["kind"] == "g" and b["data"] is not None:
            b = dict(b, data=copy.deepcopy(b["data"]))
        return super().box(b)

    def _run(self, e):
        op = e[0]
        if op == VAL:
            return e[1]
        if op == "downgrade":
            return self.run(e[1]).downgrade()
        if op == "upgrade":                      # conversion to the rigid subclass
            from discopy import rigid
            return rigid.Diagram.upgrade(self.run(e[1]))
        if op == "reval":
            return eval(repr(self.run(e[1])), dict(self.ns))
        if op == "bubble":
            return self.run(e[1]).bubble()
        return super()._run(e)


HOLE = ("hole",)    # where the used value goes in a derivation

EXPR_OPS = {"downgrade", "upgrade", "reval", "bubble", "dagger", "slice", "slicerev", "getitem", "tensor",
            "then", "normal_form", "transpose", "interchange", "mk", "box", "id", "swap", "perm", "cups",
            "caps", VAL, "hole"}


def is_expr(a):
    return isinstance(a, tuple) and len(a) > 0 and isinstance(a[0], str) and a[0] in EXPR_OPS


def subst(w, x):
    """Replace the hole of a derivation by the expression `x`."""
    if w == HOLE:
        return x
    if not is_expr(w) or w[0] == VAL:
        return w
    return tuple([w[0]] + [subst(a, x) if is_expr(a) else a for a in w[1:]])


def pure_core(e):
    """Only operations of the shared expression language (the model's `Expr`)."""
    if e[0] in ("downgrade", "upgrade", "reval", "bubble", VAL, "hole"):
        return False
    return all(pure_core(a) for a in e[1:] if is_expr(a))


def transparent(w, fam):
    """Drop the steps that do not change the model value: the repr-eval round trip, and the upgrade
    of a `monoidal` value to `rigid.Diagram` (at winding number 0 both classes print alike)."""
    if not is_expr(w) or w[0] in (VAL, "hole"):
        return w
    if w[0] == "reval" or (w[0] == "upgrade" and fam == "monoidal"):
        return transparent(w[1], fam)
    return tuple([w[0]] + [transparent(a, fam) if is_expr(a) else a for a in w[1:]])


def model_lines(w, fam, e, xt):
    """Model requests (printed form, `==` with the twin) for derivation `w` of the value `e`
    (twin built by `xt`), or None when the derivation is outside the model (bubbles, values
    mixing monoidal and rigid classes)."""
    w = transparent(w, fam)
    ops, cur = "", w
    while cur != HOLE and cur[0] in ("downgrade", "dagger"):
        ops = ("g" if cur[0] == "downgrade" else "d") + ops
        cur = cur[1]
    if "g" in ops:
        a, b = subst(cur, e), subst(cur, xt)
        if not (pure_core(a) and pure_core(b)):
            return None
        return ("dgrepr %s %s" % (ops, tok_expr(a)),
                "dgeqv %s %s %s %s" % (ops, tok_expr(a), ops, tok_expr(b)))
    a, b = subst(w, e), subst(w, xt)
    if not (pure_core(a) and pure_core(b)):
        return None
    return "repr " + tok_expr(a), "eqv %s %s" % (tok_expr(a), tok_expr(b))


# --------------------------------------------------------------------------- the fields of a value

def f_ty(t):
    return tuple((repr(o.name), int(getattr(o, "z", 0))) for o in t.objects)


def f_box(b):
    from discopy import cat
    if isinstance(b, cat.Bubble):
        return ("bubble", f_ty(b.dom), f_ty(b.cod), fields(b.inside))
    return (type(b).__name__, repr(b.name), f_ty(b.dom), f_ty(b.cod), repr(b.data), bool(b.is_dagger))


def fields(v):
    """(dom, cod, boxes, offsets) — what the property says `==` is determined by."""
    from discopy import cat, monoidal
    if isinstance(v, monoidal.Ty):
        return ("ty", f_ty(v))
    if isinstance(v, cat.Sum):
        return ("sum", f_ty(v.dom), f_ty(v.cod), tuple(fields(t) for t in v.terms))
    return ("diagram", f_ty(v.dom), f_ty(v.cod), tuple(f_box(b) for b in v.boxes),
            tuple(int(o) for o in v.offsets))


def rebuild_ty(t):
    from discopy import rigid, cat
    objs = [rigid.Ob(copy.deepcopy(o.name), o.z) if isinstance(o, rigid.Ob) else cat.Ob(copy.deepcopy(o.name))
            for o in t.objects]
    return type(t)(*objs)


def rebuild_box(b):
    from discopy import monoidal, rigid, cat
    cls = type(b)
    if isinstance(b, monoidal.Swap) or cls in (rigid.Cup, rigid.Cap):
        return cls(rebuild_ty(b.left), rebuild_ty(b.right))
    if isinstance(b, cat.Bubble):
        inside = rebuild(b.inside)
        if (b.dom, b.cod) == (b.inside.dom, b.inside.cod):
            return cls(inside)
        return cls(inside, rebuild_ty(b.dom), rebuild_ty(b.cod))
    if cls not in (monoidal.Box, rigid.Box):
        raise TypeError("rebuild: unexpected box class %r" % cls)
    kw = {}
    if b.data is not None:
        kw["data"] = copy.deepcopy(b.data)
    if b.is_dagger:
        kw["_dagger"] = True
    return cls(copy.deepcopy(b.name), rebuild_ty(b.dom), rebuild_ty(b.cod), **kw)


def rebuild(v):
    """Fresh constructor calls from the fields `v` shows; same classes as `v`."""
    from discopy import monoidal, cat
    if isinstance(v, monoidal.Ty):
        return rebuild_ty(v)
    if isinstance(v, cat.Sum):
        return type(v)([rebuild(t) for t in v.terms], rebuild_ty(v.dom), rebuild_ty(v.cod))
    if isinstance(v, monoidal.Box):
        return rebuild_box(v)
    from discopy import rigid
    cls = rigid.Diagram if isinstance(v, rigid.Diagram) else monoidal.Diagram     # `Id` is a Diagram
    return cls(rebuild_ty(v.dom), rebuild_ty(v.cod), [rebuild_box(b) for b in v.boxes],
               [int(o) for o in v.offsets])



def all_types(v):
    from discopy import cat, monoidal
    if isinstance(v, monoidal.Ty):
        return [v]
    if isinstance(v, cat.Sum):
        return [v.dom, v.cod] + [t for x in v.terms for t in all_types(x)]
    out = [v.dom, v.cod]
    for b in v.boxes:
        out += [b.dom, b.cod]
        if isinstance(b, cat.Bubble):
            out += all_types(b.inside)
    return out


def hybrid_adjoint(v):
    """Does the value hold a plain `monoidal.Ty` with an object of winding number != 0 (what
    `downgrade()` makes of a rigid type with adjoints)?"""
    from discopy import monoidal
    return any(type(t) is monoidal.Ty and any(getattr(o, "z", 0) for o in t.objects) for t in all_types(v))


def check_reval(rep, ns, stream, lab, v, case):
    """The printed form is constructor syntax that evaluates back to an equal value."""
    case = dict(case, derivation=lab, repr=safe_repr(v))
    try:
        back = eval(repr(v), dict(ns))
        rep.count("history-repr-evals:" + stream)
        if not (bool(back == v) and bool(v == back) and fields(back) == fields(v)):
            if hybrid_adjoint(v):
                rep.count("history-repr-evals-hybrid-adjoint")
                rep.fail("repr_eval_unequal:downgraded_adjoint_types", case,
                         "eval(repr(v)) != v: monoidal.Ty.__repr__ does not print the winding numbers of the "
                         "rigid objects that downgrade() keeps")
            else:
                rep.fail("repr_eval_unequal:%s:%s" % (stream, lab), case, "eval(repr(v)) != v")
    except Exception as exc:  # noqa
        if hybrid_adjoint(v):
            rep.count("history-repr-evals-hybrid-adjoint")
            rep.fail("repr_eval_unequal:downgraded_adjoint_types", case,
                     "eval(repr(v)) raised %r: monoidal.Ty.__repr__ does not print the winding numbers of "
                     "the rigid objects that downgrade() keeps" % (exc,))
        else:
            rep.fail("repr_eval_fails:%s:%s" % (stream, lab), case, "eval(repr(v)) raised %r" % (exc,))


# --------------------------------------------------------------------------- using a value

TOUCHES = ["hash", "hash_boxes", "set_boxes", "dict_key", "functor", "hash_types", "eq_self", "repr"]


def identity_functor(v, boxes):
    """A functor of the value's own module whose arrow mapping is keyed by `boxes` (daggered
    boxes are looked up through their dagger, cat.py:859-861; Swap/Cup/Cap are not looked up)."""
    from discopy import monoidal, rigid
    ar = {}
    for b in boxes:
        if common.box_kind(b) != "g" or isinstance(b, monoidal.Sum):
            continue
        ar[b.dagger() if b.is_dagger else b] = b.dagger() if b.is_dagger else b
    if isinstance(v, rigid.Diagram):
        return rigid.Functor(ob=lambda t: t, ar=ar)
    return monoidal.Functor(ob=lambda t: t, ar=ar)


class Used:
    """Remembers every object that was hashed and the hash it had."""

    def __init__(self):
        self.seen = []

    def h(self, what, obj):
        self.seen.append((what, obj, hash(obj)))

    def touch(self, v, modes):
        from discopy import cat
        boxes = list(getattr(v, "boxes", []))
        if isinstance(v, cat.Sum):
            boxes = [b for t in v.terms for b in t.boxes]
        for m in modes:
            if m == "hash":
                self.h("value", v)
            elif m == "hash_boxes":
                for b in boxes:
                    self.h("box", b)
            elif m == "set_boxes":
                assert len(set(boxes)) <= len(boxes)
                for b in boxes:
                    self.h("box", b)
            elif m == "dict_key":
                d = {v: 0}
                for i, b in enumerate(boxes):
                    d[b] = i
                assert d[v] is not None
                self.h("value", v)
            elif m == "functor":
                if not isinstance(v, cat.Sum):
                    identity_functor(v, boxes)(v)
            elif m == "hash_types":
                for t in [v.dom, v.cod] + [x for b in boxes for x in (b.dom, b.cod)]:
                    self.h("type", t)
            elif m == "eq_self":
                assert v == v
            elif m == "repr":
                repr(v)

    def stable(self):
        """Objects whose hash is not what it was: list of (what, object, before, now)."""
        out = []
        for what, obj, h0 in self.seen:
            h1 = hash(obj)
            if h1 != h0:
                out.append((what, obj, h0, h1))
        return out


# --------------------------------------------------------------------------- the pair oracle

class PairOracle:
    def __init__(self, rep):
        self.rep = rep

    def agree(self, stream, op, a, b, case, la="derived", lb="fresh", functor=True):
        """a, b: two values built to be the same value (a has a past, b has none)."""
        rep = self.rep
        case = dict(case, derivation=op, a=la, b=lb)

        def fail(sig, text):
            rep.fail("%s:%s:%s" % (sig, stream, op.split("/")[0]),
                     dict(case, repr_a=safe_repr(a), repr_b=safe_repr(b)), text)
        try:
            ab, ba = bool(a == b), bool(b == a)
        except Exception as exc:  # noqa
            fail("eq_raises", "%s == %s raised %r" % (la, lb, exc))
            return False
        rep.count("history-pairs:" + stream)
        if ab != ba:
            fail("eq_not_symmetric", "(%s == %s) is %s but (%s == %s) is %s" % (la, lb, ab, lb, la, ba))
        try:
            fa, fb = fields(a), fields(b)
        except Exception as exc:  # noqa
            fail("fields_raise", "reading dom/cod/boxes/offsets raised %r" % (exc,))
            return False
        if type(a) is type(b) and ab != (fa == fb):
            fail("eq_not_structural", "%s == %s is %s but their (dom, cod, boxes, offsets) %s" % (
                la, lb, ab, "agree" if fa == fb else "differ"))
        if not (ab and ba):
            return False
        rep.count("history-equal-pairs:" + stream)
        try:
            ha, hb = hash(a), hash(b)
        except Exception as exc:  # noqa
            fail("hash_raises", "hash raised %r" % (exc,))
            return True
        if ha != hb:
            fail("hash_inconsistent", "%s == %s but their hashes differ" % (la, lb))
        try:
            ok = {a: 1}.get(b) == 1 and {b: 1}.get(a) == 1 and a in {b} and b in {a} \
                and len({a, b}) == 1
        except Exception as exc:  # noqa
            ok = False
            fail("dict_lookup_raises", "dict / set lookup raised %r" % (exc,))
        if not ok and ha == hb:
            fail("dict_lookup", "%s == %s but one is not found in a dict / set keyed by the other" % (la, lb))
        # box by box
        ba_, bb_ = list(getattr(a, "boxes", [])), list(getattr(b, "boxes", []))
        if len(ba_) == len(bb_) and not (len(ba_) == 1 and ba_[0] is a):
            for k, (x, y) in enumerate(zip(ba_, bb_)):
                self.agree(stream, op + "/box", x, y, dict(case, box_index=k), la + ".boxes[k]",
                           lb + ".boxes[k]", functor=False)
        if functor and hasattr(a, "boxes") and hasattr(a, "offsets"):
            self.functor_lookup(stream, op, a, b, case, la, lb)
            self.functor_lookup(stream, op, b, a, case, lb, la)
        return True

    def functor_lookup(self, stream, op, a, b, case, la, lb):
        """The boxes of `b` key the mapping of a functor that is applied to `a`."""
        from discopy import cat
        if any(isinstance(x, cat.Bubble) for x in list(a.boxes) + list(b.boxes)):
            return
        try:
            F = identity_functor(a, b.boxes)
            img = F(a)
            self.rep.count("history-functor-lookups")
            if not bool(img == a):
                self.rep.fail("functor_key_lookup:%s:%s" % (stream, op.split("/")[0]),
                              dict(case, repr_a=safe_repr(a), image=safe_repr(img)),
                              "the functor mapping every box of %s to itself does not map %s to itself"
                              % (lb, la))
        except Exception as exc:  # noqa
            self.rep.fail("functor_key_lookup:%s:%s" % (stream, op.split("/")[0]),
                          dict(case, repr_a=safe_repr(a), repr_b=safe_repr(b)),
                          "a functor whose mapping is keyed by the boxes of %s raised %r on the equal value %s"
                          % (lb, exc, la))


def safe_repr(v):
    try:
        return repr(v)[:400]
    except Exception as exc:  # noqa
        return "<repr raised %r>" % (exc,)


# --------------------------------------------------------------------------- derivations

def diagram_derivations(g, fam, e, scans, other, tail):
    """(label, wrapper) — wrapper has the hole HOLE where the used value goes."""
    r = g.rng
    n = len(e[3])
    i, j = sorted([r.randint(-n - 1, n + 1), r.randint(-n - 1, n + 1)])
    out = [
        ("downgrade", ("downgrade", HOLE)),
        ("downgrade_twice", ("downgrade", ("downgrade", HOLE))),
        ("dagger", ("dagger", HOLE)),
        ("dagger_dagger", ("dagger", ("dagger", HOLE))),
        ("dagger_then_downgrade", ("downgrade", ("dagger", HOLE))),
        ("downgrade_then_dagger", ("dagger", ("downgrade", HOLE))),
        ("slice", ("slice", HOLE, i, j)),
        ("slice_then_downgrade", ("downgrade", ("slice", HOLE, i, j))),
        ("tensor_right", ("tensor", HOLE, other)),
        ("tensor_left", ("tensor", other, HOLE)),
        ("tensor_then_downgrade", ("downgrade", ("tensor", HOLE, other))),
        ("then", ("then", HOLE, ("box", tail))),
        ("then_downgrade", ("downgrade", ("then", HOLE, ("box", tail)))),
        ("self_tensor", ("tensor", HOLE, HOLE)),
        ("repr_eval", ("reval", HOLE)),
        ("bubble_downgrade", ("downgrade", ("bubble", HOLE))),
        ("bubble", ("bubble", HOLE)),
    ]
    if n:
        k = r.randrange(n)
        out.append(("getitem", ("getitem", HOLE, k)))
        out.append(("getitem_downgrade", ("downgrade", ("getitem", HOLE, k))))
    if fam == "monoidal":
        out.append(("upgrade", ("upgrade", HOLE)))
        out.append(("upgrade_downgrade", ("downgrade", ("upgrade", HOLE))))
        if n <= 4:
            out.append(("normal_form", ("normal_form", HOLE, bool(r.getrandbits(1)))))
    else:
        out.append(("downgrade_upgrade", ("upgrade", ("downgrade", HOLE))))
        if n <= 3 and len(e[1]) + len(e[2]) <= 4:
            out.append(("transpose", ("transpose", HOLE, bool(r.getrandbits(1)))))
    return out


MUTATIONS = ["append", "setitem", "clear", "nested", "extend"]


def mutate_payload(data, how):
    """Mutate a list / dict payload IN PLACE; returns False when `how` does not apply."""
    if isinstance(data, list):
        if how == "append":
            data.append(7)
        elif how == "setitem" and data:
            data[0] = 9
        elif how == "clear" and data:
            del data[:]
        elif how == "nested" and data and isinstance(data[0], list):
            data[0].append(8)
        elif how == "extend":
            data.extend([5, 6])
        else:
            return False
        return True
    if isinstance(data, dict):
        if how in ("append", "extend"):
            data["new"] = 4
        elif how == "setitem" and data:
            data[next(iter(data))] = 9
        elif how == "clear" and data:
            data.clear()
        elif how == "nested" and data and isinstance(next(iter(data.values())), list):
            next(iter(data.values())).append(8)
        else:
            return False
        return True
    return False


MUTABLE_PAYLOADS = [[1, 2], {"k": 3}, {1: [2, 3]}, [[1], [2, 3]], [], [0]]


# --------------------------------------------------------------------------- the streams

def run_history(rep, rng, ns, ask, gen_cls, histories, quick):
    from discopy import cat, monoidal, rigid
    oracle = PairOracle(rep)
    fams = {"monoidal": HFamily("monoidal", ns["monoidal"]), "rigid": HFamily("rigid", ns["rigid"])}

    def derive(F, w, x, what, case, label):
        """Run derivation `w` on `x`; (ok, value) — an exception is (False, class)."""
        try:
            return True, F.run(subst(w, x))
        except Exception as exc:  # noqa
            return False, (err_class(exc), repr(exc)[:200])

    # ------------------------------------------------------------------ diagrams
    n_d = 70 if quick else 700
    for k in range(n_d):
        fam = "rigid" if k % 2 else "monoidal"
        F = fams[fam]
        g = gen_cls(random.Random(rng.getrandbits(64)), rigid=(fam == "rigid"))
        r = g.rng
        if k % 7 == 3:                                   # a bare Box instance
            b = g.gbox(g.ty(0, 3))
            e, scans = ("mk", b["dom"], b["cod"], [b], [0]), [list(b["dom"]), list(b["cod"])]
            hs = [("bare_box", ("box", b))]
        else:
            e, scans = g.diagram(depth=r.choice([1, 1, 2, 2, 3, 4, 5]))
            hs = histories(g, e, scans)
        other, _ = g.diagram(depth=r.choice([0, 1, 2]))
        tail = g.gbox(e[2])
        (lu, xu), (lt, xt) = r.choice(hs), r.choice(hs)
        modes = [m for m in TOUCHES if r.random() < 0.4]
        if k % 10 == 9:
            modes = []                                   # control: a value without a past
        case = dict(family=fam, expr=repr(e)[:700], used_built_by=lu, twin_built_by=lt, used_as=modes)
        try:
            used = F.run(xu)
            past = Used()
            past.touch(used, modes)
        except Exception as exc:  # noqa
            rep.fail("history_raises:use", case, "building / using the value raised %r" % (exc,))
            continue
        rep.count("history-diagrams:" + fam)
        for m in modes or ["none"]:
            rep.count("history-used-as:" + m)
        nb = len(e[3])
        kinds = set(b["kind"] for b in e[3])
        rep.count("history-diagram-has:" + ("swap/cup/cap" if kinds - {"g"} else "generic-only"))
        rep.case("history %s %s %s" % (fam, lu, tok_expr(e)), nb >= 2)
        # a second use of the SAME object later on
        for lab, w in diagram_derivations(g, fam, e, scans, other, tail):
            ok1, d1 = derive(F, w, (VAL, used), "used", case, lab)
            ok2, d2 = derive(F, w, xt, "twin", case, lab)
            if not (ok1 and ok2):
                if ok1 != ok2 or d1[0] != d2[0]:
                    rep.fail("history_raises:diagram:" + lab, dict(case, derivation=lab),
                             "the derivation gives %r on the used value but %r on its never-used twin"
                             % (d1 if not ok1 else "a value", d2 if not ok2 else "a value"))
                else:
                    rep.count("history-derivation-refused:%s:%s" % (lab, d1[0]))
                continue
            rep.count("history-derivations:" + lab)
            oracle.agree("diagram", lab, d1, d2, case, "derived", "twin")
            try:
                fresh = rebuild(d1)
            except Exception as exc:  # noqa
                rep.fail("rebuild_raises:diagram:" + lab, dict(case, derivation=lab, repr=safe_repr(d1)),
                         "constructor calls with the fields of the derived value raised %r" % (exc,))
                fresh = None
            if fresh is not None:
                if not oracle.agree("diagram", lab, d1, fresh, case, "derived", "rebuilt"):
                    rep.fail("eq_not_structural:diagram:" + lab.split("/")[0],
                             dict(case, derivation=lab, repr_a=safe_repr(d1), repr_b=safe_repr(fresh)),
                             "the derived value is not == the value rebuilt from its own dom, cod, boxes, offsets")
            check_reval(rep, ns[fam], "diagram", lab, d1, case)
            # printed form / == against the model
            ml = model_lines(w, fam, e, xt)
            if ml is not None:
                ask("history-repr", dict(case, derivation=lab), ml[0], "ok " + repr(d1), nb >= 2)
                ask("history-eqv", dict(case, derivation=lab), ml[1], "ok %d" % bool(d1 == d2), nb >= 2)
            else:
                rep.count("history-outside-model:" + lab)
        # every box of the used value, as a Box instance
        for kb, b in enumerate(list(used.boxes)[:4]):
            if isinstance(b, cat.Bubble) or b is used:
                continue
            for lab, fn in (("box_downgrade", lambda x: x.downgrade()), ("box_dagger", lambda x: x.dagger()),
                            ("box_dagger_downgrade", lambda x: x.dagger().downgrade()),
                            ("box_wrap", lambda x: F.m.Diagram(x.dom, x.cod, [x], [0]))):
                try:
                    d1 = fn(b)
                    d2 = fn(F.box(e[3][kb])) if len(used.boxes) == len(e[3]) else fn(rebuild_box(b))
                except Exception as exc:  # noqa
                    rep.fail("history_raises:box:" + lab, dict(case, box_index=kb), "raised %r" % (exc,))
                    continue
                oracle.agree("box", lab, d1, d2, dict(case, box_index=kb), "derived", "twin")
                oracle.agree("box", lab, d1, rebuild(d1), dict(case, box_index=kb), "derived", "rebuilt")
                if lab == "box_downgrade" and len(used.boxes) == len(e[3]):
                    ask("history-reprbox", dict(case, box_index=kb), "dgboxrepr " + tok_box(e[3][kb]),
                        "ok " + repr(d1))
        # hash(x) of an object that was not mutated is the same on every call
        for what, obj, h0, h1 in past.stable():
            rep.fail("hash_unstable:" + what, dict(case, repr=safe_repr(obj)),
                     "hash(x) changed between two calls on an object that was not mutated")
        rep.count("history-rehashed-objects", len(past.seen))

        # ------------------------------------------------------------ in-place mutation of `data`
        gens = [i for i, b in enumerate(e[3]) if b["kind"] == "g"]
        if not gens:
            continue
        kb = r.choice(gens)
        how = r.choice(MUTATIONS)
        e0 = ("mk", e[1], e[2], [dict(b) for b in e[3]], e[4])
        if not isinstance(e0[3][kb]["data"], (list, dict)) or r.random() < 0.3:
            e0[3][kb]["data"] = copy.deepcopy(r.choice(MUTABLE_PAYLOADS))
        new = copy.deepcopy(e0[3][kb]["data"])
        if not mutate_payload(new, how):
            how = "append"
            mutate_payload(new, how)
        e1 = ("mk", e[1], e[2], [dict(b) for b in e0[3]], e[4])
        e1[3][kb]["data"] = new
        mcase = dict(family=fam, expr=repr(e0)[:700], box_index=kb, mutation=how, used_as=modes,
                     new_data=repr(new))
        try:
            used = F.run(e0)
            shared = F.run(("tensor", (VAL, used), other))        # built BEFORE the mutation, shares the box
            ssum = used + used                                    # a sum taken BEFORE the mutation
            bub = used.bubble()                                   # a bubble taken BEFORE the mutation
            box = used.boxes[kb]
            dag = box.dagger()                                    # shares the payload (cat.py:571-574)
            past = Used()
            past.touch(used, modes)
            if r.random() < 0.5:
                past.h("box", box)
            if r.random() < 0.5:
                for obj in (used, shared, ssum, bub):
                    past.h("value", obj)
            assert mutate_payload(box.data, how)
            fresh = F.run(e1)
            fbox = F.box(e1[3][kb])
        except Exception as exc:  # noqa
            rep.fail("history_raises:mutation", mcase, "raised %r" % (exc,))
            continue
        rep.count("history-mutations:" + how)
        rep.case("mutation %s %s %s" % (fam, how, tok_expr(e0)), nb >= 2)
        oracle.agree("mutation", "data_" + how, used, fresh, mcase, "mutated", "fresh")
        oracle.agree("mutation", "data_" + how + "/boxinst", box, fbox, mcase, "mutated_box", "fresh_box",
                     functor=False)
        oracle.agree("mutation", "data_" + how + "/rebuilt", used, rebuild(used), mcase, "mutated", "rebuilt")
        oracle.agree("mutation", "data_" + how + "/dagger", dag, fbox.dagger(), mcase, "dagger_taken_before",
                     "fresh_dagger", functor=False)
        oracle.agree("mutation", "data_" + how + "/shared", shared, F.run(("tensor", e1, other)), mcase,
                     "tensor_taken_before", "fresh_tensor")
        try:
            fsum, fbub = fresh + fresh, fresh.bubble()
            oracle.agree("mutation", "data_" + how + "/bubble", bub, fbub, mcase, "bubble_taken_before",
                         "fresh_bubble", functor=False)
            check_reval(rep, ns[fam], "mutation", "data_" + how, bub, mcase)
            # a Sum fixes its printed form when it is built (finding F43c): own stream / label
            oracle.agree("mutation_sum", "sum_taken_before", ssum, fsum, mcase, "sum_taken_before", "fresh_sum",
                         functor=False)
            check_reval(rep, ns[fam], "mutation_sum", "sum_taken_before", ssum, mcase)
            oracle.agree("mutation", "data_" + how + "/sum_after", used + used, fsum, mcase, "sum_taken_after",
                         "fresh_sum", functor=False)
        except Exception as exc:  # noqa
            rep.fail("history_raises:mutation", mcase, "raised %r" % (exc,))
        for lab, w in (("downgrade", ("downgrade", HOLE)), ("dagger", ("dagger", HOLE)),
                       ("slice", ("slice", HOLE, None, None))):
            ok1, d1 = derive(F, w, (VAL, used), "used", mcase, lab)
            ok2, d2 = derive(F, w, e1, "fresh", mcase, lab)
            if ok1 and ok2:
                oracle.agree("mutation", "data_%s/then_%s" % (how, lab), d1, d2, mcase,
                             "derived_after_mutation", "fresh")
            elif ok1 != ok2:
                rep.fail("history_raises:mutation:" + lab, mcase, "derivation raises on one side only")
        ask("history-repr", dict(mcase, derivation="mutation"), "repr " + tok_expr(e1), "ok " + repr(used), nb >= 2)
        # unequal to what it was: a box with the OLD payload is no longer equal, whatever its hash
        try:
            old = F.box(e0[3][kb])
            if bool(old == box) or bool(box == old):
                rep.fail("eq_not_structural:mutation:stale_eq", mcase,
                         "the mutated box still equals a box carrying the old payload")
        except Exception as exc:  # noqa
            rep.fail("history_raises:mutation", mcase, "raised %r" % (exc,))

    # ------------------------------------------------------------------ types
    n_t = 60 if quick else 600
    for k in range(n_t):
        fam = "rigid" if k % 2 else "monoidal"
        F = fams[fam]
        g = gen_cls(random.Random(rng.getrandbits(64)), rigid=(fam == "rigid"))
        r = g.rng
        t, s = g.ty(0, 4), g.ty(0, 2)
        i, j = sorted([r.randint(-5, 5), r.randint(-5, 5)])
        case = dict(family=fam, ty=repr(t), other=repr(s))
        used = F.ty(t)
        past = Used()
        hashed = r.random() < 0.8
        if hashed:
            past.h("type", used)
            for o in used.objects:
                past.h("object", o)
            assert used in {used: 1}
        rep.count("history-types:" + fam)
        rep.case("history ty %s %s" % (fam, tok_ty(t)), len(t) >= 2)
        ders = [("slice", lambda x: x[i:j], t[i:j], fam), ("tensor", lambda x: x @ F.ty(s), t + s, fam),
                ("tensor_left", lambda x: F.ty(s) @ x, s + t, fam), ("power", lambda x: x ** 2, t + t, fam),
                ("unit", lambda x: x @ type(x)(), t, fam), ("downgrade", lambda x: x.downgrade(), t, "down"),
                ("slice_downgrade", lambda x: x[i:j].downgrade(), t[i:j], "down"),
                ("repr_eval", lambda x: eval(repr(x), dict(ns[fam])), t, fam)]
        if fam == "rigid":
            ders += [("l", lambda x: x.l, ty_l(t), fam), ("r", lambda x: x.r, ty_r(t), fam),
                     ("l_r", lambda x: x.l.r, t, fam), ("l_downgrade", lambda x: x.l.downgrade(), ty_l(t), "down")]
        else:
            ders += [("upgrade", lambda x: rigid.Ty.upgrade(x), t, "rigid")]
        for lab, fn, spec, cls in ders:
            try:
                d1 = fn(used)
                if cls == "down":       # a monoidal.Ty holding the objects of the family
                    fresh = monoidal.Ty(*[F.ob(o) for o in spec])
                else:
                    fresh = fams[cls].ty(spec)
            except Exception as exc:  # noqa
                rep.fail("history_raises:ty:" + lab, dict(case, derivation=lab), "raised %r" % (exc,))
                continue
            rep.count("history-type-derivations:" + lab)
            if not oracle.agree("ty", lab, d1, fresh, case, "derived", "fresh"):
                rep.fail("eq_not_structural:ty:" + lab, dict(case, derivation=lab, repr_a=safe_repr(d1),
                                                              repr_b=safe_repr(fresh)),
                         "the derived type is not == the type built from the expected objects")
            oracle.agree("ty", lab, d1, rebuild(d1), case, "derived", "rebuilt")
            check_reval(rep, ns[fam], "ty", lab, d1, case)
            ask("history-reprty", dict(case, derivation=lab),
                ("reprty " if isinstance(d1, rigid.Ty) else "reprtym ") + tok_ty(spec), "ok " + repr(d1),
                len(spec) >= 2)
            # a type keys a functor's object mapping
            try:
                keys = {type(d1)(o): type(d1)(o) for o in fresh.objects}
                for o in d1.objects:
                    if type(d1)(o) not in keys:
                        rep.fail("functor_key_lookup:ty:" + lab, dict(case, derivation=lab),
                                 "an object type of the derived type is not found among equal keys")
            except Exception as exc:  # noqa
                rep.fail("functor_key_lookup:ty:" + lab, dict(case, derivation=lab), "raised %r" % (exc,))
        for what, obj, h0, h1 in past.stable():
            rep.fail("hash_unstable:" + what, dict(case, repr=safe_repr(obj)),
                     "hash(x) changed between two calls on an object that was not mutated")

    # ------------------------------------------------------------------ sums
    n_s = 40 if quick else 400
    for k in range(n_s):
        fam = "rigid" if k % 2 else "monoidal"
        F = fams[fam]
        g = gen_cls(random.Random(rng.getrandbits(64)), rigid=(fam == "rigid"))
        g.maxw = 4
        r = g.rng
        sg = SumGen(g)
        spec, dom, cod, nt = sg.sum(nterms=r.choice([1, 2, 2, 3]))
        case = dict(family=fam, sum=repr(spec)[:700])
        modes = [m for m in ("hash", "hash_boxes", "dict_key", "hash_types", "repr") if r.random() < 0.5]
        try:
            used, twin = run_sum(F, spec), run_sum(F, spec)
            past = Used()
            past.touch(used, modes)
            for t_ in used.terms:
                if r.random() < 0.5:
                    past.h("term", t_)
        except Exception as exc:  # noqa
            rep.fail("history_raises:use", case, "building / using the sum raised %r" % (exc,))
            continue
        rep.count("history-sums:" + fam)
        rep.case("history sum %s %s" % (fam, repr(spec)[:300]), nt >= 2)
        idc = F.m.Id(F.ty(cod))
        ders = [("dagger", lambda x: x.dagger()), ("dagger_dagger", lambda x: x.dagger().dagger()),
                ("add_self", lambda x: x + x), ("then_dagger", lambda x: x >> x.dagger()),
                ("tensor_self", lambda x: x @ x), ("then_id", lambda x: x >> idc),
                ("repr_eval", lambda x: eval(repr(x), dict(ns[fam]))),
                ("term_downgrade", lambda x: x.terms[0].downgrade()),
                ("terms_downgrade_sum", lambda x: monoidal.Sum([t_.downgrade() for t_ in x.terms])),
                ("first_term", lambda x: x.terms[0])]
        for lab, fn in ders:
            try:
                d1, d2 = fn(used), fn(twin)
            except Exception as exc:  # noqa
                rep.fail("history_raises:sum:" + lab, dict(case, derivation=lab), "raised %r" % (exc,))
                continue
            rep.count("history-sum-derivations:" + lab)
            oracle.agree("sum", lab, d1, d2, case, "derived", "twin", functor=False)
            check_reval(rep, ns[fam], "sum", lab, d1, case)
            try:
                oracle.agree("sum", lab, d1, rebuild(d1), case, "derived", "rebuilt", functor=False)
            except Exception as exc:  # noqa
                rep.fail("rebuild_raises:sum:" + lab, dict(case, derivation=lab, repr=safe_repr(d1)),
                         "constructor calls with the fields of the derived value raised %r" % (exc,))
        for what, obj, h0, h1 in past.stable():
            rep.fail("hash_unstable:" + what, dict(case, repr=safe_repr(obj)),
                     "hash(x) changed between two calls on an object that was not mutated")

    # ------------------------------------------------------------------ cat arrows (real code only)
    n_c = 40 if quick else 400
    for k in range(n_c):
        r = random.Random(rng.getrandbits(64))
        obs = ["x", "y", "z", 1]
        spec, scan = [], r.choice(obs)
        dom = scan
        for _ in range(r.choice([1, 1, 2, 3])):
            cod = r.choice(obs)
            spec.append(dict(name=r.choice(["f", "g", 5]), dom=scan, cod=cod, dagger=r.random() < 0.25,
                             data=copy.deepcopy(r.choice([None, None, 1] + MUTABLE_PAYLOADS))))
            scan = cod

        def cbox(b):
            kw = {}
            if b["data"] is not None:
                kw["data"] = copy.deepcopy(b["data"])
            if b["dagger"]:
                kw["_dagger"] = True
            return cat.Box(b["name"], cat.Ob(b["dom"]), cat.Ob(b["cod"]), **kw)

        def build(sp):
            return cat.Arrow(cat.Ob(dom), cat.Ob(scan), [cbox(b) for b in sp])

        def cfields(v):
            return (repr(v.dom.name), repr(v.cod.name), tuple(
                (repr(b.name), repr(b.dom.name), repr(b.cod.name), repr(b.data), bool(b.is_dagger))
                for b in v.boxes))
        case = dict(arrow=repr(spec)[:600])
        try:
            used, twin = build(spec), build(spec)
            past = Used()
            past.touch(used, [m for m in ("hash", "hash_boxes", "dict_key", "repr") if r.random() < 0.5])
            i = r.randint(0, len(spec))
            for lab, fn in (("dagger", lambda x: x[::-1]), ("slices", lambda x: x[:i] >> x[i:]),
                            ("then_dagger", lambda x: x >> x[::-1]), ("item", lambda x: x[0]),
                            ("repr_eval", lambda x: eval(repr(x), dict(ns["cat"])))):
                d1, d2 = fn(used), fn(twin)
                pair_cat(rep, "arrow", lab, d1, d2, cfields, case)
            for what, obj, h0, h1 in past.stable():
                rep.fail("hash_unstable:" + what, dict(case, repr=safe_repr(obj)),
                         "hash(x) changed between two calls on an object that was not mutated")
            muts = [q for q, b in enumerate(spec) if isinstance(b["data"], (list, dict))]
            if muts:
                q = r.choice(muts)
                how = r.choice(MUTATIONS)
                new = copy.deepcopy(spec[q]["data"])
                if not mutate_payload(new, how):
                    how = "append"
                    mutate_payload(new, how)
                spec1 = [dict(b) for b in spec]
                spec1[q]["data"] = new
                mutate_payload(used.boxes[q].data, how)
                pair_cat(rep, "arrow", "data_" + how, used, build(spec1), cfields, dict(case, mutation=how, box_index=q))
                pair_cat(rep, "arrow", "data_" + how + "/box", used.boxes[q], cbox(spec1[q]), cfields,
                         dict(case, mutation=how, box_index=q))
                rep.count("history-cat-mutations")
        except Exception as exc:  # noqa
            rep.fail("history_raises:cat", case, "raised %r" % (exc,))
        rep.count("history-cat-arrows")
        rep.case("history cat %r" % (spec,), len(spec) >= 2)



def run_containers(rep, rng, ns, gen_cls, quick):
    """"However they were built": the same constructor arguments handed over in a list or in a
    tuple (terms of a sum; boxes and offsets of a diagram; boxes of an arrow)."""
    from discopy import cat
    oracle = PairOracle(rep)
    fams = {"monoidal": HFamily("monoidal", ns["monoidal"]), "rigid": HFamily("rigid", ns["rigid"])}
    n = 40 if quick else 400
    for k in range(n):
        fam = "rigid" if k % 2 else "monoidal"
        F = fams[fam]
        g = gen_cls(random.Random(rng.getrandbits(64)), rigid=(fam == "rigid"))
        g.maxw = 4
        r = g.rng
        sg = SumGen(g)
        spec, dom, cod, nt = sg.sum(nterms=r.choice([1, 2, 3]))
        case = dict(family=fam, sum=repr(spec)[:700])
        try:
            terms = [F.run(t) for t in spec[1]]
            S = type(run_sum(F, spec))
            pool = [("list", S(list(terms))), ("tuple", S(tuple(terms))),
                    ("list_typed", S(list(terms), F.ty(dom), F.ty(cod))),
                    ("tuple_typed", S(tuple(terms), F.ty(dom), F.ty(cod)))]
            e = spec[1][-1]
            bs = [F.box(b) for b in e[3]]
            D = F.m.Diagram
            dpool = [("lists", D(F.ty(e[1]), F.ty(e[2]), list(bs), list(e[4]))),
                     ("tuples", D(F.ty(e[1]), F.ty(e[2]), tuple(bs), tuple(e[4]))),
                     ("boxes_tuple", D(F.ty(e[1]), F.ty(e[2]), tuple(bs), list(e[4]))),
                     ("offsets_tuple", D(F.ty(e[1]), F.ty(e[2]), list(bs), tuple(e[4])))]
        except Exception as exc:  # noqa
            rep.fail("history_raises:containers", case, "raised %r" % (exc,))
            continue
        rep.count("container-pools:" + fam)
        rep.case("containers %s %s" % (fam, repr(spec)[:300]), nt >= 2)
        for stream, pl in (("sum", pool), ("diagram_args", dpool)):
            for (la, a) in pl[1:]:
                # the list/tuple pair of sums has its own label (finding F43a is about exactly that)
                op = "sum_terms_tuple" if stream == "sum" and la == "tuple" else \
                    "sum_typed" if stream == "sum" else stream
                first = pl[1] if la == "tuple_typed" else pl[0]
                oracle.agree("containers", op, first[1], a, case, first[0], la, functor=False)
                check_reval(rep, ns[fam], "containers", stream, a, dict(case, built_with=la))
    for k in range(n // 2):
        r = random.Random(rng.getrandbits(64))
        x = cat.Ob(r.choice(["x", 1]))
        bs = [cat.Box(r.choice(["f", "g"]), x, x, data=r.choice([None, 1, [2]])) for _ in range(r.randint(1, 3))]
        case = dict(arrow=repr(bs))
        try:
            a, b = cat.Arrow(x, x, list(bs)), cat.Arrow(x, x, tuple(bs))
            sa, sb = cat.Sum([a, a]), cat.Sum((a, a))
        except Exception as exc:  # noqa
            rep.fail("history_raises:containers", case, "raised %r" % (exc,))
            continue

        def cf(v):
            return (repr(v.dom), repr(v.cod), repr(list(getattr(v, "terms", v.boxes))))
        pair_cat(rep, "containers", "arrow_boxes", a, b, cf, case)
        pair_cat(rep, "containers", "sum_terms_tuple", sa, sb, cf, case)
        rep.count("container-pools:cat")


def pair_cat(rep, stream, op, a, b, keyfn, case):
    case = dict(case, derivation=op, repr_a=safe_repr(a), repr_b=safe_repr(b))
    sig = "%s:%s" % (stream, op.split("/")[0])
    try:
        ab, ba = bool(a == b), bool(b == a)
        rep.count("history-pairs:" + stream)
        if ab != ba:
            rep.fail("eq_not_symmetric:" + sig, case, "== is not symmetric")
        if ab != (keyfn(a) == keyfn(b)):
            rep.fail("eq_not_structural:" + sig, case, "== is %s but dom, cod, boxes %s" % (
                ab, "agree" if keyfn(a) == keyfn(b) else "differ"))
        if not ab:
            rep.fail("eq_not_structural:" + sig, case, "the derived arrow is not == its fresh twin")
            return
        if hash(a) != hash(b):
            rep.fail("hash_inconsistent:" + sig, case, "equal arrows with unequal hashes")
        elif {a: 1}.get(b) != 1 or {b: 1}.get(a) != 1:
            rep.fail("dict_lookup:" + sig, case, "an equal arrow is not found in a dict keyed by the other")
    except Exception as exc:  # noqa
        rep.fail("eq_raises:" + sig, case, "raised %r" % (exc,))
