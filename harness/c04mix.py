"""C04 — two regions of (functor class x map flavour x source) the other streams never visited.

Stream A  `run_monoidal_on_rigid`  (monoidal.py:833-835 applied to rigid sources)
    A MONOIDAL functor knows nothing of adjoints: every generating object of the source — for a
    rigid source every (name, winding number) — is an independent generator with its own image.
    Sources: rigid types and rigid diagrams of generic boxes (plain and daggered) and swaps whose
    objects are drawn from a fixed injective renaming of the monoidal alphabet
        a b c d e  ->  (n, 0) (n, -1) (n, 1) (s, 0) (s, 2)
    so that the same NAME occurs with several winding numbers in one type, and each (name, z) has
    an independently drawn image (length 0-3) in a monoidal or a rigid target.  Object maps: dict
    keyed by the one-object rigid.Ty, lookup lambda, total function of (name, z), Quiver, callable
    object, Mapping; box maps: dict / callable / Quiver.
    Oracle (from the table alone): F(t) = concatenation of the images of its objects, F(t @ u) =
    F(t) @ F(u), F(Id(t)) = Id(F(t)), F(d).dom / cod = F(d.dom) / F(d.cod) = the table's, F(d) ==
    the layer-by-layer reference built from the table, then / tensor / dagger / slice laws.
    Correspondence: the PRE-image of the renaming is a plain monoidal request; the model's monoidal
    functor on it must answer what discopy answers on the rigid source (driver `functor`,
    `functorty`): the model is told nothing of the winding numbers, as monoidal.Functor is not.
    The same cases are also run unrenamed-in-z (all winding numbers 0) as the neighbouring region.

Stream B  `run_total_boxmap`  (rigid.py:433-438, monoidal.py:836-838 with TOTAL box maps)
    A rigid functor sends Cup / Cap / Swap to the nested cups / caps / swaps of the image types
    and never asks the box map about them — also when the box map is a total callable that would
    have an answer for them (identity on unknown boxes, dict.get with the box as default, a box
    of the right shape for every box), a Quiver, a callable object, a Mapping containing
    everything, a dict with __missing__.  Every (object-map form) x (box-map form) combination
    must give the SAME image, equal to the reference built from the table (cups(F(x), F(x.r)) for
    a Cup ...) and to the Lean model's answer.  Random rigid diagrams with cups, caps, swaps and
    functors with object images of length 0-3; monoidal family (swaps only) every fourth case;
    a pinned sweep of Cup / Cap in both orientations, snake, x -> p @ q, x -> Ty().
"""
import collections.abc
import random

from common import ser_result, ser_ty, err_class, tokname, wf_failure
from core import Gen, tok_expr, tok_ty, tok_box, spec_ty, ty_l, ty_r, adj

# ------------------------------------------------------------------------------------ stream A
ALPHA = ["a", "b", "c", "d", "e"]
RENAME = {"a": ("n", 0), "b": ("n", -1), "c": ("n", 1), "d": ("s", 0), "e": ("s", 2)}
FLAT = {k: (k, 0) for k in ALPHA}          # the neighbouring region: no winding numbers at all
OB_FORMS_A = ("dict", "lookup", "by_name_z", "quiver", "callable_obj", "mapping")
AR_FORMS = ("dict", "callable", "quiver")


def ren_ty(ren, t):
    return [ren[n] for n, _ in t]


def ren_box(ren, b):
    return dict(b, dom=ren_ty(ren, b["dom"]), cod=ren_ty(ren, b["cod"]))


def ren_expr(ren, e):
    _, dom, cod, boxes, offs = e
    return ("mk", ren_ty(ren, dom), ren_ty(ren, cod), [ren_box(ren, b) for b in boxes], list(offs))


def make_ob_a(src, tgt, ren, obmap, form):
    """Object map of a monoidal functor on the renamed source; keys are one-object source types."""
    from discopy import cat
    dct = {src.ty([ren[n]]): tgt.ty(t) for n, t in obmap.items()}
    by_nz = {ren[n]: tgt.ty(t) for n, t in obmap.items()}

    def lookup(t):
        return dct[t]

    def by_name_z(t):
        o = t.objects[0]
        return by_nz[(o.name, getattr(o, "z", 0) or 0)]
    if form == "dict":
        return dct
    if form == "lookup":
        return lambda t: dct[t]
    if form == "by_name_z":
        return by_name_z
    if form == "quiver":
        return cat.Quiver(by_name_z)
    if form == "callable_obj":
        class ObMap:
            def __call__(self, t):
                return by_name_z(t)
        return ObMap()
    if form == "mapping":
        class M(collections.abc.Mapping):
            def __getitem__(self, t):
                return by_name_z(t)

            def __iter__(self):
                return iter(dct)

            def __len__(self):
                return len(dct)
        return M()
    raise ValueError(form)


def make_ar(ar, form):
    from discopy import cat
    if form == "callable":
        return lambda b: ar[b]
    if form == "quiver":
        return cat.Quiver(lambda b: ar[b])
    return dict(ar)


def img_flat(obmap, t):
    """Stream A: t is a type over ALPHA (pre-image); the image is the plain concatenation."""
    out = []
    for n, _ in t:
        out += list(obmap[n])
    return out


def base_of(b):
    return dict(b, dom=b["cod"], cod=b["dom"], dagger=False) if b["dagger"] else dict(b)


def reference(tgt, e, img, box_image):
    """F(d) from the table alone: id(F(dom)) >> ... >> id(F(left)) @ F(box) @ id(F(right)) ..."""
    m = tgt.m
    _, dom, _, boxes, offs = e
    scan = list(dom)
    out = m.Id(tgt.ty(img(scan)))
    for b, off in zip(boxes, offs):
        k = len(b["dom"])
        out = out >> m.Id(tgt.ty(img(scan[:off]))) @ box_image(b) @ m.Id(tgt.ty(img(scan[off + k:])))
        scan = scan[:off] + list(b["cod"]) + scan[off + k:]
    return out


def tok_obmap(obmap):
    obs = sorted(obmap.items())
    return "%d %s" % (len(obs), " ".join("%s %s" % (tokname(n), tok_ty(t)) for n, t in obs))


def run_monoidal_on_rigid(rep, drv, fams, rng, n_cases, gen_functor, tok_functor):
    from discopy import monoidal
    src_r, src_m = fams["rigid"], fams["monoidal"]
    pending = []
    for k in range(n_cases):
        r = random.Random(rng.getrandbits(64))
        flat = (k % 5 == 4)                      # every fifth case: a plain monoidal source
        ren, src = (FLAT, src_m) if flat else (RENAME, src_r)
        tgt = fams["rigid"] if k % 3 == 2 else fams["monoidal"]
        g = Gen(r, rigid=False, maxw=5, names=ALPHA)
        dom = g.ty(0, 4)
        if r.random() < 0.5:                     # the same name with two winding numbers, adjacent
            pair = r.choice([["a", "b"], ["b", "a"], ["a", "c"], ["c", "b"], ["d", "e"], ["a", "b", "c"]])
            at = r.randint(0, len(dom))
            dom = (dom[:at] + [(n, 0) for n in pair] + dom[at:])[:5]
        e, scans = g.grow(dom, r.choice([0, 1, 2, 2, 3, 4]))
        e2, _ = g.diagram(depth=r.choice([0, 1, 2]))
        eb, _ = g.diagram(dom=scans[-1], depth=r.choice([0, 1, 2]))
        obmap, armap = gen_functor(r, tgt.rigid, e[3] + e2[3] + eb[3], False, names=ALPHA)
        obform = OB_FORMS_A[k % len(OB_FORMS_A)]
        arform = AR_FORMS[(k // len(OB_FORMS_A)) % 3]
        images = {tok_box(b): tgt.run(x) for b, x in armap}
        info = dict(stream="monoidal_functor_on_rigid_source", renaming=repr(ren), target=tgt.name,
                    expr=repr(ren_expr(ren, e)), obmap=repr({ren[n]: t for n, t in obmap.items()}),
                    armap=repr([(ren_box(ren, b), x) for b, x in armap])[:2000],
                    ob_form=obform, ar_form=arform)
        try:
            ar = {src.box(ren_box(ren, b)): images[tok_box(b)] for b, _ in armap}
            kw = dict(ob_factory=tgt.m.Ty, ar_factory=tgt.m.Diagram) if tgt.rigid else {}
            F = monoidal.Functor(make_ob_a(src, tgt, ren, obmap, obform), make_ar(ar, arform), **kw)
        except Exception as exc:
            rep.fail("mixA_case_unbuildable:" + err_class(exc), info, repr(exc)[:300])
            continue
        rep.count("mixA:source:" + ("monoidal" if flat else "rigid"))
        rep.count("mixA:target:" + tgt.name)
        rep.count("mixA:ob_form:" + obform)
        rep.count("mixA:ar_form:" + arform)
        img = lambda t: img_flat(obmap, t)

        def law(name, lhs, rhs, extra=None):
            try:
                a, b = lhs(), rhs()
                ok = (a == b) and (b == a)
            except Exception as exc:
                ok, a, b = False, "raised " + err_class(exc) + " " + repr(exc)[:200], ""
            rep.count("mixA:law:" + name)
            if not ok:
                rep.fail("monoidal_functor_on_%s_source:%s:%s" % (
                    "monoidal" if flat else "rigid", name, "dict" if obform == "dict" else "callable"),
                    dict(info, **(extra or {})), "%s: %s != %s" % (name, str(a)[:300], str(b)[:300]))
        # ---- types: every object is looked up on its own
        same_name = False
        tys = [scans[0], scans[-1]] + [scans[r.randrange(len(scans))]]
        tys += [[(x, 0), (y, 0)] for x, y in (r.sample(ALPHA, 2), ("a", "b"), ("c", "a"), ("e", "d"))]
        tys += [[(x, 0)] for x in ALPHA] + [[]]
        for t in tys:
            rt = ren_ty(ren, t)
            same_name = same_name or len({n for n, _ in rt}) < len(set(rt))
            T = src.ty(rt)
            want = tgt.ty(img(t))
            law("ty_image", lambda: F(T), lambda: want, dict(type=repr(rt)))
            law("ty_tensor", lambda: F(T @ src.ty(ren_ty(ren, scans[0]))),
                lambda: want @ tgt.ty(img(scans[0])), dict(type=repr(rt)))
            law("id", lambda: F(src.m.Id(T)), lambda: tgt.m.Id(want), dict(type=repr(rt)))
            try:
                real = "ok " + ser_ty(F(T))
            except Exception as exc:
                real = "err " + err_class(exc)
            pending.append((dict(info, type=repr(rt)), "functorty %s %s" % (tok_obmap(obmap), tok_ty(t)),
                            real, not flat and len(rt) >= 2))
        rep.count("mixA:same_name_two_windings:" + str(same_name))
        # ---- the diagram
        try:
            d, d2, db = src.run(ren_expr(ren, e)), src.run(ren_expr(ren, e2)), src.run(ren_expr(ren, eb))
        except Exception as exc:
            rep.fail("mixA_source_unbuildable:" + err_class(exc), info, repr(exc)[:300])
            continue
        value = [None]

        def thunk():
            value[0] = F(d)
            return value[0]
        real = ser_result(thunk)
        pending.append((info, "functor %s %s" % (tok_functor(obmap, armap), tok_expr(e)), real,
                        not flat and len(e[3]) >= 1))
        rep.count("mixA:boxes:%d" % min(len(e[3]), 4))
        if value[0] is None:
            rep.fail("monoidal_functor_on_%s_source:raises:%s" % ("monoidal" if flat else "rigid",
                                                                  real.split(" ")[1]), info, real)
            continue
        Fd = value[0]
        why = wf_failure(Fd)
        if why:
            rep.fail("mixA_illtyped_image", info, why)
            continue

        def box_image(b):
            if b["kind"] == "s":
                return tgt.m.Diagram.swap(tgt.ty(img(b["dom"][:1])), tgt.ty(img(b["dom"][1:])))
            x = images[tok_box(base_of(b))]
            return x.dagger() if b["dagger"] else x
        law("dom", lambda: Fd.dom, lambda: tgt.ty(img(scans[0])))
        law("cod", lambda: Fd.cod, lambda: tgt.ty(img(scans[-1])))
        law("dom_F", lambda: Fd.dom, lambda: F(d.dom))
        law("cod_F", lambda: Fd.cod, lambda: F(d.cod))
        law("reference", lambda: Fd, lambda: reference(tgt, e, img, box_image))
        law("then", lambda: F(d >> db), lambda: F(d) >> F(db))
        law("tensor", lambda: F(d @ d2), lambda: F(d) @ F(d2))
        law("tensor_id", lambda: F(d @ src.m.Id(d.dom)), lambda: F(d) @ tgt.m.Id(F(d.dom)))
        wide = any(b["kind"] == "s" and all(len(obmap[n]) >= 2 for n, _ in b["dom"]) for b in e[3])
        if not wide:                            # finding F6 otherwise (main stream reports it)
            law("dagger", lambda: F(d[::-1]), lambda: F(d)[::-1])
        n = len(d.boxes)
        i, j = sorted((r.randint(0, n), r.randint(0, n)))
        if i < j:
            lens = [len(F(bx).boxes) for bx in d.boxes]
            law("slice", lambda: F(d[i:j]), lambda: F(d)[sum(lens[:i]):sum(lens[:j])])
    answers = drv.ask_many([p[1] for p in pending]) if pending else []
    for (info, line, real, nontriv), model in zip(pending, answers):
        rep.case("mixA " + line, nontriv)
        if real != model:
            rep.disagree("monoidal_on_rigid:" + line.split(" ")[0], dict(info, request=line[:2000]),
                         real[:500], model[:500])
    rep.count("mixA:requests", len(pending))


# ------------------------------------------------------------------------------------ stream B
OB_FORMS_B = ("dict", "lookup", "by_name")
AR_FORMS_B = ("dict", "lookup", "get_default", "identity_default", "total_shaped", "quiver_total",
              "callable_obj_total", "mapping_total", "missing_total", "quiver_lookup")
TOTAL = ("get_default", "identity_default", "total_shaped", "quiver_total", "callable_obj_total",
         "mapping_total")


def img_rigid(obmap, t):
    out = []
    for name, z in t:
        cur = list(obmap[name])
        for _ in range(abs(z)):
            cur = ty_l(cur) if z < 0 else ty_r(cur)
        out += cur
    return out


def make_ob_b(fam, obmap, form):
    T = {n: fam.ty(t) for n, t in obmap.items()}
    dct = {fam.ty([(n, 0)]): v for n, v in T.items()}
    if form == "dict":
        return dct
    if form == "lookup":
        return lambda t: dct[t]
    if form == "by_name":
        return lambda t: T[t.objects[0].name]
    raise ValueError(form)


def make_ar_b(fam, obmap, ar, form):
    """Box maps; the TOTAL ones answer for every box there is, cups / caps / swaps included."""
    from discopy import cat
    m = fam.m

    def shaped(b):
        if b in ar:
            return ar[b]
        return m.Box("T_" + str(b.name), fam.ty(img_rigid(obmap, spec_ty(b.dom))),
                     fam.ty(img_rigid(obmap, spec_ty(b.cod))))
    if form == "dict":
        return dict(ar)
    if form == "lookup":
        return lambda b: ar[b]
    if form == "quiver_lookup":
        return cat.Quiver(lambda b: ar[b])
    if form == "get_default":
        return lambda b: ar.get(b, b)
    if form == "identity_default":
        return lambda b: ar[b] if b in ar else b
    if form == "total_shaped":
        return shaped
    if form == "quiver_total":
        return cat.Quiver(shaped)
    if form == "callable_obj_total":
        class ArMap:
            def __call__(self, b):
                return shaped(b)
        return ArMap()
    if form == "mapping_total":
        class M(collections.abc.Mapping):
            def __getitem__(self, b):
                return shaped(b)

            def __iter__(self):
                return iter(ar)

            def __len__(self):
                return len(ar)
        return M()
    if form == "missing_total":
        class Missing(dict):
            def __missing__(self, b):
                return shaped(b)
        return Missing(ar)
    raise ValueError(form)


def _cup(l, rr):
    return dict(kind="u", name=None, dom=[l, rr], cod=[], dagger=False, data=None)


def _cap(l, rr):
    return dict(kind="a", name=None, dom=[], cod=[l, rr], dagger=False, data=None)


def _gbox(name, dom, cod):
    return dict(kind="g", name=name, dom=list(dom), cod=list(cod), dagger=False, data=None)


def pinned_b(r):
    """(expr, obmap, armap) — Cup / Cap in both orientations, a snake, swaps, for tables that send
    the object to two wires, to none, to one adjoint wire."""
    out = []
    for img_a in ([("p", 0), ("q", 0)], [], [("q", -1)], [("p", 0), ("q", 1), ("p", 0)]):
        obmap = {"a": img_a, "b": [("r", 0)], "c": [("p", 0)], "d": []}
        for z in (0, r.choice([-2, -1, 1, 2])):
            x, y = ("a", z), ("b", 0)
            xr, xl = adj(x, 1), adj(x, -1)
            f = _gbox("f", [x], [x, y])
            fimg = ("mk", img_rigid(obmap, [x]), img_rigid(obmap, [x, y]),
                    [_gbox("g", img_rigid(obmap, [x]), img_rigid(obmap, [x, y]))], [0])
            armap = [(f, fimg)]
            for box in (_cup(x, xr), _cup(xl, x), _cap(x, xl), _cap(xr, x)):
                out.append((("mk", box["dom"], box["cod"], [box], [0]), obmap, armap))
            out.append((("mk", [x], [x, y], [_cap(x, xl), _cup(xl, x), f], [0, 1, 0]), obmap, armap))
            out.append((("mk", [x, y], [x, y, y],
                         [dict(kind="s", name=None, dom=[x, y], cod=[y, x], dagger=False, data=None),
                          dict(kind="s", name=None, dom=[y, x], cod=[x, y], dagger=False, data=None),
                          f], [0, 0, 0]), obmap, armap))
    return out


def run_total_boxmap(rep, drv, fams, rng, n_cases, gen_functor, tok_functor):
    pending = []
    cases = []
    r0 = random.Random(rng.getrandbits(64))
    for e, obmap, armap in pinned_b(r0):
        cases.append(("rigid", "pinned", e, obmap, armap, r0))
    for k in range(n_cases):
        r = random.Random(rng.getrandbits(64))
        famn = "monoidal" if k % 4 == 3 else "rigid"
        g = Gen(r, rigid=(famn == "rigid"), maxw=5)
        dom = g.ty(0, 3)
        if famn == "rigid" and r.random() < 0.6:      # something to cup at once
            x = g.ob()
            dom = (dom + ([x, adj(x, 1)] if r.random() < 0.5 else [adj(x, 1), x]))[-5:]
        e, scans = g.grow(dom, r.choice([1, 2, 3, 3, 4, 5, 6]))
        obmap, armap = gen_functor(r, famn == "rigid", e[3], False)
        cases.append((famn, "random", e, obmap, armap, r))
    for famn, origin, e, obmap, armap, r in cases:
        fam = fams[famn]
        m = fam.m
        info0 = dict(stream="total_box_map", family=famn, origin=origin, expr=repr(e),
                     obmap=repr(obmap), armap=repr(armap)[:2000])
        try:
            images = {tok_box(b): fam.run(x) for b, x in armap}
            ar = {fam.box(b): images[tok_box(b)] for b, _ in armap}
            d = fam.run(e)
        except Exception as exc:
            rep.fail("mixB_case_unbuildable:" + err_class(exc), info0, repr(exc)[:300])
            continue
        img = lambda t: img_rigid(obmap, t)

        def box_image(b):
            l, rr = (b["dom"][:1], b["dom"][1:]) if b["kind"] != "a" else (b["cod"][:1], b["cod"][1:])
            if b["kind"] == "s":
                return m.Diagram.swap(fam.ty(img(l)), fam.ty(img(rr)))
            if b["kind"] == "u":
                return m.Diagram.cups(fam.ty(img(l)), fam.ty(img(rr)))
            if b["kind"] == "a":
                return m.Diagram.caps(fam.ty(img(l)), fam.ty(img(rr)))
            x = images[tok_box(base_of(b))]
            return x.dagger() if b["dagger"] else x
        try:
            ref = reference(fam, e, img, box_image)
        except Exception as exc:
            rep.fail("mixB_reference_unbuildable:" + err_class(exc), info0, repr(exc)[:300])
            continue
        kinds = sorted({b["kind"] for b in e[3]})
        special = [kd for kd in kinds if kd != "g"]
        rep.count("mixB:family:" + famn)
        rep.count("mixB:kinds:" + "".join(kinds))
        rep.count("mixB:nonidentity_ob_on_special:" + str(any(
            img([o]) != [o] for b in e[3] if b["kind"] != "g" for o in b["dom"] + b["cod"])))
        line = "functor %s %s" % (tok_functor(obmap, armap), tok_expr(e))
        # which combinations: all ar forms with a rotating ob form, plus the four dict/callable corners
        combos = [(OB_FORMS_B[(i + len(pending)) % 3], af) for i, af in enumerate(AR_FORMS_B)]
        combos += [(o, a) for o in ("dict", "lookup") for a in ("dict", "total_shaped")]
        answers = {}
        for obf, arf in combos:
            if (obf, arf) in answers:
                continue
            info = dict(info0, ob_form=obf, ar_form=arf)
            rep.count("mixB:ar_form:" + arf)
            rep.count("mixB:ob_form:" + obf)
            sig = "total_box_map:%s:%%s:%s" % (famn, "total_callable" if arf in TOTAL else arf)
            try:
                F = m.Functor(make_ob_b(fam, obmap, obf), make_ar_b(fam, obmap, ar, arf))
            except Exception as exc:
                rep.fail("mixB_case_unbuildable:" + err_class(exc), info, repr(exc)[:300])
                continue
            value = [None]

            def thunk():
                value[0] = F(d)
                return value[0]
            real = ser_result(thunk)
            answers[(obf, arf)] = real
            if value[0] is None:
                rep.fail(sig % ("raises_" + real.split(" ")[1]), info, real)
                continue
            Fd = value[0]
            why = wf_failure(Fd)
            if why:
                rep.fail(sig % "illtyped_image", info, why)

            def law(name, lhs, rhs, extra=None):
                try:
                    a, b = lhs(), rhs()
                    ok = (a == b) and (b == a)
                except Exception as exc:
                    ok, a, b = False, "raised " + err_class(exc) + " " + repr(exc)[:200], ""
                rep.count("mixB:law:" + name)
                if not ok:
                    rep.fail(sig % name, dict(info, **(extra or {})),
                             "%s: %s != %s" % (name, str(a)[:300], str(b)[:300]))
            law("dom", lambda: Fd.dom, lambda: fam.ty(img(e[1])))
            law("cod", lambda: Fd.cod, lambda: fam.ty(img(e[2])))
            law("dom_F", lambda: Fd.dom, lambda: F(d.dom))
            law("cod_F", lambda: Fd.cod, lambda: F(d.cod))
            law("reference", lambda: Fd, lambda: ref)
            seen = set()
            for b, bx in zip(e[3], d.boxes):
                if b["kind"] == "g" or tok_box(b) in seen:
                    continue
                seen.add(tok_box(b))
                name = {"u": "cup", "a": "cap", "s": "swap"}[b["kind"]]
                ex = dict(box=repr(b))
                law(name, lambda: F(bx), lambda: box_image(b), ex)
                law(name + "_dom", lambda: F(bx).dom, lambda: F(bx.dom), ex)
                law(name + "_cod", lambda: F(bx).cod, lambda: F(bx.cod), ex)
                if b["kind"] == "u":
                    law("cup_nested", lambda: F(bx), lambda: m.Diagram.cups(F(bx.dom[:1]), F(bx.dom[1:])), ex)
                elif b["kind"] == "a":
                    law("cap_nested", lambda: F(bx), lambda: m.Diagram.caps(F(bx.cod[:1]), F(bx.cod[1:])), ex)
                else:
                    law("swap_nested", lambda: F(bx), lambda: m.Diagram.swap(F(bx.dom[:1]), F(bx.dom[1:])), ex)
            if len(d.boxes) >= 2:
                cut = r.randint(1, len(d.boxes) - 1)
                law("then", lambda: Fd, lambda: F(d[:cut]) >> F(d[cut:]))
        # all forms agree with each other
        distinct = sorted(set(answers.values()))
        rep.count("mixB:agreement:" + ("same" if len(distinct) == 1 else "DIFFERENT"))
        if len(distinct) > 1:
            groups = {}
            for kk, v in sorted(answers.items()):
                groups.setdefault(v, []).append("%s/%s" % kk)
            rep.fail("total_box_map:%s:forms_disagree" % famn,
                     dict(info0, groups=repr(sorted(groups.values()))[:1500]),
                     "the image depends on how the maps are handed over: " + repr(
                         [(v[:1], a[:200]) for a, v in groups.items()])[:1500])
        real = answers.get(("dict", "dict"))
        if real is not None:
            pending.append((info0, line, real, bool(special) and famn == "rigid"))
    model = drv.ask_many([p[1] for p in pending]) if pending else []
    for (info, line, real, nontriv), ans in zip(pending, model):
        rep.case("mixB " + line, nontriv)
        if real != ans:
            rep.disagree("total_box_map:functor", dict(info, request=line[:2000]), real[:500], ans[:500])
    rep.count("mixB:requests", len(pending))
