"""Calling conventions of discopy's Tensor (C08): generators of n-ary `then` / `tensor` calls with
0-4 arguments (Tensors, Sums of both classes, a few non-tensors), the list of equivalent ways of
making one and the same call, and an exact Gaussian-integer matrix type for the oracle."""
import numpy as np

import tensorlib as tl
from tensorlib import eff, size


# ------------------------------------------------------------------ exact matrices over Z[i]

class GMat:
    """A matrix of Gaussian integers: two int64 arrays.  All arithmetic is integer arithmetic;
    `LIMIT` keeps every intermediate below 2^62."""
    LIMIT = 2 ** 28

    def __init__(self, re, im):
        self.re = np.asarray(re, dtype=np.int64)
        self.im = np.asarray(im, dtype=np.int64)
        if self.re.size and max(int(np.abs(self.re).max()), int(np.abs(self.im).max())) \
                >= GMat.LIMIT:
            raise tl.Inexact()

    @staticmethod
    def of_array(array, rows, cols):
        """The matrix rows x cols of a numpy array of integer-valued (complex) floats."""
        a = np.asarray(array).astype(complex).reshape(rows, cols)
        re, im = np.rint(a.real), np.rint(a.imag)
        if not (np.all(re == a.real) and np.all(im == a.imag)) or tl.absbound(a) >= GMat.LIMIT:
            raise tl.Inexact()
        return GMat(re.astype(np.int64), im.astype(np.int64))

    @staticmethod
    def zeros(rows, cols):
        return GMat(np.zeros((rows, cols), dtype=np.int64), np.zeros((rows, cols), dtype=np.int64))

    @property
    def shape(self):
        return self.re.shape

    def matmul(self, o):
        return GMat(self.re @ o.re - self.im @ o.im, self.re @ o.im + self.im @ o.re)

    def kron(self, o):
        return GMat(np.kron(self.re, o.re) - np.kron(self.im, o.im),
                    np.kron(self.re, o.im) + np.kron(self.im, o.re))

    def add(self, o):
        return GMat(self.re + o.re, self.im + o.im)

    def conj_t(self):
        return GMat(self.re.T.copy(), -self.im.T)

    def scale(self, zre, zim):
        return GMat(zre * self.re - zim * self.im, zre * self.im + zim * self.re)

    def diff(self, o):
        """None if equal, else a description of the first difference."""
        if self.shape != o.shape:
            return "matrix shape %r, expected %r" % (self.shape, o.shape)
        bad = np.argwhere((self.re != o.re) | (self.im != o.im))
        if len(bad) == 0:
            return None
        i = tuple(int(x) for x in bad[0])
        return "matrix differs at %d of %d entries, first at %r: got %d%+di, expected %d%+di" % (
            len(bad), self.re.size, i, self.re[i], self.im[i], o.re[i], o.im[i])


def value_matrix(v):
    """(dom, cod, GMat) of what the real code returned: a Tensor, or a Sum of Tensors read as the
    sum of its terms (the empty sum is the zero matrix).  None for anything else."""
    from discopy import cat, tensor
    if isinstance(v, tensor.Tensor):
        dom, cod = tl.dims_of(v.dom), tl.dims_of(v.cod)
        return dom, cod, GMat.of_array(v.array, size(dom), size(cod))
    if isinstance(v, cat.Sum):
        dom, cod = tl.dims_of(v.dom), tl.dims_of(v.cod)
        m = GMat.zeros(size(dom), size(cod))
        for t in v.terms:
            if not isinstance(t, tensor.Tensor) or tl.dims_of(t.dom) != dom \
                    or tl.dims_of(t.cod) != cod:
                return None
            m = m.add(GMat.of_array(t.array, size(dom), size(cod)))
        return dom, cod, m
    return None


# ------------------------------------------------------------------ generator

class CGen:
    """Random n-ary calls `recv.then(*args)` / `recv.tensor(*args)`.

    operands: Tensor-valued expressions (literals, zero tensors, identities, small composites,
    nested n-ary calls), `Sum(...)` literals of both classes with 0-3 terms (some all zero), and
    rarely a tensor.Box / None / an int."""

    def __init__(self, rng, maxdim=3, maxwires=2, malformed=0.08, p_sum=0.18, p_junk=0.05,
                 cap=4000):
        self.rng, self.maxdim, self.maxwires = rng, maxdim, maxwires
        self.malformed, self.p_sum, self.p_junk, self.cap = malformed, p_sum, p_junk, cap
        self.t = tl.TGen(rng, maxdim=maxdim, maxwires=maxwires, malformed=0.0)

    def dims(self, hi=None):
        return tl.rand_dims(self.rng, self.maxdim, 0, self.maxwires if hi is None else hi)

    # ---- operands of a given type
    def tensor_operand(self, dom, cod, depth=1):
        r = self.rng
        k = r.random()
        if k < 0.6 or size(dom) * size(cod) > 400:
            return self.t.lit(dom, cod)[0]
        if k < 0.68:
            return ("zeros", list(dom), list(cod))
        if k < 0.74 and eff(dom) == eff(cod):
            return ("id", list(dom), "dim")
        if k < 0.8:
            fn = r.choice(sorted(tl.MAP_FNS))
            return ("map", fn, self.t.lit(dom, cod)[0])
        if k < 0.9 and depth > 0:
            return self.nary(r.choice(["then", "tensor"]), dom, cod, depth - 1, sums=False)
        # a small composite through a middle type (binary conventions inside)
        return self.t.expr(1, dom, cod)[0]

    def sum_operand(self, dom, cod):
        r = self.rng
        kind = "t" if r.random() < 0.7 else "m"
        n = r.choice([0, 1, 1, 2, 2, 3])
        terms = []
        for _ in range(n):
            if r.random() < 0.2:
                terms.append(("zeros", list(dom), list(cod)))
            else:
                terms.append(self.t.lit(dom, cod)[0])
        typed = True
        if n and r.random() < 0.3:
            typed = False               # `Sum(terms)`: types taken from the first term
        if r.random() < self.malformed / 2:
            if n and r.random() < 0.6:  # a term of another type: AxiomError
                terms[r.randrange(n)] = self.t.lit(self.dims(), self.dims())[0]
            elif not n:
                typed = False           # `Sum([])`: ValueError
        return ("sum", kind, typed, list(dom), list(cod), terms)

    def junk_operand(self, dom, cod):
        k = self.rng.random()
        if k < 0.5:
            return ("box", list(dom), list(cod))
        return ("none",) if k < 0.75 else ("int",)

    # ---- one n-ary call
    def split(self, dims, parts):
        """Cut a list into `parts` consecutive (possibly empty) pieces."""
        cuts = sorted(self.rng.randint(0, len(dims)) for _ in range(parts - 1))
        cuts = [0] + cuts + [len(dims)]
        return [dims[a:b] for a, b in zip(cuts, cuts[1:])]

    def types(self, op, k, dom=None, cod=None):
        """(dom, cod) of the k+1 operands."""
        r = self.rng
        if op == "then":
            if k == 0:                  # `f.then()` is `f`, of any type
                return [(self.dims() if dom is None else list(dom),
                         self.dims() if cod is None else list(cod))]
            chain = [self.dims() for _ in range(k + 2)]
            if dom is not None:
                chain[0], chain[-1] = list(dom), list(cod)
            return [(chain[i], chain[i + 1]) for i in range(k + 1)]
        if dom is not None:
            return list(zip(self.split(list(dom), k + 1), self.split(list(cod), k + 1)))
        hi = self.maxwires if k <= 2 else 1
        tys = [(self.dims(hi), self.dims(hi)) for _ in range(k + 1)]
        # keep the result below `cap` entries: drop wires of the largest operand
        while np.prod([size(d) * size(c) for d, c in tys], dtype=float) > self.cap:
            big = max(tys, key=lambda t: size(t[0]) * size(t[1]))
            (big[0] if size(big[0]) >= size(big[1]) else big[1]).pop()
        return tys

    def nary(self, op, dom=None, cod=None, depth=1, sums=True, k=None):
        r = self.rng
        if k is None:
            k = r.choice([0, 1, 2, 2, 3, 3, 4])
        tys = self.types(op, k, dom, cod)
        if dom is None and r.random() < self.malformed and k:
            i = r.randrange(k + 1)
            tys[i] = (self.dims(), self.dims())     # (then: no longer composable)
        operands, seen_sum, n_sums = [], False, 0
        for i, (d, c) in enumerate(tys):
            x = r.random()
            if sums and n_sums < 2 and x < (self.p_sum if i else self.p_sum / 2):
                operands.append(self.sum_operand(d, c))
                seen_sum = True
                n_sums += 1
            elif sums and i and x > 1 - self.p_junk:
                j = self.junk_operand(d, c)
                if seen_sum and j[0] != "box":
                    j = ("box", list(d), list(c))   # None / int after a Sum: AttributeError
                operands.append(j)
            else:
                operands.append(self.tensor_operand(d, c, depth))
        return (op + "N", operands[0], operands[1:], r.choice(tl.NARY_CONVS))


def conventions(e):
    """All the ways of making the call `e = (opN, recv, args, _)`, as (name, expression) pairs;
    expressions with the same token form must give the same result."""
    op, recv, args = e[0][:-1], e[1], e[2]
    out = [("nary-method", (e[0], recv, args, "method")),
           ("nary-unbound", (e[0], recv, args, "unbound"))]
    if not args:
        return out

    def left(conv):
        acc = recv
        for a in args:
            acc = (op, acc, a, conv)
        return acc
    out.append(("iter-method", left("method")))
    out.append(("chain-" + (">>" if op == "then" else "@"), left(">>" if op == "then" else "@")))
    plain = all(x[0] not in ("box", "none", "int") for x in [recv] + list(args))
    if plain:
        # `h << g << f` parses as `(h << g) << f` = f.then(g.then(h)); `f @ (g @ h)`
        ops = [recv] + list(args)
        acc = ops[-1]
        for a in reversed(ops[:-1]):
            acc = (op, a, acc, "<<" if op == "then" else "@")
        out.append(("chain-<<" if op == "then" else "right-@", acc))
    return out


def bounded_case(gen, work=300000, peak=20000, tries=40):
    """An n-ary call within the model's cost budget (regenerated from the same rng)."""
    rejected = 0
    for _ in range(tries):
        e = gen.nary(gen.rng.choice(["then", "tensor"]))
        _, _, w, p = tl.texpr_cost(e)
        if w <= work and p <= peak:
            return e, rejected
        rejected += 1
    return ("tensorN", gen.t.lit([2], [2])[0], [], "method"), rejected
